// apps/param_app.h - compile-time application for C14 (and part (3) of C15).
//
// The ports are built ONLY from the library's port macros (include/rtosc/port-sugar.h). Next to the
// ports there is a hand-written description table (describe()): for every port its address, macro
// kind, storage type, declared range (as text), array length / string capacity and option map. The
// reference model in checks/C14_params.cpp works from that table and from the property statement,
// never from the macro bodies. The harness cross-checks the table against the ports' metadata at
// start-up (a mismatch is a harness error, exit 3), so a typo here cannot turn into a false alarm.
//
// Rules the application follows so that it does not blame the library for its own mistakes:
//  * array port names contain no digits (the macros find the element index at the first digit of the
//    port's part of the address);
//  * rParam declares [0,127] itself (rMap(min,0) rMap(max,127) come first in its metadata and the first
//    entry wins), so no second range is given to rParam ports;
//  * ranges on integer ports are such that the declared bound, read as an integer, is unambiguous
//    ([-0.5,2.25] admits exactly 0,1,2 whichever way the bound is rounded);
//  * option ports with an enum storage type use an enum with a fixed underlying type and a declared range;
//  * every array and string is surrounded by guard bytes (0x5a) so that a write to element -1 or n is
//    visible (it stays inside the object, AddressSanitizer cannot see it).
// Include this header in exactly one translation unit.
#pragma once
#include <cctype>
#include <cstddef>
#include <cstring>
#include <string>
#include <utility>
#include <vector>
#include <rtosc/ports.h>
#include <rtosc/port-sugar.h>

namespace papp {

using rtosc::enum_key;

enum Wave : int { W_SINE = 0, W_SAW = 1, W_SQUARE = 2 };

#define PA_GUARD_BYTE 0x5a
#define PA_ARR(T, name, n) unsigned char name##_pre[8]; T name[n]; unsigned char name##_post[8]

// nested object: reached through rRecur (/sub/...) and rRecurs (/subs0/..., /subs1/...)
struct Sub {
    char  q;
    int   qi;
    float qf;
    bool  qt;
    int   qo;
    PA_ARR(char,  qs, 8);
    PA_ARR(char,  qai, 5);
    PA_ARR(float, qaf, 2);
    PA_ARR(bool,  qat, 2);
    PA_ARR(int,   qao, 2);
    static const rtosc::Ports ports;
};

struct App {
    // rParam (declares [0,127] itself)
    char          pc;
    unsigned char puc;
    int           pint;
    // rParamI
    int           pi_none, pi_midi, pi_sym, pi_neg, pi_frac, pi_min, pi_max, pi_wide, pi_special, pi_big24, pi_big31, pi_bigmax;
    short         pi_short;
    unsigned char pi_uc;
    // rParamF
    float         pf_none, pf_midi, pf_sym, pf_neg, pf_frac, pf_min, pf_max, pf_dec, pf_special;
    double        pd_frac;
    // rToggle
    bool          t_bool;
    int           t_int;
    // rOption
    int           o_plain, o_bound, o_sparse, o_many, o_neg, o_defsym, o_after, o_hi;
    Wave          o_enum;
    // rString
    PA_ARR(char, s_one, 1);
    PA_ARR(char, s_two, 2);
    PA_ARR(char, s_eight, 8);
    PA_ARR(char, s_sixteen, 16);
    PA_ARR(char, s_roomy, 32);     // declared length 16: shorter than the member
    PA_ARR(char, s_ptr_store, 32); // storage behind the pointer-backed string port
    char *s_ptr;                   // rString on a char* member, declared length 16
    // rArrayI
    PA_ARR(char, aiOne, 1);
    PA_ARR(char, aiTwo, 2);
    PA_ARR(char, aiFive, 5);
    PA_ARR(char, aiNeg, 5);
    PA_ARR(char, aiFrac, 2);
    PA_ARR(char, aiMin, 5);
    PA_ARR(char, aiMax, 2);
    PA_ARR(int,  aiInt, 5);
    PA_ARR(char, aiDozen, 12);
    PA_ARR(char, aiSpecial, 2);
    // rArrayF
    PA_ARR(float, afOne, 1);
    PA_ARR(float, afTwo, 2);
    PA_ARR(float, afFive, 5);
    PA_ARR(float, afNeg, 5);
    PA_ARR(float, afMin, 5);
    PA_ARR(float, afMax, 2);
    PA_ARR(float, afMidi, 2);
    // rArrayT
    PA_ARR(bool, atOne, 1);
    PA_ARR(bool, atTwo, 2);
    PA_ARR(bool, atFive, 5);
    // rArrayOption
    PA_ARR(int,  aoOne, 1);
    PA_ARR(int,  aoTwo, 2);
    PA_ARR(int,  aoFive, 5);
    PA_ARR(Wave, aoEnum, 2);
    // nested
    Sub sub;
    Sub subs[2];
    static const rtosc::Ports ports;
};

#define rObject Sub
const rtosc::Ports Sub::ports = {
    rParam(q, "char parameter"),
    rParamI(qi, rLinear(-64, 63), "int parameter"),
    rParamF(qf, rLinear(-0.5, 2.25), "float parameter"),
    rToggle(qt, "toggle"),
    rOption(qo, rOptions(sine, saw, square), rLinear(0, 2), "option"),
    rString(qs, 8, "string"),
    rArrayI(qai, 5, rLinear(0, 127), "char array"),
    rArrayF(qaf, 2, rLinear(-0.5, 2.25), "float array"),
    rArrayT(qat, 2, "toggle array"),
    rArrayOption(qao, 2, rOptions(sine, saw, square), rLinear(0, 2), "option array"),
};
#undef rObject

#define rObject App
const rtosc::Ports App::ports = {
    rParam(pc, "char"),
    rParam(puc, "unsigned char"),
    rParam(pint, "int behind rParam"),

    rParamI(pi_none, "no range"),
    rParamI(pi_midi, rLinear(0, 127), "midi range"),
    rParamI(pi_sym, rLinear(-64, 63), "symmetric"),
    rParamI(pi_neg, rLinear(-5, -1), "all negative"),
    rParamI(pi_frac, rLinear(-0.5, 2.25), "fractional bounds"),
    rParamI(pi_min, rMap(min, -3), "min only"),
    rParamI(pi_max, rMap(max, 10), "max only"),
    rParamI(pi_wide, rLinear(-1000, 100000), "bounds beyond char and short"),
    rParamI(pi_short, rLinear(-1000, 1000), "short storage"),
    rParamI(pi_uc, rLinear(0, 127), "unsigned char storage"),
    rParamI(pi_special, rSpecial(disable), rLinear(0, 127), "a valueless property with free text in front of the range"),
    rParamI(pi_big24, rLinear(-16777217, 33554435), "bounds that no float holds exactly"),
    rParamI(pi_big31, rLinear(-2000000001, 2000000001), "bounds next to the ends of int"),
    rParamI(pi_bigmax, rMap(max, 100000001), "large max only"),

    rParamF(pf_none, "no range"),
    rParamF(pf_midi, rLinear(0, 127), "midi range"),
    rParamF(pf_sym, rLinear(-64, 63), "symmetric"),
    rParamF(pf_neg, rLinear(-5, -1), "all negative"),
    rParamF(pf_frac, rLinear(-0.5, 2.25), "fractional bounds"),
    rParamF(pf_min, rMap(min, -3.5), "min only"),
    rParamF(pf_max, rMap(max, 10.25), "max only"),
    rParamF(pf_dec, rLinear(0.1, 0.7), "bounds that are not binary fractions"),
    rParamF(pd_frac, rLinear(-0.5, 2.25), "double storage"),
    rParamF(pf_special, rSpecial(disable), rLinear(-0.5, 2.25), "a valueless property with free text in front of the range"),

    rToggle(t_bool, "bool"),
    rToggle(t_int, "int storage"),

    rOption(o_plain, rOptions(red, green, blue, teal), "no range"),
    rOption(o_bound, rOptions(sine, saw, square), rLinear(0, 2), "with range"),
    rOption(o_sparse, rOpt(1, lo) rOpt(4, mid) rOpt(9, hi), "sparse map"),
    rOption(o_enum, rOptions(sine, saw, square), rLinear(0, 2), "enum storage"),
    rOption(o_many, rOptions(oa, ob, oc, od, oe, of, og, oh, oi, oj, ok, ol, om, on, oo, op, oq, or_, os, ot, ou, ov, ow, ox), "24 symbols: the longest list rOptions takes"),
    rOption(o_neg, rOpt(-2, below) rOpt(0, zero) rOpt(3, above), "a map with a negative index"),
    rOption(o_defsym, rDefault(saw), rShort("square"), rOptions(sine, saw, square), "properties whose values spell a symbol, declared in front of the map"),
    rOption(o_after, rOptions(sine, saw, square), rDefault(saw), rShort("sine"), "the same properties declared behind the map"),
    rOption(o_hi, rOpt(127, top) rOpt(128, over) rOpt(1000, far), "indices around and beyond the char range"),

    rString(s_one, 1, "capacity 1"),
    rString(s_two, 2, "capacity 2"),
    rString(s_eight, 8, "capacity 8"),
    rString(s_sixteen, 16, "capacity 16"),
    rString(s_roomy, 16, "declared length 16 in a 32-byte member"),
    rString(s_ptr, 16, "declared length 16 on a pointer member"),

    rArrayI(aiOne, 1, "no range"),
    rArrayI(aiTwo, 2, rLinear(0, 127), "midi"),
    rArrayI(aiFive, 5, rLinear(-64, 63), "symmetric"),
    rArrayI(aiNeg, 5, rLinear(-5, -1), "negative"),
    rArrayI(aiFrac, 2, rLinear(-0.5, 2.25), "fractional"),
    rArrayI(aiMin, 5, rMap(min, -3), "min only"),
    rArrayI(aiMax, 2, rMap(max, 10), "max only"),
    rArrayI(aiInt, 5, rLinear(0, 127), "int storage"),
    rArrayI(aiDozen, 12, rLinear(0, 127), "two-digit indices"),
    rArrayI(aiSpecial, 2, rSpecial(disable), rLinear(0, 127), "a valueless property with free text in front of the range"),

    rArrayF(afOne, 1, "no range"),
    rArrayF(afTwo, 2, rLinear(-0.5, 2.25), "fractional"),
    rArrayF(afFive, 5, rLinear(-64, 63), "symmetric"),
    rArrayF(afNeg, 5, rLinear(-5, -1), "negative"),
    rArrayF(afMin, 5, rMap(min, -3.5), "min only"),
    rArrayF(afMax, 2, rMap(max, 10.25), "max only"),
    rArrayF(afMidi, 2, rLinear(0, 127), "midi"),

    rArrayT(atOne, 1, "toggles"),
    rArrayT(atTwo, 2, "toggles"),
    rArrayT(atFive, 5, "toggles"),

    rArrayOption(aoOne, 1, rOptions(red, green, blue, teal), "no range"),
    rArrayOption(aoTwo, 2, rOptions(sine, saw, square), rLinear(0, 2), "with range"),
    rArrayOption(aoFive, 5, rOptions(red, green, blue, teal), "no range"),
    rArrayOption(aoEnum, 2, rOptions(sine, saw, square), rLinear(0, 2), "enum storage"),

    rRecur(sub, "nested object"),
    rRecurs(subs, 2, "indexed nested objects"),
};
#undef rObject

// ------------------------------------------------------------------------------------------------
// description table (hand written; the oracle's only knowledge of the application)

enum Kind { K_PARAM, K_PARAMI, K_PARAMF, K_TOGGLE, K_OPTION, K_STRING, K_ARRAYI, K_ARRAYF, K_ARRAYT, K_ARRAYOPTION };
enum Store { ST_CHAR, ST_UCHAR, ST_SHORT, ST_INT, ST_FLOAT, ST_DOUBLE, ST_BOOL, ST_ENUM, ST_STR };

inline const char *kind_name(Kind k)
{
    static const char *n[] = {"rParam", "rParamI", "rParamF", "rToggle", "rOption", "rString", "rArrayI", "rArrayF", "rArrayT", "rArrayOption"};
    return n[k];
}
inline const char *store_name(Store s)
{
    static const char *n[] = {"char", "uchar", "short", "int", "float", "double", "bool", "enum", "str"};
    return n[s];
}

struct PortDesc {
    std::string path;      // full address; array ports: without the element index
    Kind kind;
    Store st;
    std::string min_s, max_s;   // declared bounds as written ("" = not declared)
    int alen;              // array length, 0 = scalar
    int slen;              // string capacity (rString), else 0
    std::vector<std::pair<int, std::string>> opts;   // option map index -> symbol
    size_t off;            // offset of the field (element 0) in App
    std::string types;     // argument tags the port declares (from the macro's documented pattern)
    bool has_min() const { return !min_s.empty(); }
    bool has_max() const { return !max_s.empty(); }
    bool is_array() const { return alen > 0; }
    int elems() const { return alen > 0 ? alen : 1; }
    bool numeric_or_option() const { return kind != K_TOGGLE && kind != K_ARRAYT && kind != K_STRING; }
    bool is_toggle() const { return kind == K_TOGGLE || kind == K_ARRAYT; }
    bool is_option() const { return kind == K_OPTION || kind == K_ARRAYOPTION; }
    bool is_float() const { return kind == K_PARAMF || kind == K_ARRAYF; }
    bool char_backed() const { return kind == K_PARAM || kind == K_ARRAYI; }
    std::string address(int idx) const { return alen > 0 ? path + std::to_string(idx) : path; }
};

inline size_t store_size(const PortDesc &p)
{
    switch(p.st) {
    case ST_CHAR: case ST_UCHAR: return 1;
    case ST_SHORT: return sizeof(short);
    case ST_INT: return sizeof(int);
    case ST_FLOAT: return sizeof(float);
    case ST_DOUBLE: return sizeof(double);
    case ST_BOOL: return sizeof(bool);
    case ST_ENUM: return sizeof(Wave);
    case ST_STR: return (size_t)p.slen;
    }
    return 0;
}

typedef std::vector<std::pair<int, std::string>> OptMap;
inline OptMap opt_colours() { return {{0, "red"}, {1, "green"}, {2, "blue"}, {3, "teal"}}; }
inline OptMap opt_waves() { return {{0, "sine"}, {1, "saw"}, {2, "square"}}; }
inline OptMap opt_sparse() { return {{1, "lo"}, {4, "mid"}, {9, "hi"}}; }
inline OptMap opt_neg() { return {{-2, "below"}, {0, "zero"}, {3, "above"}}; }
inline OptMap opt_hi() { return {{127, "top"}, {128, "over"}, {1000, "far"}}; }
inline OptMap opt_many() { OptMap m; const char *n[24] = {"oa", "ob", "oc", "od", "oe", "of", "og", "oh", "oi", "oj", "ok", "ol", "om", "on", "oo", "op", "oq", "or_", "os", "ot", "ou", "ov", "ow", "ox"}; for(int i = 0; i < 24; ++i) m.push_back({i, n[i]}); return m; }

#define PA_OFF(field) offsetof(App, field)
#define PA_SOFF(field) offsetof(Sub, field)

inline void describe_sub(std::vector<PortDesc> &v, const std::string &prefix, size_t base)
{
    v.push_back({prefix + "/q",   K_PARAM,  ST_CHAR,  "0", "127", 0, 0, {}, base + PA_SOFF(q), "c"});
    v.push_back({prefix + "/qi",  K_PARAMI, ST_INT,   "-64", "63", 0, 0, {}, base + PA_SOFF(qi), "i"});
    v.push_back({prefix + "/qf",  K_PARAMF, ST_FLOAT, "-0.5", "2.25", 0, 0, {}, base + PA_SOFF(qf), "f"});
    v.push_back({prefix + "/qt",  K_TOGGLE, ST_BOOL,  "", "", 0, 0, {}, base + PA_SOFF(qt), "TF"});
    v.push_back({prefix + "/qo",  K_OPTION, ST_INT,   "0", "2", 0, 0, opt_waves(), base + PA_SOFF(qo), "icS"});
    v.push_back({prefix + "/qs",  K_STRING, ST_STR,   "", "", 0, 8, {}, base + PA_SOFF(qs), "s"});
    v.push_back({prefix + "/qai", K_ARRAYI, ST_CHAR,  "0", "127", 5, 0, {}, base + PA_SOFF(qai), "i"});
    v.push_back({prefix + "/qaf", K_ARRAYF, ST_FLOAT, "-0.5", "2.25", 2, 0, {}, base + PA_SOFF(qaf), "f"});
    v.push_back({prefix + "/qat", K_ARRAYT, ST_BOOL,  "", "", 2, 0, {}, base + PA_SOFF(qat), "TF"});
    v.push_back({prefix + "/qao", K_ARRAYOPTION, ST_INT, "0", "2", 2, 0, opt_waves(), base + PA_SOFF(qao), "icS"});
}

inline const std::vector<PortDesc> &describe()
{
    static std::vector<PortDesc> v;
    if(!v.empty()) return v;
    v.push_back({"/pc",   K_PARAM, ST_CHAR,  "0", "127", 0, 0, {}, PA_OFF(pc), "c"});
    v.push_back({"/puc",  K_PARAM, ST_UCHAR, "0", "127", 0, 0, {}, PA_OFF(puc), "c"});
    v.push_back({"/pint", K_PARAM, ST_INT,   "0", "127", 0, 0, {}, PA_OFF(pint), "c"});

    v.push_back({"/pi_none",  K_PARAMI, ST_INT, "", "", 0, 0, {}, PA_OFF(pi_none), "i"});
    v.push_back({"/pi_midi",  K_PARAMI, ST_INT, "0", "127", 0, 0, {}, PA_OFF(pi_midi), "i"});
    v.push_back({"/pi_sym",   K_PARAMI, ST_INT, "-64", "63", 0, 0, {}, PA_OFF(pi_sym), "i"});
    v.push_back({"/pi_neg",   K_PARAMI, ST_INT, "-5", "-1", 0, 0, {}, PA_OFF(pi_neg), "i"});
    v.push_back({"/pi_frac",  K_PARAMI, ST_INT, "-0.5", "2.25", 0, 0, {}, PA_OFF(pi_frac), "i"});
    v.push_back({"/pi_min",   K_PARAMI, ST_INT, "-3", "", 0, 0, {}, PA_OFF(pi_min), "i"});
    v.push_back({"/pi_max",   K_PARAMI, ST_INT, "", "10", 0, 0, {}, PA_OFF(pi_max), "i"});
    v.push_back({"/pi_wide",  K_PARAMI, ST_INT, "-1000", "100000", 0, 0, {}, PA_OFF(pi_wide), "i"});
    v.push_back({"/pi_short", K_PARAMI, ST_SHORT, "-1000", "1000", 0, 0, {}, PA_OFF(pi_short), "i"});
    v.push_back({"/pi_uc",    K_PARAMI, ST_UCHAR, "0", "127", 0, 0, {}, PA_OFF(pi_uc), "i"});
    v.push_back({"/pi_special", K_PARAMI, ST_INT, "0", "127", 0, 0, {}, PA_OFF(pi_special), "i"});
    v.push_back({"/pi_big24",  K_PARAMI, ST_INT, "-16777217", "33554435", 0, 0, {}, PA_OFF(pi_big24), "i"});
    v.push_back({"/pi_big31",  K_PARAMI, ST_INT, "-2000000001", "2000000001", 0, 0, {}, PA_OFF(pi_big31), "i"});
    v.push_back({"/pi_bigmax", K_PARAMI, ST_INT, "", "100000001", 0, 0, {}, PA_OFF(pi_bigmax), "i"});

    v.push_back({"/pf_none", K_PARAMF, ST_FLOAT, "", "", 0, 0, {}, PA_OFF(pf_none), "f"});
    v.push_back({"/pf_midi", K_PARAMF, ST_FLOAT, "0", "127", 0, 0, {}, PA_OFF(pf_midi), "f"});
    v.push_back({"/pf_sym",  K_PARAMF, ST_FLOAT, "-64", "63", 0, 0, {}, PA_OFF(pf_sym), "f"});
    v.push_back({"/pf_neg",  K_PARAMF, ST_FLOAT, "-5", "-1", 0, 0, {}, PA_OFF(pf_neg), "f"});
    v.push_back({"/pf_frac", K_PARAMF, ST_FLOAT, "-0.5", "2.25", 0, 0, {}, PA_OFF(pf_frac), "f"});
    v.push_back({"/pf_min",  K_PARAMF, ST_FLOAT, "-3.5", "", 0, 0, {}, PA_OFF(pf_min), "f"});
    v.push_back({"/pf_max",  K_PARAMF, ST_FLOAT, "", "10.25", 0, 0, {}, PA_OFF(pf_max), "f"});
    v.push_back({"/pf_dec",  K_PARAMF, ST_FLOAT, "0.1", "0.7", 0, 0, {}, PA_OFF(pf_dec), "f"});
    v.push_back({"/pd_frac", K_PARAMF, ST_DOUBLE, "-0.5", "2.25", 0, 0, {}, PA_OFF(pd_frac), "f"});
    v.push_back({"/pf_special", K_PARAMF, ST_FLOAT, "-0.5", "2.25", 0, 0, {}, PA_OFF(pf_special), "f"});

    v.push_back({"/t_bool", K_TOGGLE, ST_BOOL, "", "", 0, 0, {}, PA_OFF(t_bool), "TF"});
    v.push_back({"/t_int",  K_TOGGLE, ST_INT,  "", "", 0, 0, {}, PA_OFF(t_int), "TF"});

    v.push_back({"/o_plain",  K_OPTION, ST_INT,  "", "", 0, 0, opt_colours(), PA_OFF(o_plain), "icS"});
    v.push_back({"/o_bound",  K_OPTION, ST_INT,  "0", "2", 0, 0, opt_waves(), PA_OFF(o_bound), "icS"});
    v.push_back({"/o_sparse", K_OPTION, ST_INT,  "", "", 0, 0, opt_sparse(), PA_OFF(o_sparse), "icS"});
    v.push_back({"/o_enum",   K_OPTION, ST_ENUM, "0", "2", 0, 0, opt_waves(), PA_OFF(o_enum), "icS"});
    v.push_back({"/o_many",   K_OPTION, ST_INT,  "", "", 0, 0, opt_many(), PA_OFF(o_many), "icS"});
    v.push_back({"/o_neg",    K_OPTION, ST_INT,  "", "", 0, 0, opt_neg(), PA_OFF(o_neg), "icS"});
    v.push_back({"/o_defsym", K_OPTION, ST_INT,  "", "", 0, 0, opt_waves(), PA_OFF(o_defsym), "icS"});
    v.push_back({"/o_after",  K_OPTION, ST_INT,  "", "", 0, 0, opt_waves(), PA_OFF(o_after), "icS"});
    v.push_back({"/o_hi",     K_OPTION, ST_INT,  "", "", 0, 0, opt_hi(), PA_OFF(o_hi), "icS"});

    v.push_back({"/s_one",     K_STRING, ST_STR, "", "", 0, 1, {}, PA_OFF(s_one), "s"});
    v.push_back({"/s_two",     K_STRING, ST_STR, "", "", 0, 2, {}, PA_OFF(s_two), "s"});
    v.push_back({"/s_eight",   K_STRING, ST_STR, "", "", 0, 8, {}, PA_OFF(s_eight), "s"});
    v.push_back({"/s_sixteen", K_STRING, ST_STR, "", "", 0, 16, {}, PA_OFF(s_sixteen), "s"});
    v.push_back({"/s_roomy",   K_STRING, ST_STR, "", "", 0, 16, {}, PA_OFF(s_roomy), "s"});
    v.push_back({"/s_ptr",     K_STRING, ST_STR, "", "", 0, 16, {}, PA_OFF(s_ptr_store), "s"});

    v.push_back({"/aiOne",   K_ARRAYI, ST_CHAR, "", "", 1, 0, {}, PA_OFF(aiOne), "i"});
    v.push_back({"/aiTwo",   K_ARRAYI, ST_CHAR, "0", "127", 2, 0, {}, PA_OFF(aiTwo), "i"});
    v.push_back({"/aiFive",  K_ARRAYI, ST_CHAR, "-64", "63", 5, 0, {}, PA_OFF(aiFive), "i"});
    v.push_back({"/aiNeg",   K_ARRAYI, ST_CHAR, "-5", "-1", 5, 0, {}, PA_OFF(aiNeg), "i"});
    v.push_back({"/aiFrac",  K_ARRAYI, ST_CHAR, "-0.5", "2.25", 2, 0, {}, PA_OFF(aiFrac), "i"});
    v.push_back({"/aiMin",   K_ARRAYI, ST_CHAR, "-3", "", 5, 0, {}, PA_OFF(aiMin), "i"});
    v.push_back({"/aiMax",   K_ARRAYI, ST_CHAR, "", "10", 2, 0, {}, PA_OFF(aiMax), "i"});
    v.push_back({"/aiInt",   K_ARRAYI, ST_INT,  "0", "127", 5, 0, {}, PA_OFF(aiInt), "i"});
    v.push_back({"/aiDozen", K_ARRAYI, ST_CHAR, "0", "127", 12, 0, {}, PA_OFF(aiDozen), "i"});
    v.push_back({"/aiSpecial", K_ARRAYI, ST_CHAR, "0", "127", 2, 0, {}, PA_OFF(aiSpecial), "i"});

    v.push_back({"/afOne",  K_ARRAYF, ST_FLOAT, "", "", 1, 0, {}, PA_OFF(afOne), "f"});
    v.push_back({"/afTwo",  K_ARRAYF, ST_FLOAT, "-0.5", "2.25", 2, 0, {}, PA_OFF(afTwo), "f"});
    v.push_back({"/afFive", K_ARRAYF, ST_FLOAT, "-64", "63", 5, 0, {}, PA_OFF(afFive), "f"});
    v.push_back({"/afNeg",  K_ARRAYF, ST_FLOAT, "-5", "-1", 5, 0, {}, PA_OFF(afNeg), "f"});
    v.push_back({"/afMin",  K_ARRAYF, ST_FLOAT, "-3.5", "", 5, 0, {}, PA_OFF(afMin), "f"});
    v.push_back({"/afMax",  K_ARRAYF, ST_FLOAT, "", "10.25", 2, 0, {}, PA_OFF(afMax), "f"});
    v.push_back({"/afMidi", K_ARRAYF, ST_FLOAT, "0", "127", 2, 0, {}, PA_OFF(afMidi), "f"});

    v.push_back({"/atOne",  K_ARRAYT, ST_BOOL, "", "", 1, 0, {}, PA_OFF(atOne), "TF"});
    v.push_back({"/atTwo",  K_ARRAYT, ST_BOOL, "", "", 2, 0, {}, PA_OFF(atTwo), "TF"});
    v.push_back({"/atFive", K_ARRAYT, ST_BOOL, "", "", 5, 0, {}, PA_OFF(atFive), "TF"});

    v.push_back({"/aoOne",  K_ARRAYOPTION, ST_INT,  "", "", 1, 0, opt_colours(), PA_OFF(aoOne), "icS"});
    v.push_back({"/aoTwo",  K_ARRAYOPTION, ST_INT,  "0", "2", 2, 0, opt_waves(), PA_OFF(aoTwo), "icS"});
    v.push_back({"/aoFive", K_ARRAYOPTION, ST_INT,  "", "", 5, 0, opt_colours(), PA_OFF(aoFive), "icS"});
    v.push_back({"/aoEnum", K_ARRAYOPTION, ST_ENUM, "0", "2", 2, 0, opt_waves(), PA_OFF(aoEnum), "icS"});

    describe_sub(v, "/sub", PA_OFF(sub));
    describe_sub(v, "/subs0", PA_OFF(subs) + 0 * sizeof(Sub));
    describe_sub(v, "/subs1", PA_OFF(subs) + 1 * sizeof(Sub));
    return v;
}

// Initial state: guard bytes set, every field at a value inside its declared range. Call on zeroed
// memory (padding stays zero, so whole-object byte comparison is meaningful).
inline void init_sub(Sub &s)
{
    s.q = 10; s.qi = -7; s.qf = 0.75f; s.qt = false; s.qo = 1;
    memset(s.qs_pre, PA_GUARD_BYTE, 8); memset(s.qs_post, PA_GUARD_BYTE, 8); strcpy(s.qs, "init");
    memset(s.qai_pre, PA_GUARD_BYTE, 8); memset(s.qai_post, PA_GUARD_BYTE, 8);
    memset(s.qaf_pre, PA_GUARD_BYTE, 8); memset(s.qaf_post, PA_GUARD_BYTE, 8);
    memset(s.qat_pre, PA_GUARD_BYTE, 8); memset(s.qat_post, PA_GUARD_BYTE, 8);
    memset(s.qao_pre, PA_GUARD_BYTE, 8); memset(s.qao_post, PA_GUARD_BYTE, 8);
    for(int i = 0; i < 5; ++i) s.qai[i] = (char)(20 + i);
    for(int i = 0; i < 2; ++i) { s.qaf[i] = 0.25f * (i + 1); s.qat[i] = (i == 1); s.qao[i] = i; }
}

#define PA_G(a, name) do { memset((a).name##_pre, PA_GUARD_BYTE, 8); memset((a).name##_post, PA_GUARD_BYTE, 8); } while(0)
// after an App has been copied byte-wise: the pointer-backed string points into the copy again
inline void relocate(App &a) { a.s_ptr = a.s_ptr_store; }
inline void init_app(App &a)
{
    a.pc = 64; a.puc = 65; a.pint = 66;
    a.pi_none = 5; a.pi_midi = 64; a.pi_sym = -1; a.pi_neg = -3; a.pi_frac = 1; a.pi_min = 7; a.pi_max = -7; a.pi_wide = 500;
    a.pi_short = 300; a.pi_uc = 100;
    a.pf_none = 1.5f; a.pf_midi = 64.5f; a.pf_sym = -1.25f; a.pf_neg = -3.5f; a.pf_frac = 1.125f; a.pf_min = 7.5f; a.pf_max = -7.5f;
    a.pf_dec = 0.5f; a.pd_frac = 1.125;
    a.t_bool = false; a.t_int = 1;
    a.o_plain = 1; a.o_bound = 1; a.o_sparse = 4; a.o_enum = W_SAW; a.o_many = 3; a.o_neg = 3; a.o_defsym = 2; a.o_after = 0; a.o_hi = 128;
    PA_G(a, s_ptr_store); memset(a.s_ptr_store, '~', sizeof a.s_ptr_store); strcpy(a.s_ptr_store, "pointed"); a.s_ptr = a.s_ptr_store;
    PA_G(a, aiSpecial); a.aiSpecial[0] = 7; a.aiSpecial[1] = 8; a.pi_special = 5; a.pf_special = 1.0f; a.pi_big24 = 12; a.pi_big31 = -9; a.pi_bigmax = 77;
    PA_G(a, s_one); PA_G(a, s_two); PA_G(a, s_eight); PA_G(a, s_sixteen); PA_G(a, s_roomy);
    a.s_one[0] = 0; strcpy(a.s_two, "i"); strcpy(a.s_eight, "init"); strcpy(a.s_sixteen, "initial value"); memset(a.s_roomy, '~', sizeof a.s_roomy); strcpy(a.s_roomy, "roomy");
    PA_G(a, aiOne); PA_G(a, aiTwo); PA_G(a, aiFive); PA_G(a, aiNeg); PA_G(a, aiFrac); PA_G(a, aiMin); PA_G(a, aiMax); PA_G(a, aiInt); PA_G(a, aiDozen);
    a.aiOne[0] = 3;
    for(int i = 0; i < 2; ++i) { a.aiTwo[i] = (char)(30 + i); a.aiFrac[i] = (char)(i + 1); a.aiMax[i] = (char)(-20 + i); }
    for(int i = 0; i < 5; ++i) { a.aiFive[i] = (char)(-2 + i); a.aiNeg[i] = (char)(-5 + i); a.aiMin[i] = (char)(40 + i); a.aiInt[i] = 50 + i; }
    for(int i = 0; i < 12; ++i) a.aiDozen[i] = (char)(60 + i);
    PA_G(a, afOne); PA_G(a, afTwo); PA_G(a, afFive); PA_G(a, afNeg); PA_G(a, afMin); PA_G(a, afMax); PA_G(a, afMidi);
    a.afOne[0] = 3.5f;
    for(int i = 0; i < 2; ++i) { a.afTwo[i] = 0.5f + i; a.afMax[i] = -20.5f + i; a.afMidi[i] = 30.25f + i; }
    for(int i = 0; i < 5; ++i) { a.afFive[i] = -2.5f + i; a.afNeg[i] = -4.75f + 0.5f * i; a.afMin[i] = 40.5f + i; }
    PA_G(a, atOne); PA_G(a, atTwo); PA_G(a, atFive);
    a.atOne[0] = true;
    for(int i = 0; i < 2; ++i) a.atTwo[i] = (i == 0);
    for(int i = 0; i < 5; ++i) a.atFive[i] = (i % 2 == 1);
    PA_G(a, aoOne); PA_G(a, aoTwo); PA_G(a, aoFive); PA_G(a, aoEnum);
    a.aoOne[0] = 2;
    for(int i = 0; i < 2; ++i) { a.aoTwo[i] = 1 + i; a.aoEnum[i] = i ? W_SQUARE : W_SINE; }
    for(int i = 0; i < 5; ++i) a.aoFive[i] = i % 4;
    init_sub(a.sub); init_sub(a.subs[0]); init_sub(a.subs[1]);
    a.subs[1].qi = 11; a.subs[1].q = 99;   // the three nested objects are not identical
}

} // namespace papp
