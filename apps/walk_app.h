// Compile-time application for the runtime half of C09, built with the library's own macros:
// rRecur, rRecurp, rRecurs, rRecursp, rSelf + rEnabledBy, rRecur/rRecurp + rEnabledBy, rEnabledCondition.
// 8 binary switches (pointers null/non-null, enabling toggles) -> 256 runtime states.
#pragma once
#include <rtosc/ports.h>
#include <rtosc/port-sugar.h>

namespace walkapp {

struct Leaf {
    int x = 0; bool t = false;
    static const rtosc::Ports ports;
};
#define rObject Leaf
const rtosc::Ports Leaf::ports = {
    rParamI(x, rLinear(-8, 8), rDefault(0), "leaf value"),
    rToggle(t, rDefault(false), "leaf toggle"),
};
#undef rObject

struct SelfT {
    bool on = false; int y = 0;
    static const rtosc::Ports ports;
};
#define rObject SelfT
const rtosc::Ports SelfT::ports = {
    rSelf(SelfT, rEnabledBy(on)),
    rToggle(on, rDefault(false), "enables this table"),
    rParamI(y, rDefault(0), "value"),
};
#undef rObject

struct Root {
    Leaf a;             // rRecur
    Leaf v[2];          // rRecurs
    Leaf *p = nullptr;  // rRecurp
    Leaf *pp[2] = {nullptr, nullptr}; // rRecursp
    bool e_on = false; Leaf e;        // rRecur + rEnabledBy
    bool q_on = false; Leaf *q = nullptr; // rRecurp + rEnabledBy
    SelfT s;            // rRecur of a table enabled through its rSelf
    bool c_val = false; Leaf f;       // rRecur + rEnabledByCondition
    Leaf store[4];
    static const rtosc::Ports ports;
};
#define rObject Root
const rtosc::Ports Root::ports = {
    rRecur(a, "always there"),
    rRecurs(v, 2, "vector"),
    rRecurp(p, "pointer, may be null"),
    rRecursp(pp, 2, "vector of pointers, each may be null"),
    rToggle(e_on, rDefault(false), "enables e"),
    rRecur(e, rEnabledBy(e_on), "enabled by a sibling toggle"),
    rToggle(q_on, rDefault(false), "enables q"),
    rRecurp(q, rEnabledBy(q_on), "pointer, may be null, enabled by a sibling toggle"),
    rRecur(s, "table enabled through its rSelf"),
    rEnabledCondition(cond, obj->c_val),
    rRecur(f, rEnabledByCondition(cond), "enabled by a condition port"),
};
#undef rObject

// state bit k of `bits`: 0 p, 1 pp0, 2 pp1, 3 e_on, 4 q, 5 q_on, 6 s.on, 7 c_val
inline void set_state(Root &r, unsigned bits)
{
    r.p = (bits & 1) ? &r.store[0] : nullptr;
    r.pp[0] = (bits & 2) ? &r.store[1] : nullptr;
    r.pp[1] = (bits & 4) ? &r.store[2] : nullptr;
    r.e_on = bits & 8;
    r.q = (bits & 16) ? &r.store[3] : nullptr;
    r.q_on = bits & 32;
    r.s.on = bits & 64;
    r.c_val = bits & 128;
}

// ---- long addresses: a chain port whose name is chosen at run time (any length), above an array of 16 pointers and an array
// of 12 objects
struct Cell {
    int x = 0;
    static const rtosc::Ports ports;
};
#define rObject Cell
const rtosc::Ports Cell::ports = {
    rParamI(x, rLinear(-8, 8), rDefault(0), "cell value"),
};
#undef rObject

struct Rack {
    Cell *cells[16];
    Leaf v[12];
    Cell pool[16];
    static const rtosc::Ports ports;
};
#define rObject Rack
const rtosc::Ports Rack::ports = {
    rRecursp(cells, 16, "cells, each may be null"),
    rRecurs(v, 12, "vector"),
};
#undef rObject

struct LongRoot { Rack rack; };
#define rObject LongRoot
inline rtosc::Ports *make_long_ports(const char *chain_name)
{
    return new rtosc::Ports({{chain_name, rDoc("chain"), &Rack::ports, rRecurCb(rack)}});
}
#undef rObject

} // namespace walkapp
