// Generated port trees with recording callbacks (C04, C09, C03). A Node describes one Ports table;
// build() turns it into real rtosc::Ports whose callbacks record what they were given. Sub-tree
// callbacks do exactly what the library's rRecurCb does (set d.obj, SNIP one component, dispatch child).
#pragma once
#include <cstring>
#include <memory>
#include <string>
#include <vector>
#include <rtosc/ports.h>
#include "refmatch.h"

namespace gt {

struct Node;
struct PortDesc {
    std::string name;                 // pattern, e.g. "ab", "x#3", "s/", "a#2/b::i"
    std::shared_ptr<Node> child;      // non-null: sub-tree port
    int id = -1;                      // unique id within the tree (assigned by build)
    refmatch::Pattern pat;            // split name (filled by build)
};
struct Node {
    std::vector<PortDesc> ports;
    bool default_handler = false;
    bool fat_callbacks = false;       // leaf callbacks capture 40 bytes: their closure does not fit std::function's in-place storage
    int id = -1;
    char obj_tag = 0;                 // &obj_tag is the runtime object handed to this table's callbacks
    std::unique_ptr<rtosc::Ports> built;
};

struct Rec { int kind; int port_id; long msg_off; void *obj; const rtosc::Port *port; std::string loc; bool has_loc; };
enum { LEAF = 0, SUBTREE = 1, DEFAULT = 2 };

struct Recorder {
    std::vector<Rec> rec;
    const char *msg_base = nullptr;
    bool record = true;               // false: callbacks do nothing but recurse (C03: no allocation inside RT section)
    unsigned long calls = 0;
};
inline Recorder &R() { static Recorder r; return r; }

struct GenPorts : rtosc::Ports {
    GenPorts(std::vector<rtosc::Port> v, std::function<void(rtosc::msg_t, rtosc::RtData &)> dh = nullptr) : rtosc::Ports({})
    {
        ports = std::move(v);
        if(dh) default_handler = dh;
        refreshMagic();
    }
};

inline void note(int kind, int id, const char *m, rtosc::RtData &d)
{
    Recorder &r = R();
    ++r.calls;
    if(!r.record) return;
    r.rec.push_back(Rec{kind, id, (long)(m - r.msg_base), d.obj, d.port, d.loc ? std::string(d.loc) : std::string(), d.loc != nullptr});
}

// builds the real tables bottom-up; `names` keeps the C strings alive
inline void build(Node &n, int &next_port, int &next_node)
{
    n.id = next_node++;
    std::vector<rtosc::Port> v;
    for(auto &p : n.ports) {
        p.id = next_port++;
        p.pat = refmatch::split(p.name);
        int id = p.id;
        if(p.child) {
            build(*p.child, next_port, next_node);
            Node *ch = p.child.get();
            int comps = 0; for(char c : p.pat.path) if(c == '/') ++comps;   // a name like "u#3/v#2/c/" spans 3 components
            v.push_back(rtosc::Port{p.name.c_str(), "", ch->built.get(),
                [id, ch, comps](const char *msg, rtosc::RtData &d) {
                    note(SUBTREE, id, msg, d);
                    d.obj = &ch->obj_tag;
                    for(int k = 0; k < comps; ++k) {
                        while(*msg && *msg != '/') ++msg;      // SNIP, as in port-sugar.h
                        msg = *msg ? msg + 1 : msg;
                    }
                    ch->built->dispatch(msg, d);
                }});
        } else {
            if(n.fat_callbacks) {
                struct Fat { int id; char pad[36]; } fat; memset(&fat, 0, sizeof fat); fat.id = id;
                v.push_back(rtosc::Port{p.name.c_str(), "", nullptr, [fat](const char *msg, rtosc::RtData &d) { note(LEAF, fat.id + fat.pad[7], msg, d); }});
            } else
            v.push_back(rtosc::Port{p.name.c_str(), "", nullptr, [id](const char *msg, rtosc::RtData &d) { note(LEAF, id, msg, d); }});
        }
    }
    int nid = n.id;
    if(n.default_handler && n.fat_callbacks) {
        struct Fat { int id; char pad[36]; } fat; memset(&fat, 0, sizeof fat); fat.id = nid;
        n.built.reset(new GenPorts(v, [fat](const char *msg, rtosc::RtData &d) { note(DEFAULT, fat.id + fat.pad[5], msg, d); }));
    }
    else if(n.default_handler) n.built.reset(new GenPorts(v, [nid](const char *msg, rtosc::RtData &d) { note(DEFAULT, nid, msg, d); }));
    else n.built.reset(new GenPorts(v));
}

struct Exp { int kind; int port_id; void *obj; std::string loc; bool optional; };

// reference: which callbacks must run for relative address `addr` with type string `types`
inline void expect(Node &n, const std::string &addr, const std::string &types, const std::string &loc_prefix, std::vector<Exp> &out, bool optional_above = false)
{
    for(auto &p : n.ports) {
        refmatch::Verdict v = refmatch::verdict(p.pat, addr, types);
        if(v == refmatch::MUST_NOT) continue;
        const bool opt = optional_above || v == refmatch::DONT_CARE;   // below a don't-care sub-tree everything is don't care
        if(!p.child) { out.push_back(Exp{LEAF, p.id, &n.obj_tag, loc_prefix + addr, opt}); continue; }
        out.push_back(Exp{SUBTREE, p.id, &n.obj_tag, "", opt});
        int comps = 0; for(char c : p.pat.path) if(c == '/') ++comps;
        size_t sl = std::string::npos, from = 0;
        for(int k = 0; k < comps; ++k) { sl = addr.find('/', from); if(sl == std::string::npos) break; from = sl + 1; }
        std::string rest = sl == std::string::npos ? std::string() : addr.substr(sl + 1);
        std::string pre = loc_prefix + (sl == std::string::npos ? addr : addr.substr(0, sl + 1));
        expect(*p.child, rest, types, pre, out, opt);
    }
}

} // namespace gt
