// Shared machinery of C12 and C13: explicit-state breadth-first enumeration of application states reached by
// parameter messages (replayed on fresh REAL objects through Ports::dispatch), savefile text handling.
//
// The search is done inside every shard (it only costs dispatches and canons); the per-state work - saves,
// loads, permutations - is split with vp::mine(state index). State indices are assigned in discovery order,
// which is deterministic, so all shards see the same numbering.
#pragma once
#include <algorithm>
#include <set>
#include <unordered_set>
#include <rtosc/savefile.h>
#include <rtosc/rtosc-version.h>
#include "common.h"
#include "save_apps.h"

namespace sv {

typedef std::vector<uint16_t> Hist;   // codes: 0..n_ops-1 = alphabet; a history may start with one root code 60000+r

static const uint16_t ROOT0 = 60000;
static const rtosc_version APPVER = {1, 2, 3};
inline std::string appname(const char *app) { return std::string("vp_") + app; }

struct H128 { uint64_t a, b; bool operator==(const H128 &o) const { return a == o.a && b == o.b; } };
struct H128hash { size_t operator()(const H128 &h) const { return (size_t)(h.a ^ (h.b * 0x9e3779b97f4a7c15ULL)); } };
inline H128 h128(const std::string &s) { return H128{vp::fnv(s), vp::fnv(s, 0x84222325cbf29ce4ULL) ^ (uint64_t)s.size()}; }

// deliver one parameter message the way savefile_dispatcher_t::do_dispatch does; returns the number of matches
template <class App> int send(App &inst, const sapp::Op &op)
{
    char msg[256];
    char types[2] = {op.type, 0};
    rtosc_arg_t a; memset(&a, 0, sizeof a);
    switch(op.type) {
    case 'c': case 'i': a.i = op.i; break;
    case 'f': a.f = op.f; break;
    case 'S': case 's': a.s = op.s.c_str(); break;
    default: break;
    }
    size_t n = rtosc_amessage(msg, sizeof msg, op.path.c_str(), types, &a);
    if(!n) { fprintf(stderr, "HARNESS: message does not fit: %s\n", op.show().c_str()); exit(3); }
    char loc[1024]; loc[0] = 0;
    rtosc::RtData d;
    d.obj = &inst; d.loc = loc; d.loc_size = sizeof loc;
    App::ports.dispatch(msg, d, true);
    return d.matches;
}

template <class App> struct Space {
    std::vector<sapp::Op> ops;
    std::vector<std::vector<sapp::Op>> roots;
    std::vector<sapp::Param<App>> desc;
    std::vector<Hist> states;          // discovery order
    std::vector<int> depth_of;
    int max_depth = 0;

    Space(bool thorough) : ops(sapp::alphabet((App *)nullptr, thorough)), roots(sapp::roots((App *)nullptr)), desc(sapp::describe((App *)nullptr)) {}

    void apply(App &inst, uint16_t code) const
    {
        if(code >= ROOT0) { for(auto &o : roots[code - ROOT0]) send(inst, o); }
        else send(inst, ops[code]);
    }
    void replay(App &inst, const Hist &h) const { for(uint16_t c : h) apply(inst, c); }

    static std::string hist_id(const Hist &h) { std::string s = "h"; for(uint16_t c : h) s += ":" + std::to_string(c); return s; }
    static bool parse_hist(const std::string &s, Hist &h)
    {
        if(s.empty() || s[0] != 'h') return false;
        h.clear();
        size_t p = 1;
        while(p < s.size()) { if(s[p] != ':') return false; ++p; size_t q = p; while(q < s.size() && isdigit((unsigned char)s[q])) ++q; if(q == p) return false; h.push_back((uint16_t)atoi(s.substr(p, q - p).c_str())); p = q; }
        return true;
    }
    std::string show(const Hist &h) const
    {
        std::string s;
        for(uint16_t c : h) {
            if(!s.empty()) s += " ; ";
            if(c >= ROOT0) { s += "root" + std::to_string(c - ROOT0) + "("; for(size_t i = 0; i < roots[c - ROOT0].size(); ++i) s += (i ? ", " : "") + roots[c - ROOT0][i].show(); s += ")"; }
            else s += ops[c].show();
        }
        return s.empty() ? "(initial)" : s;
    }

    // BFS: histories over the alphabet up to `depth` from the default instance and up to `root_depth` from every root state
    void explore(int depth, int root_depth)
    {
        std::unordered_set<H128, H128hash> seen;
        std::vector<size_t> frontier;
        auto add = [&](const Hist &h, int d) {
            App inst; replay(inst, h);
            if(seen.insert(h128(inst.canon())).second) { states.push_back(h); depth_of.push_back(d); frontier.push_back(states.size() - 1); return true; }
            return false;
        };
        // every op must be accepted by some port from the default state or from a root (alphabet sanity; a rejected
        // message is a legal no-op in other states, e.g. /p/x while p is null)
        {
            std::vector<bool> accepted(ops.size(), false);
            for(size_t r = 0; r <= roots.size(); ++r) {
                for(size_t k = 0; k < ops.size(); ++k) {
                    App inst; if(r) for(auto &o : roots[r - 1]) send(inst, o);
                    if(send(inst, ops[k]) > 0) accepted[k] = true;
                }
                if(r) { App inst; for(auto &o : roots[r - 1]) if(send(inst, o) <= 0) { fprintf(stderr, "HARNESS: root message not accepted: %s\n", o.show().c_str()); exit(3); } }
            }
            for(size_t k = 0; k < ops.size(); ++k) if(!accepted[k]) { fprintf(stderr, "HARNESS: alphabet message never accepted: %s\n", ops[k].show().c_str()); exit(3); }
        }
        add(Hist(), 0);
        for(size_t r = 0; r < roots.size(); ++r) add(Hist{(uint16_t)(ROOT0 + r)}, 0);
        int md = std::max(depth, root_depth);
        for(int d = 0; d < md; ++d) {
            std::vector<size_t> cur; cur.swap(frontier);
            for(size_t si : cur) {
                Hist base = states[si];
                bool rooted = !base.empty() && base[0] >= ROOT0;
                if(d >= (rooted ? root_depth : depth)) continue;
                for(size_t k = 0; k < ops.size(); ++k) {
                    Hist h = base; h.push_back((uint16_t)k);
                    add(h, d + 1);
                }
            }
            max_depth = d + 1;
        }
    }
};

// ---------------------------------------------------------------------------------------------------
// savefile text: header (two lines) + message lines. A message starts at a line that begins with '/';
// a following line that begins with white space continues it (wrapped argument lists, "..."\ string
// continuations, doc/Guide.adoc:419-425).
struct File {
    bool header_ok = false;
    std::string why;
    std::string header;               // the two header lines including their newlines
    std::vector<std::string> msgs;    // message texts without trailing newline
    std::vector<std::string> paths;   // address of each message
};

inline std::string expected_header(const char *app)
{
    char rv[12], av[12];
    rtosc_version cur = rtosc_current_version();
    rtosc_version_print_to_12byte_str(&cur, rv);
    rtosc_version_print_to_12byte_str(&APPVER, av);
    return std::string("% RT OSC v") + rv + " savefile\n% " + appname(app) + " v" + av + "\n";
}

inline File parse_file(const std::string &text, const char *app)
{
    File f;
    std::string eh = expected_header(app);
    if(text.compare(0, eh.size(), eh) != 0) { f.why = "header is not the two documented lines"; return f; }
    f.header_ok = true;
    f.header = eh;
    size_t p = eh.size();
    while(p < text.size()) {
        size_t e = text.find('\n', p);
        std::string line = text.substr(p, e == std::string::npos ? std::string::npos : e - p);
        p = e == std::string::npos ? text.size() : e + 1;
        if(line.empty()) { f.header_ok = false; f.why = "empty line in the message part"; return f; }
        if(line[0] == '/') f.msgs.push_back(line);
        else if((line[0] == ' ' || line[0] == '\t') && !f.msgs.empty()) f.msgs.back() += "\n" + line;
        else { f.header_ok = false; f.why = "line is neither a message nor a continuation: " + vp::show(line); return f; }
    }
    for(auto &m : f.msgs) { size_t sp = m.find_first_of(" \t\n"); f.paths.push_back(m.substr(0, sp)); }
    return f;
}

inline std::string join(const std::string &header, const std::vector<std::string> &msgs)
{
    std::string s = header;
    for(size_t i = 0; i < msgs.size(); ++i) { s += msgs[i]; if(i + 1 < msgs.size()) s += "\n"; }
    return s;
}

template <class App> std::string save(App &inst)
{
    std::set<std::string> written;
    return rtosc::save_to_file(App::ports, &inst, appname(App::name()).c_str(), APPVER, written, {});
}
template <class App> int load(App &inst, const std::string &text)
{
    return rtosc::load_from_file(text.c_str(), App::ports, &inst, appname(App::name()).c_str(), APPVER);
}

} // namespace sv
