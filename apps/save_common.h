// Shared machinery of C12 and C13: explicit-state breadth-first enumeration of application states reached by
// parameter messages (replayed on fresh REAL objects through Ports::dispatch), savefile text handling.
//
// The search is done inside every shard (it only costs dispatches and canons); the per-state work - saves,
// loads, permutations - is split with vp::mine(state index). State indices are assigned in discovery order,
// which is deterministic, so all shards see the same numbering.
#pragma once
#include <algorithm>
#include <set>
#include <unordered_set>
#include <signal.h>
#include <sys/mman.h>
#include <sys/wait.h>
#include <unistd.h>
#include <rtosc/savefile.h>
#include <rtosc/rtosc-version.h>
#include "common.h"
#include "save_apps.h"

namespace sv {

typedef std::vector<uint16_t> Hist;   // codes: 0..n_ops-1 = alphabet; a history may start with one root code 60000+r

static const uint16_t ROOT0 = 20000;
static const rtosc_version APPVER = {1, 2, 3};
inline std::string appname(const char *app) { return std::string("vp_") + app; }

struct H128 { uint64_t a, b; bool operator==(const H128 &o) const { return a == o.a && b == o.b; } };
struct H128hash { size_t operator()(const H128 &h) const { return (size_t)(h.a ^ (h.b * 0x9e3779b97f4a7c15ULL)); } };
inline H128 h128(const std::string &s) { return H128{vp::fnv(s), vp::fnv(s, 0x84222325cbf29ce4ULL) ^ (uint64_t)s.size()}; }

// deliver one parameter message the way savefile_dispatcher_t::do_dispatch does; returns the number of matches
template <class App> int send(App &inst, const sapp::Op &op)
{
    char msg[512];
    char types[2] = {op.type, 0};
    rtosc_arg_t a; memset(&a, 0, sizeof a);
    switch(op.type) {
    case 'c': case 'i': a.i = op.i; break;
    case 'f': a.f = op.f; break;
    case 'S': case 's': a.s = op.s.c_str(); break;
    default: break;
    }
    size_t n = rtosc_amessage(msg, sizeof msg, op.path.c_str(), types, &a);
    if(!n) { fprintf(stderr, "HARNESS: message does not fit: %s\n", op.show().c_str()); exit(3); }
    char loc[1024]; loc[0] = 0;
    rtosc::RtData d;
    d.obj = &inst; d.loc = loc; d.loc_size = sizeof loc;
    App::ports.dispatch(msg, d, true);
    return d.matches;
}

template <class App> struct Space {
    std::vector<sapp::Op> ops;
    std::vector<std::vector<sapp::Op>> roots;
    std::vector<sapp::Param<App>> desc;
    std::vector<Hist> states;          // discovery order
    std::vector<int> depth_of;
    int max_depth = 0;

    Space(bool thorough) : ops(sapp::alphabet((App *)nullptr, thorough)), roots(sapp::roots((App *)nullptr)), desc(sapp::describe((App *)nullptr)) {}

    void apply(App &inst, uint16_t code) const
    {
        if(code >= ROOT0) { for(auto &o : roots[code - ROOT0]) send(inst, o); }
        else send(inst, ops[code]);
    }
    void replay(App &inst, const Hist &h) const { for(uint16_t c : h) apply(inst, c); }

    static std::string hist_id(const Hist &h) { std::string s = "h"; for(uint16_t c : h) s += ":" + std::to_string(c); return s; }
    static bool parse_hist(const std::string &s, Hist &h)
    {
        if(s.empty() || s[0] != 'h') return false;
        h.clear();
        size_t p = 1;
        while(p < s.size()) { if(s[p] != ':') return false; ++p; size_t q = p; while(q < s.size() && isdigit((unsigned char)s[q])) ++q; if(q == p) return false; h.push_back((uint16_t)atoi(s.substr(p, q - p).c_str())); p = q; }
        return true;
    }
    std::string show(const Hist &h) const
    {
        std::string s;
        for(uint16_t c : h) {
            if(!s.empty()) s += " ; ";
            if(c >= ROOT0) { s += "root" + std::to_string(c - ROOT0) + "("; for(size_t i = 0; i < roots[c - ROOT0].size(); ++i) s += (i ? ", " : "") + roots[c - ROOT0][i].show(); s += ")"; }
            else s += ops[c].show();
        }
        return s.empty() ? "(initial)" : s;
    }

    // BFS: histories over the alphabet up to `depth` from the default instance and up to `root_depth` from every root state.
    // A frontier state is kept as a snapshot (copy of the object); expanding it costs one dispatch and one binary canon per
    // message. Trust checks: (i) every newly found state must also be new by its readable canon() and the number of distinct
    // readable canons equals the number of states; (ii) a deterministic 1/64 of the merged successors is re-checked by its
    // readable canon (must be known); (iii) when a state is later rebuilt by replaying its history on a fresh object
    // (verify()), the canon must be the recorded one - otherwise exit 3, never a VIOLATION.
    std::vector<H128> hash_of;
    static H128 bin_hash(const App &inst) { sapp::Bin b; inst.canon_bin(b); return h128(b.b); }
    void verify(const App &inst, size_t state_index) const
    {
        if(!(bin_hash(inst) == hash_of[state_index])) {
            fprintf(stderr, "NONDETERMINISM: replaying the history of state %zu (%s) does not give the canon found by the search\n", state_index, show(states[state_index]).c_str());
            exit(3);
        }
    }
    void explore(int depth, int root_depth)
    {
        std::unordered_set<H128, H128hash> seen, seen_readable;
        std::vector<size_t> frontier;
        std::vector<App> snap;
        uint64_t merged = 0;
        auto add = [&](const App &inst, const Hist &h, int d) {
            H128 c = bin_hash(inst);
            if(!seen.insert(c).second) {
                if((++merged & 63) == 0 && !seen_readable.count(h128(inst.canon()))) { fprintf(stderr, "CANON-INADEQUATE: binary canon merges states with different readable canons: %s\n", show(h).c_str()); exit(3); }
                return false;
            }
            if(!seen_readable.insert(h128(inst.canon())).second) { fprintf(stderr, "CANON-INADEQUATE: binary canon splits one readable canon: %s\n", show(h).c_str()); exit(3); }
            states.push_back(h); depth_of.push_back(d); hash_of.push_back(c);
            frontier.push_back(states.size() - 1); snap.push_back(inst);
            return true;
        };
        // every op must be accepted by some port from the default state or from a root (alphabet sanity; a rejected
        // message is a legal no-op in other states, e.g. /p/x while p is null)
        {
            std::vector<bool> accepted(ops.size(), false);
            for(size_t r = 0; r <= roots.size(); ++r) {
                for(size_t k = 0; k < ops.size(); ++k) {
                    App inst; if(r) for(auto &o : roots[r - 1]) send(inst, o);
                    if(send(inst, ops[k]) > 0) accepted[k] = true;
                }
                if(r) { App inst; for(auto &o : roots[r - 1]) if(send(inst, o) <= 0) { fprintf(stderr, "HARNESS: root message not accepted: %s\n", o.show().c_str()); exit(3); } }
            }
            for(size_t k = 0; k < ops.size(); ++k) if(!accepted[k]) { fprintf(stderr, "HARNESS: alphabet message never accepted: %s\n", ops[k].show().c_str()); exit(3); }
        }
        { App inst; add(inst, Hist(), 0); }
        for(size_t r = 0; r < roots.size(); ++r) { App inst; Hist h{(uint16_t)(ROOT0 + r)}; replay(inst, h); add(inst, h, 0); }
        int md = std::max(depth, root_depth);
        for(int d = 0; d < md; ++d) {
            std::vector<size_t> cur; cur.swap(frontier);
            std::vector<App> cur_snap; cur_snap.swap(snap);
            for(size_t j = 0; j < cur.size(); ++j) {
                Hist base = states[cur[j]];
                bool rooted = !base.empty() && base[0] >= ROOT0;
                if(d >= (rooted ? root_depth : depth)) continue;
                for(size_t k = 0; k < ops.size(); ++k) {
                    App t(cur_snap[j]);
                    send(t, ops[k]);
                    Hist h = base; h.push_back((uint16_t)k);
                    add(t, h, d + 1);
                }
            }
            max_depth = d + 1;
        }
        if(seen_readable.size() != states.size()) { fprintf(stderr, "CANON-INADEQUATE: %zu readable canons for %zu states\n", seen_readable.size(), states.size()); exit(3); }
        fprintf(stderr, "explore %s: %zu states, %.2f s since start\n", App::name(), states.size(), vp::elapsed());
    }
};

// ---------------------------------------------------------------------------------------------------
// savefile text: header (two lines) + message lines. A message starts at a line that begins with '/';
// a following line that begins with white space continues it (wrapped argument lists, "..."\ string
// continuations, doc/Guide.adoc:419-425).
struct File {
    bool header_ok = false;
    std::string why;
    std::string header;               // the two header lines including their newlines
    std::vector<std::string> msgs;    // message texts without trailing newline
    std::vector<std::string> paths;   // address of each message
};

inline std::string expected_header(const char *app)
{
    char rv[12], av[12];
    rtosc_version cur = rtosc_current_version();
    rtosc_version_print_to_12byte_str(&cur, rv);
    rtosc_version_print_to_12byte_str(&APPVER, av);
    return std::string("% RT OSC v") + rv + " savefile\n% " + appname(app) + " v" + av + "\n";
}

inline File parse_file(const std::string &text, const char *app)
{
    File f;
    std::string eh = expected_header(app);
    if(text.compare(0, eh.size(), eh) != 0) { f.why = "header is not the two documented lines"; return f; }
    f.header_ok = true;
    f.header = eh;
    size_t p = eh.size();
    while(p < text.size()) {
        size_t e = text.find('\n', p);
        std::string line = text.substr(p, e == std::string::npos ? std::string::npos : e - p);
        p = e == std::string::npos ? text.size() : e + 1;
        if(line.empty()) { f.header_ok = false; f.why = "empty line in the message part"; return f; }
        if(line[0] == '/') f.msgs.push_back(line);
        else if((line[0] == ' ' || line[0] == '\t') && !f.msgs.empty()) f.msgs.back() += "\n" + line;
        else { f.header_ok = false; f.why = "line is neither a message nor a continuation: " + vp::show(line); return f; }
    }
    for(auto &m : f.msgs) { size_t sp = m.find_first_of(" \t\n"); f.paths.push_back(m.substr(0, sp)); }
    return f;
}

// class of spelling of one message line, used to narrow signatures (not an oracle)
inline std::string line_shape(const std::string &msg)
{
    size_t sp = msg.find(' ');
    std::string v = sp == std::string::npos ? "" : msg.substr(sp + 1);
    if(v == "'") return ":char-literal-cut-short";
    if(!v.empty() && v[0] == '[') {
        bool sym = false, num = false, start = true;
        for(size_t i = 1; i < v.size(); ++i) {
            char c = v[i];
            if(c == ' ' || c == '\n' || c == ']') { start = true; continue; }
            if(start) { if(isalpha((unsigned char)c) || c == '_') sym = true; else if(isdigit((unsigned char)c) || c == '-') num = true; start = false; }
        }
        if(sym && num) return ":array-of-symbols-and-numbers";
    }
    return "";
}

inline std::string join(const std::string &header, const std::vector<std::string> &msgs)
{
    std::string s = header;
    for(size_t i = 0; i < msgs.size(); ++i) { s += msgs[i]; if(i + 1 < msgs.size()) s += "\n"; }
    return s;
}

template <class App> std::string save(App &inst)
{
    std::set<std::string> written;
    return rtosc::save_to_file(App::ports, &inst, appname(App::name()).c_str(), APPVER, written, {});
}
template <class App> int load(App &inst, const std::string &text)
{
    return rtosc::load_from_file(text.c_str(), App::ports, &inst, appname(App::name()).c_str(), APPVER);
}


// ---------------------------------------------------------------------------------------------------
// Crash isolation. The per-state work runs in a forked worker; before every call into the library the
// worker notes case id, phase and file text in shared memory. When the worker dies (sanitizer abort, signal,
// alarm = no progress for 60 s) the supervisor turns that into a violation with the noted case id and
// continues behind the crashing state with a new worker. Workers write their counters as additional shard
// result files (<out>_<tag>_w<n>.json), which run.py sums like those of the bfs engine.
struct Mark {
    volatile uint64_t cursor;      // index into the todo list the worker is at
    volatile int capped;           // worker stopped on the deadline
    char case_id[700];
    char phase[64];
    uint32_t text_len;
    char text[65536];
};
inline Mark *&mark_ptr() { static Mark *m = nullptr; return m; }
inline void mark(const std::string &case_id, const char *phase, const std::string &text)
{
    Mark *m = mark_ptr();
    vp::current_case() = case_id;
    if(!m) return;
    snprintf(m->case_id, sizeof m->case_id, "%s", case_id.c_str());
    snprintf(m->phase, sizeof m->phase, "%s", phase);
    m->text_len = (uint32_t)std::min(text.size(), sizeof m->text - 1);
    memcpy(m->text, text.data(), m->text_len); m->text[m->text_len] = 0;
    alarm(60);
}
// run fn() in a forked child; true if it exited normally with status 0
template <class Fn> bool survives(Fn fn)
{
    fflush(nullptr);
    pid_t pid = fork();
    if(pid < 0) { perror("fork"); exit(3); }
    if(pid == 0) { alarm(60); fn(); _exit(0); }
    int st = 0; waitpid(pid, &st, 0);
    return WIFEXITED(st) && WEXITSTATUS(st) == 0;
}
#if defined(__SANITIZE_ADDRESS__)
extern "C" void __sanitizer_set_death_callback(void (*callback)(void));
#endif
// a dying worker still writes the counters and violations it has collected so far
inline void worker_last_words() { static bool once = false; if(once) return; once = true; vp::finish(); fflush(nullptr); }
inline void worker_alarm(int) { fprintf(stderr, "CASE: %s\nno progress for 60 s\n", vp::current_case().c_str()); worker_last_words(); _exit(78); }
inline std::string how_died(int st)
{
    if(WIFSIGNALED(st)) return "killed by signal " + std::to_string(WTERMSIG(st));
    if(WEXITSTATUS(st) == 78) return "no progress for 60 s";
    return "aborted with exit status " + std::to_string(WEXITSTATUS(st)) + " (sanitizer report in the shard log)";
}

// todo: number of items; work(k): executed in a worker; crashed(k, mark, how): executed in the supervisor
template <class Work, class Crashed> void supervise(const std::string &tag, size_t todo, Work work, Crashed crashed)
{
    vp::Ctx &C = vp::ctx();
    if(!mark_ptr()) {
        void *p = mmap(nullptr, sizeof(Mark), PROT_READ | PROT_WRITE, MAP_SHARED | MAP_ANONYMOUS, -1, 0);
        if(p == MAP_FAILED) { perror("mmap"); exit(3); }
        mark_ptr() = (Mark *)p;
    }
    Mark *m = mark_ptr();
    std::string base = C.out.empty() ? std::string("save") : C.out.substr(0, C.out.size() > 5 ? C.out.size() - 5 : C.out.size());
    size_t pos = 0;
    int gen = 0;
    while(pos < todo) {
        m->cursor = pos; m->capped = 0; m->case_id[0] = 0; m->phase[0] = 0; m->text_len = 0;
        fflush(nullptr);
        pid_t pid = fork();
        if(pid < 0) { perror("fork"); exit(3); }
        if(pid == 0) {
            vp::Ctx keep = C;
            C = vp::Ctx();
            C.id = keep.id; C.thorough = keep.thorough; C.shard = keep.shard; C.nshards = keep.nshards; C.deadline_s = keep.deadline_s; C.t0 = keep.t0;
            C.replay = keep.replay; C.replay_mode = keep.replay_mode;
            C.out = base + "_" + tag + "_w" + std::to_string(gen) + ".json";
#if defined(__SANITIZE_ADDRESS__)
            __sanitizer_set_death_callback(worker_last_words);
#endif
            signal(SIGALRM, worker_alarm);
            size_t k = pos;
            for(; k < todo; ++k) {
                if(vp::deadline_passed()) { m->capped = 1; break; }
                m->cursor = k;
                alarm(60);
                work(k);
            }
            alarm(0);
            if(m->capped) { vp::cap(tag + ": deadline before all states were checked (each shard takes its states in discovery order, shallow first)"); vp::bound(tag + ".checked_before_deadline.shard" + std::to_string(C.shard), std::to_string(k) + " of " + std::to_string(todo)); }
            vp::finish();
            fflush(nullptr);
            _exit(0);
        }
        int st = 0; waitpid(pid, &st, 0);
        ++gen;
        if(WIFEXITED(st) && WEXITSTATUS(st) == 0) break;
        size_t k = (size_t)m->cursor;
        crashed(k, *m, how_died(st));
        pos = k + 1;
    }
}

} // namespace sv
