#!/usr/bin/env python3
"""Driver for the rtosc model-checking harnesses.

  run.py <ID> [--tier quick|thorough] [--jobs N]   run one check, write evidence/<ID>.json
  run.py <ID> --replay <replay.json>               re-run one recorded case (twice) without the explorer
  run.py --setup                                   pre-build the library flavours and all harnesses
  run.py --list

The library is always compiled from $VERIF_REPO (default /repo) as it is on disk now;
objects are cached under build/ keyed by a SHA-256 of src/ and include/, never by mtime.
Exit 0: property held on everything explored (KNOWN-FINDING lines possible);
exit 1: at least one "VIOLATION property=<id> replay=<path>" line; exit 3: harness/infrastructure error.
"""
import sys, os, json, hashlib, subprocess, time, shutil, fcntl, re, argparse, glob
from concurrent.futures import ThreadPoolExecutor

VERIF = os.path.dirname(os.path.abspath(__file__))
REPO = os.environ.get("VERIF_REPO", "/repo")
BUILD = os.path.join(VERIF, "build")
NCPU = min(16, os.cpu_count() or 4)

C_LIB = ["src/rtosc.c", "src/dispatch.c", "src/rtosc-time.c"]
CPP_LIB = ["src/cpp/ports.cpp", "src/cpp/ports-runtime.cpp", "src/cpp/default-value.cpp", "src/cpp/savefile.cpp",
           "src/cpp/pretty-format.c", "src/cpp/arg-ext.c", "src/cpp/arg-val.c", "src/cpp/arg-val-math.c",
           "src/cpp/arg-val-cmp.c", "src/cpp/arg-val-itr.c", "src/cpp/util.c", "src/cpp/miditable.cpp",
           "src/cpp/automations.cpp", "src/cpp/midimapper.cpp", "src/cpp/thread-link.cpp",
           "src/cpp/undo-history.cpp", "src/cpp/subtree-serialize.cpp"]

FLAVOURS = {
    # semantics of the baseline suite (RelWithDebInfo => NDEBUG)
    "rel": ["-O1", "-g", "-DNDEBUG", "-fno-omit-frame-pointer"],
    "asan": ["-O1", "-g", "-DNDEBUG", "-fno-omit-frame-pointer", "-fsanitize=address"],
    # free-running auxiliary pass of C06 (thorough only)
    "tsan": ["-O1", "-g", "-DNDEBUG", "-fno-omit-frame-pointer", "-fsanitize=thread"],
}

# id -> description of the harness
CHECKS = {}

def part(src, flavour="rel", extra=(), omit=(), shards=NCPU, ldflags=(), special=None, cxxflags=(), name=None, args=()):
    return dict(src=src, flavour=flavour, extra=list(extra), omit=list(omit), shards=shards, ldflags=list(ldflags),
                special=special, cxxflags=list(cxxflags), name=name or os.path.basename(src).split(".")[0], args=list(args))

def reg(id, src=None, deadline=(240, 1200), parts=None, **kw):
    ps = parts if parts is not None else [part(src, **kw)]
    for p in ps: p["id"] = id
    CHECKS[id] = dict(id=id, parts=ps, deadline=deadline, src=ps[0]["src"], flavour="+".join(p["flavour"] for p in ps))

reg("C01", "checks/C01_wire.cpp")
reg("C02", parts=[part("checks/C02_bufdisc.cpp", shards=12), part("checks/C02_cppsites.cpp", flavour="asan", shards=4)])
reg("C03", "checks/C03_rtsafe.cpp", extra=["engine/interpose_alloc.cpp"], ldflags=["-ldl"])
reg("C04", "checks/C04_dispatch.cpp", flavour="asan")
reg("C05", "checks/C05_match.cpp")
reg("C06", parts=[part("checks/C06_threadlink.cpp", special="tl_hook", omit=["src/cpp/thread-link.cpp"], shards=1, args=["--part", "B"], name="B"),
                  part("checks/C06_threadlink.cpp", special="tl_hook", omit=["src/cpp/thread-link.cpp"], shards=15, args=["--part", "A"], name="A"),
                  part("checks/C06_threadlink.cpp", special="tl_hook", omit=["src/cpp/thread-link.cpp"], shards=8, args=["--part", "A", "--ext"], name="Aext"),
                  part("checks/C06_tsan.cpp", flavour="tsan", shards=1, name="tsan")])
reg("C07", "checks/C07_validate.cpp")
reg("C08", "checks/C08_bundle.cpp")
reg("C09", "checks/C09_walk.cpp", flavour="asan")
reg("C10", "checks/C10_printscan.cpp")
reg("C11", "checks/C11_grammar.cpp")
reg("C12", "checks/C12_savefile.cpp", flavour="asan")
reg("C13", "checks/C13_order.cpp", flavour="asan")
reg("C14", "checks/C14_params.cpp", flavour="asan")
reg("C15", "checks/C15_undo.cpp", flavour="asan", extra=["engine/interpose_time.cpp"], shards=1)
reg("C16", "checks/C16_cmp.cpp")
reg("C17", "checks/C17_meta.cpp", flavour="asan")
reg("C18", "checks/C18_paths.cpp", flavour="asan")
reg("C19", "checks/C19_automation.cpp", flavour="asan", shards=1, deadline=(240, 2400))
reg("C20", "checks/C20_midimap.cpp", flavour="asan", shards=1)


def sha_file(h, path):
    with open(path, "rb") as f:
        h.update(path.encode()); h.update(b"\0"); h.update(f.read()); h.update(b"\0")

def tree_hash():
    h = hashlib.sha256()
    files = []
    for top in ("src", "include"):
        for root, dirs, fs in os.walk(os.path.join(REPO, top)):
            dirs.sort()
            for f in sorted(fs):
                files.append(os.path.join(root, f))
    for p in sorted(files):
        rel = os.path.relpath(p, REPO)
        with open(p, "rb") as f:
            h.update(rel.encode()); h.update(b"\0"); h.update(f.read()); h.update(b"\0")
    return h.hexdigest()

def engine_hash(srcs):
    """hash of the harness sources and every /verif header they include (g++ -MM)"""
    h = hashlib.sha256()
    inc = ["-I" + os.path.join(REPO, "include"), "-I" + os.path.join(REPO, "src"), "-I" + VERIF, "-I" + os.path.join(VERIF, "engine")]
    deps = set(srcs)
    rc, txt = run(["g++", "-std=c++17", "-MM", "-w"] + inc + list(srcs))
    if rc == 0:
        for tok in txt.replace("\\\n", " ").split():
            if tok.startswith(VERIF + "/") and os.path.isfile(tok):
                deps.add(tok)
    else:
        deps.update(glob.glob(os.path.join(VERIF, "engine", "*")) + glob.glob(os.path.join(VERIF, "apps", "*")))
    for f in ("engine/tl_hook.h", "engine/tl_wrap.cpp", "engine/tl_view.h"): deps.add(os.path.join(VERIF, f))
    for p in sorted(deps):
        if os.path.isfile(p):
            sha_file(h, p)
    return h.hexdigest()

def run(cmd, **kw):
    r = subprocess.run(cmd, stdout=subprocess.PIPE, stderr=subprocess.STDOUT, text=True, **kw)
    return r.returncode, r.stdout

class Lock:
    def __init__(self, path): self.path = path
    def __enter__(self):
        os.makedirs(os.path.dirname(self.path), exist_ok=True)
        self.f = open(self.path, "w"); fcntl.flock(self.f, fcntl.LOCK_EX); return self
    def __exit__(self, *a):
        fcntl.flock(self.f, fcntl.LOCK_UN); self.f.close()

def gen_version_c(dst):
    src = open(os.path.join(REPO, "src/cpp/version.c.in")).read()
    cm = open(os.path.join(REPO, "CMakeLists.txt")).read()
    for k in ("VERSION_MAJOR", "VERSION_MINOR", "VERSION_PATCH"):
        m = re.search(r"set\(%s\s+(\d+)\)" % k, cm)
        src = src.replace("@%s@" % k, m.group(1) if m else "0").replace("${%s}" % k, m.group(1) if m else "0")
    open(dst, "w").write(src)

def compile_one(job):
    cmd, out = job
    rc, txt = run(cmd)
    return rc, txt, cmd

def prune_cache(keep_prefix, keep):
    ds = sorted(glob.glob(os.path.join(BUILD, keep_prefix + "*")), key=os.path.getmtime, reverse=True)
    for d in ds[keep:]:
        shutil.rmtree(d, ignore_errors=True)

def build_lib(flavour, th):
    """compile all library sources for one flavour; return dict rel-source -> object"""
    d = os.path.join(BUILD, "lib-%s-%s" % (flavour, th[:20]))
    objs = {}
    with Lock(os.path.join(BUILD, "lock-lib-%s" % flavour)):
        os.makedirs(d, exist_ok=True)
        os.utime(d, None)      # most recently used first when pruning
        jobs = []
        fl = FLAVOURS[flavour]
        inc = ["-I" + os.path.join(REPO, "include")]
        vc = os.path.join(d, "version.c")
        if not os.path.exists(vc):
            gen_version_c(vc)
        srcs = [(s, os.path.join(REPO, s)) for s in C_LIB + CPP_LIB] + [("version.c", vc)]
        for rel, path in srcs:
            o = os.path.join(d, rel.replace("/", "_") + ".o")
            objs[rel] = o
            if os.path.exists(o):
                continue
            if rel in C_LIB:
                cmd = ["gcc", "-std=c99", "-D_DEFAULT_SOURCE"] + fl + inc + ["-w", "-c", path, "-o", o + ".tmp"]
            elif path.endswith(".c"):
                cmd = ["gcc"] + fl + inc + ["-w", "-c", path, "-o", o + ".tmp"]
            else:
                cmd = ["g++", "-std=c++17"] + fl + inc + ["-w", "-c", path, "-o", o + ".tmp"]
            jobs.append((cmd, o))
        if jobs:
            with ThreadPoolExecutor(NCPU) as ex:
                for (rc, txt, cmd), (_, o) in zip(ex.map(compile_one, jobs), jobs):
                    if rc != 0:
                        sys.stderr.write("BUILD FAILED: %s\n%s\n" % (" ".join(cmd), txt))
                        raise SystemExit(3)
                    os.replace(o + ".tmp", o)
            prune_cache("lib-%s-" % flavour, 8)
    return objs

def build_check(ck, th=None):
    th = th or tree_hash()
    fl = FLAVOURS[ck["flavour"]]
    objs = build_lib(ck["flavour"], th)
    srcs = [os.path.join(VERIF, ck["src"])] + [os.path.join(VERIF, e) for e in ck["extra"]]
    eh = engine_hash(srcs)
    bdir = os.path.join(BUILD, "bin")
    tag = "%s_%s" % (ck["id"], ck["name"])
    exe = os.path.join(bdir, "%s-%s-%s" % (tag, th[:12], eh[:12]))
    with Lock(os.path.join(BUILD, "lock-bin-%s" % tag)):
        if os.path.exists(exe):
            return exe
        os.makedirs(bdir, exist_ok=True)
        # keep the newest few binaries of this harness (concurrent runs against other trees may be using theirs)
        olds = sorted(glob.glob(os.path.join(bdir, tag + "-*")), key=os.path.getmtime, reverse=True)
        for old in olds[5:]:
            try: os.remove(old)
            except OSError: pass
        inc = ["-I" + os.path.join(REPO, "include"), "-I" + os.path.join(REPO, "src"), "-I" + VERIF, "-I" + os.path.join(VERIF, "engine")]
        libobjs = [o for rel, o in objs.items() if rel not in ck["omit"]]
        extra_objs = []
        if ck["special"] == "tl_hook":
            # thread-link.cpp compiled with the instrumented std::atomic pre-include
            o = os.path.join(bdir, "tl_hooked-%s-%s-%s.o" % (tag, th[:12], eh[:12]))
            cmd = ["g++", "-std=c++17"] + fl + inc + ["-w", "-fno-access-control",
                   "-DVP_TL_SRC=\"%s\"" % os.path.join(REPO, "src/cpp/thread-link.cpp"),
                   "-c", os.path.join(VERIF, "engine/tl_wrap.cpp"), "-o", o]
            rc, txt = run(cmd)
            if rc != 0:
                sys.stderr.write("BUILD FAILED (hooked thread-link): %s\n%s\n" % (" ".join(cmd), txt)); raise SystemExit(3)
            extra_objs.append(o)
        cmd = ["g++", "-std=c++17"] + fl + ck["cxxflags"] + inc + ["-fno-access-control", "-w"] + srcs + extra_objs + libobjs + \
              ["-o", exe + ".tmp", "-lm", "-lpthread"] + ck["ldflags"]
        rc, txt = run(cmd)
        if rc != 0:
            sys.stderr.write("BUILD FAILED: %s\n%s\n" % (" ".join(cmd), txt)); raise SystemExit(3)
        os.replace(exe + ".tmp", exe)
        for o in extra_objs:
            try: os.remove(o)
            except OSError: pass
    return exe

def load_known():
    p = os.path.join(VERIF, "known_findings.json")
    if not os.path.exists(p):
        return []
    return json.load(open(p))["findings"]

def sanitize(s):
    return re.sub(r"[^A-Za-z0-9_.-]+", "_", s)[:100]

def child_env():
    e = dict(os.environ)
    e["TZ"] = "UTC"; e["LC_ALL"] = "C"
    e["TSAN_OPTIONS"] = "exitcode=66:halt_on_error=1"
    e["ASAN_OPTIONS"] = "detect_leaks=0:abort_on_error=0:halt_on_error=1:exitcode=77:allocator_may_return_null=1:detect_stack_use_after_return=0"
    return e

def run_shards(exes, ck, tier, jobs, deadline, outdir, replay=None):
    os.makedirs(outdir, exist_ok=True)
    for f in glob.glob(os.path.join(outdir, "shard_*")): os.remove(f)
    procs = []
    for pi, (exe, pt) in enumerate(zip(exes, ck["parts"])):
        n = 1 if replay is not None else (jobs or pt["shards"])
        for k in range(n):
            i = "%d_%d" % (pi, k)
            out = os.path.join(outdir, "shard_%s.json" % i)
            cmd = [exe, "--tier", tier, "--shard", "%d/%d" % (k, n), "--out", out, "--deadline", str(deadline)] + pt["args"]
            if replay is not None:
                cmd += ["--replay", replay]
            log = open(os.path.join(outdir, "shard_%s.log" % i), "w")
            procs.append((subprocess.Popen(cmd, stdout=log, stderr=subprocess.STDOUT, env=child_env(), cwd=outdir), out, log, i))
    results, errors = [], []
    hard = deadline * 1.5 + 120
    t0 = time.time()
    for p, out, log, i in procs:
        try:
            rc = p.wait(timeout=max(1, hard - (time.time() - t0)))
        except subprocess.TimeoutExpired:
            p.kill(); rc = -9
        log.close()
        if rc != 0 or not os.path.exists(out):
            tail = open(os.path.join(outdir, "shard_%s.log" % i), errors="replace").read()[-3000:]
            errors.append("shard %s exit %s\n%s" % (i, rc, tail))
            continue
    # a process may have written further result files (bfs workers: shard_*_L<d>w<i>.json)
    for out in sorted(glob.glob(os.path.join(outdir, "shard_*.json"))):
        try:
            results.append(json.load(open(out)))
        except Exception as ex:
            errors.append("%s: unparsable result: %s" % (os.path.basename(out), ex))
    return results, errors

def aggregate(results):
    agg = dict(states=0, transitions=0, traces=0, evaluations=0, distinct_nontrivial=0, outcomes={}, samples=[],
               bounds={}, caps=[], exhaustive=True, violations={}, n_outcomes=0, replay_hits=0, max_shard_wall_s=0.0)
    for r in results:
        for k in ("states", "transitions", "traces", "evaluations", "distinct_nontrivial", "replay_hits"):
            agg[k] += r.get(k, 0)
        for k, v in r["outcomes"].items():
            agg["outcomes"][k] = agg["outcomes"].get(k, 0) + v
        for s in r["samples"]:
            if len(agg["samples"]) < 8 and s not in agg["samples"]:
                agg["samples"].append(s)
        agg["bounds"].update(r["bounds"])
        for c in r["caps"]:
            if c not in agg["caps"]: agg["caps"].append(c)
        agg["exhaustive"] = agg["exhaustive"] and r["exhaustive"]
        agg["max_shard_wall_s"] = max(agg["max_shard_wall_s"], r.get("wall_s", 0))
        for sig, v in r["violations"].items():
            a = agg["violations"].setdefault(sig, dict(count=0, cases=[], details=[]))
            a["count"] += v["count"]
            for c, d in zip(v["cases"], v["details"]):
                if len(a["cases"]) < 3:
                    a["cases"].append(c); a["details"].append(d)
    agg["n_outcomes"] = len(agg["outcomes"])
    return agg

RULES = {}
def load_meta():
    m = {}
    for p in glob.glob(os.path.join(VERIF, "checks", "*.meta.json")):
        m[os.path.basename(p).split(".")[0]] = json.load(open(p))
    return m

def main():
    ap = argparse.ArgumentParser()
    ap.add_argument("id", nargs="?")
    ap.add_argument("--tier", default=os.environ.get("VERIF_TIER", "quick"))
    ap.add_argument("--jobs", type=int, default=0)
    ap.add_argument("--replay")
    ap.add_argument("--setup", action="store_true")
    ap.add_argument("--list", action="store_true")
    ap.add_argument("--no-evidence", action="store_true")
    a = ap.parse_args()

    if a.list:
        for k in sorted(CHECKS): print(k, CHECKS[k]["src"], CHECKS[k]["flavour"])
        return 0
    if a.setup:
        th = tree_hash()
        for fl in ("rel", "asan"): build_lib(fl, th)
        manifest = json.load(open(os.path.join(VERIF, "MANIFEST.json")))
        ids = [c["property_id"] for c in manifest["checks"]]
        with ThreadPoolExecutor(8) as ex:
            list(ex.map(lambda p: build_check(p, th), [p for i in ids if i in CHECKS for p in CHECKS[i]["parts"]]))
        print("setup ok: %d harnesses built" % len(ids))
        return 0
    if a.id not in CHECKS:
        sys.stderr.write("unknown check %r\n" % a.id); return 3
    ck = CHECKS[a.id]
    tier = "thorough" if a.tier == "thorough" else "quick"
    seed = int(os.environ.get("VERIF_SEED", "0") or 0)
    t0 = time.time()
    th0 = tree_hash()
    exe = [build_check(p, th0) for p in ck["parts"]]
    build_s = time.time() - t0
    deadline = float(os.environ.get("VERIF_DEADLINE_S", ck["deadline"][1 if tier == "thorough" else 0]))
    outdir = os.path.join(BUILD, "out", a.id + ("-replay" if a.replay else ""))

    if a.replay:
        rp = json.load(open(a.replay))
        obs = []
        for k in range(2):
            res, errs = run_shards(exe, ck, rp.get("tier", tier), 1, deadline, outdir, replay=rp["case"])
            if errs:
                print("replay run %d: harness error\n%s" % (k, errs[0])); return 3
            agg = aggregate(res)
            obs.append(sorted(agg["violations"].keys()))
            if agg["replay_hits"] == 0:
                print("replay: case id not found by the harness: %s" % rp["case"]); return 3
        if obs[0] != obs[1]:
            print("NONDETERMINISM: two replays of the same case disagree: %s vs %s" % (obs[0], obs[1])); return 3
        if rp["signature"] in obs[0]:
            print("replay reproduces: %s" % rp["signature"])
            print("VIOLATION property=%s replay=%s" % (a.id, a.replay)); return 1
        print("replay does not reproduce %s (observed: %s)" % (rp["signature"], obs[0])); return 0

    jobs = a.jobs
    results, errors = run_shards(exe, ck, tier, jobs, deadline, outdir)
    if errors:
        # a crashed shard (sanitizer abort, signal) is a failure of the run; the harness turns expected
        # faults into violations itself, so this is reported as an infrastructure error with its log.
        sys.stderr.write("HARNESS ERROR in %s:\n%s\n" % (a.id, "\n".join(errors)))
        crash = any(("AddressSanitizer" in e or "exit -11" in e or "exit -6" in e or "exit 77" in e) for e in errors)
        if crash:
            rpath = os.path.join(VERIF, "replays", a.id, "crash.json")
            os.makedirs(os.path.dirname(rpath), exist_ok=True)
            # the harness prints "CASE: <id>" from AddressSanitizer's error callback: keep it for the replay
            case = ""
            for lf in sorted(glob.glob(os.path.join(outdir, "shard_*.log"))):
                m = re.search(r"^CASE: (.*)$", open(lf, errors="replace").read(), re.M)
                if m and m.group(1).strip(): case = m.group(1).strip(); break
            json.dump(dict(property=a.id, signature="crash", case=case, tier=tier, detail=errors[0][-2500:]), open(rpath, "w"), indent=1)
            print("  crash (sanitizer report or fatal signal inside the library) case=%s" % (case or "?"))
            print("VIOLATION property=%s replay=%s" % (a.id, rpath))
            return 1
        return 3
    agg = aggregate(results)
    known = [k for k in load_known() if k["property"] == a.id]
    known_sigs = {}
    for k in known:
        if k.get("status") == "known":
            for s in k["signatures"]:
                known_sigs[s] = k
    new_viol, known_hit = [], {}
    for sig, v in sorted(agg["violations"].items()):
        if sig in known_sigs:
            known_hit.setdefault(known_sigs[sig]["id"], []).append((sig, v))
        else:
            new_viol.append((sig, v))
    for kid, lst in sorted(known_hit.items()):
        k = [x for x in known if x["id"] == kid][0]
        n = sum(v["count"] for _, v in lst)
        print("KNOWN-FINDING: property=%s %s [%s; %d occurrences in this run, e.g. case %s]" % (a.id, k["what"], kid, n, lst[0][1]["cases"][0]))
    rc = 0
    for sig, v in new_viol:
        rdir = os.path.join(VERIF, "replays", a.id)
        os.makedirs(rdir, exist_ok=True)
        rpath = os.path.join(rdir, sanitize(sig) + ".json")
        json.dump(dict(property=a.id, signature=sig, case=v["cases"][0], tier=tier, count=v["count"], detail=v["details"][0],
                       more_cases=v["cases"][1:], harness=ck["src"]), open(rpath, "w"), indent=1)
        print("  %s x%d  case=%s\n    %s" % (sig, v["count"], v["cases"][0], v["details"][0][:600]))
        print("VIOLATION property=%s replay=%s" % (a.id, rpath))
        rc = 1
    wall = time.time() - t0
    meta = load_meta().get(a.id, {})
    cov = dict(states=agg["states"], transitions=agg["transitions"], traces_validated_against_impl=agg["traces"],
               evaluations=agg["evaluations"], distinct_nontrivial=agg["distinct_nontrivial"],
               rule=meta.get("rule", ""), samples=agg["samples"] or ["(none)"], exhaustive=bool(agg["exhaustive"]),
               bounds=agg["bounds"], caps_hit=agg["caps"], distinct_outcomes=agg["n_outcomes"],
               outcome_histogram=dict(sorted(agg["outcomes"].items(), key=lambda kv: -kv[1])[:40]),
               shards=len(results), build_s=round(build_s, 2), max_shard_wall_s=round(agg["max_shard_wall_s"], 2),
               tree_sha256=tree_hash(), repo=REPO,
               known_findings_seen=sorted(known_hit.keys()),
               explanation=meta.get("explanation", ""))
    ev = dict(property_id=a.id, tier=tier, seed=seed, level="model_checking", coverage=cov,
              assumptions=meta.get("assumptions", []), wall_s=round(wall, 2), violations=len(new_viol))
    if not a.no_evidence and REPO == "/repo":
        os.makedirs(os.path.join(VERIF, "evidence"), exist_ok=True)
        json.dump(ev, open(os.path.join(VERIF, "evidence", a.id + ".json"), "w"), indent=1)
    elif not a.no_evidence:
        os.makedirs(os.path.join(BUILD, "evidence-alt"), exist_ok=True)
        json.dump(ev, open(os.path.join(BUILD, "evidence-alt", a.id + ".json"), "w"), indent=1)
    print("%s %s: states=%d transitions=%d traces=%d evals=%d nontrivial=%d outcomes=%d exhaustive=%s wall=%.1fs violations=%d known=%d" % (
        a.id, tier, agg["states"], agg["transitions"], agg["traces"], agg["evaluations"], agg["distinct_nontrivial"],
        agg["n_outcomes"], agg["exhaustive"], wall, len(new_viol), len(known_hit)))
    return rc

if __name__ == "__main__":
    sys.exit(main())
