// Pre-include for ONE translation unit: src/cpp/thread-link.cpp (through engine/tl_wrap.cpp).
// Replaces std::atomic<T> by an instrumented type whose every load and store is a scheduling point
// of the harness, and routes the ring memcpy()s and the in-ring length scan through the harness too.
// No edit of /repo is needed; all other TUs keep the real <atomic>.
#pragma once
#include <bits/atomic_base.h>     // std::memory_order and friends
#define _GLIBCXX_ATOMIC 1          // include guard of libstdc++'s <atomic>: keeps the real header out of this TU
#include <cstddef>
#include <cstring>
#include <cstdio>
#include <cassert>
#include <cstdarg>
#include <type_traits>
#include <rtosc/rtosc.h>

namespace vpsched {
long hook_load(const void *var, const long *val, int order);
void hook_store(void *var, long *val, long nv, int order);
void *hook_memcpy(void *dst, const void *src, size_t n);
size_t hook_ring_length(ring_t *r);
}

namespace std {
template <class T> struct atomic {
    static_assert(std::is_integral<T>::value && sizeof(T) <= sizeof(long), "instrumented atomic supports integral types only");
    static constexpr bool vp_hooked = true;
    long v;
    atomic() noexcept : v(0) {}
    atomic(T x) noexcept : v((long)x) {}
    atomic(const atomic &) = delete;
    atomic &operator=(const atomic &) = delete;
    operator T() const noexcept { return load(); }
    T operator=(T x) noexcept { store(x); return x; }
    T load(memory_order o = memory_order_seq_cst) const noexcept { return (T)vpsched::hook_load(this, &v, (int)o); }
    void store(T x, memory_order o = memory_order_seq_cst) noexcept { vpsched::hook_store(this, &v, (long)x, (int)o); }
    // read-modify-write operations are not used by thread-link.cpp; using one must fail to compile
    // rather than silently bypass the scheduler.
};
}

#define memcpy(d, s, n) ::vpsched::hook_memcpy((d), (s), (n))
#define rtosc_message_ring_length(r) ::vpsched::hook_ring_length(r)
