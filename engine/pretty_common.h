// Shared code of the pretty-format checks C10 (print -> scan round trip) and C11 (documented grammar).
//  * PV: the harness's own plain value model (bit patterns, strings, arrays) - the oracle side
//  * to_av():   PV list -> rtosc_arg_val_t array (uncompressed, as a user of the library would build it)
//  * expand():  rtosc_arg_val_t array as written by the scanner -> PV list; arrays ('a') and ranges ('-',
//               see include/rtosc/arg-ext.h) are walked and *expanded by this code*, not by the library's iterator
//  * fenced():  run a library call with SIGSEGV/SIGBUS/SIGFPE and a hang watchdog turned into a return value
#pragma once
#include <csetjmp>
#include <csignal>
#include <cstdint>
#include <cstring>
#include <string>
#include <vector>
#include <sys/time.h>
#include <unistd.h>
#include <rtosc/rtosc.h>
#include <rtosc/arg-ext.h>
#include <rtosc/arg-val-cmp.h>
#include <rtosc/pretty-format.h>
#include "common.h"

namespace pf {

// ------------------------------------------------------------------ plain values
struct PV {
    char k = 0;          // i h c r f d t s S b m T F N I | 'a' array | 'R' endless repetition (last element of an array)
    uint64_t u = 0;      // bit pattern: i c r f (low 32 bits), h t d (64 bits)
    std::string s;       // s S: text, b: bytes, m: 4 bytes
    std::vector<PV> el;  // 'a': elements; 'R': el[0] = first value, el[1] = delta if present
    char at = 0;         // 'a': element type found in the header (expansion side only)
};

inline uint32_t fbits(float f) { uint32_t u; memcpy(&u, &f, 4); return u; }
inline uint64_t dbits(double d) { uint64_t u; memcpy(&u, &d, 8); return u; }
inline float bits_f(uint32_t u) { float f; memcpy(&f, &u, 4); return f; }
inline double bits_d(uint64_t u) { double d; memcpy(&d, &u, 8); return d; }

inline PV mk(char k, uint64_t u = 0) { PV p; p.k = k; p.u = u; return p; }
inline PV I(int32_t v) { return mk('i', (uint32_t)v); }
inline PV H(int64_t v) { return mk('h', (uint64_t)v); }
inline PV C(char c) { return mk('c', (uint32_t)(unsigned char)c); }
inline PV Fl(float f) { return mk('f', fbits(f)); }
inline PV Fb(uint32_t bits) { return mk('f', bits); }
inline PV Db(uint64_t bits) { return mk('d', bits); }
inline PV D(double d) { return mk('d', dbits(d)); }
inline PV Col(uint32_t rgba) { return mk('r', rgba); }
inline PV Str(const std::string &s) { PV p; p.k = 's'; p.s = s; return p; }
inline PV Sym(const std::string &s) { PV p; p.k = 'S'; p.s = s; return p; }
inline PV Blob(const std::string &s) { PV p; p.k = 'b'; p.s = s; return p; }
inline PV Midi(uint8_t a, uint8_t b, uint8_t c, uint8_t d) { PV p; p.k = 'm'; p.s = std::string({(char)a, (char)b, (char)c, (char)d}); return p; }
inline PV Tt(uint64_t secs, uint32_t fracs) { return mk('t', (secs << 32) | fracs); }
inline PV Imm() { return mk('t', 1); }
inline PV Arr(const std::vector<PV> &el) { PV p; p.k = 'a'; p.el = el; return p; }

// days since 1970-01-01 of a proleptic Gregorian date (UTC); own code, not mktime
inline int64_t days_from_civil(int y, int m, int d)
{
    y -= m <= 2;
    const int64_t era = (y >= 0 ? y : y - 399) / 400;
    const unsigned yoe = (unsigned)(y - era * 400);
    const unsigned doy = (153 * (m + (m > 2 ? -3 : 9)) + 2) / 5 + d - 1;
    const unsigned doe = yoe * 365 + yoe / 4 - yoe / 100 + doy;
    return era * 146097 + (int64_t)doe - 719468;
}
inline uint64_t utc_secs(int y, int mo, int d, int h, int mi, int s) { return (uint64_t)(days_from_civil(y, mo, d) * 86400 + h * 3600 + mi * 60 + s); }

inline bool same(const PV &a, const PV &b)
{
    if(a.k != b.k) return false;
    switch(a.k) {
    case 'i': case 'c': case 'r': case 'f': return (uint32_t)a.u == (uint32_t)b.u;
    case 'h': case 't': case 'd': return a.u == b.u;
    case 's': case 'S': case 'b': case 'm': return a.s == b.s;
    case 'T': case 'F': case 'N': case 'I': return true;
    case 'a': case 'R':
        if(a.el.size() != b.el.size()) return false;
        for(size_t i = 0; i < a.el.size(); ++i) if(!same(a.el[i], b.el[i])) return false;
        return true;
    }
    return false;
}
inline bool same(const std::vector<PV> &a, const std::vector<PV> &b)
{
    if(a.size() != b.size()) return false;
    for(size_t i = 0; i < a.size(); ++i) if(!same(a[i], b[i])) return false;
    return true;
}

inline std::string show(const PV &p);
inline std::string show(const std::vector<PV> &l)
{
    std::string o;
    for(size_t i = 0; i < l.size(); ++i) { if(i) o += ' '; o += show(l[i]); }
    return o;
}
// harness notation (not the library's pretty format): type letter + exact value
inline std::string show(const PV &p)
{
    char b[96];
    switch(p.k) {
    case 'i': snprintf(b, sizeof b, "i:%d", (int32_t)(uint32_t)p.u); return b;
    case 'c': snprintf(b, sizeof b, "c:0x%02x", (unsigned)(uint32_t)p.u); return b;
    case 'r': snprintf(b, sizeof b, "r:%08x", (uint32_t)p.u); return b;
    case 'h': snprintf(b, sizeof b, "h:%lld", (long long)p.u); return b;
    case 't': snprintf(b, sizeof b, "t:%llu+0x%08x/2^32", (unsigned long long)(p.u >> 32), (uint32_t)p.u); return b;
    case 'f': snprintf(b, sizeof b, "f:%a", bits_f((uint32_t)p.u)); return b;
    case 'd': snprintf(b, sizeof b, "d:%a", bits_d(p.u)); return b;
    case 's': return "s:\"" + vp::show(p.s) + "\"";
    case 'S': return "S:\"" + vp::show(p.s) + "\"";
    case 'b': return "b:" + vp::hex(p.s.data(), p.s.size());
    case 'm': return "m:" + vp::hex(p.s.data(), p.s.size());
    case 'T': case 'F': case 'N': case 'I': return std::string(1, p.k);
    case 'a': return "[" + show(p.el) + "]";
    case 'R': return "repeat-forever(" + show(p.el) + ")";
    }
    return "?";
}

inline size_t slots(const PV &p)
{
    if(p.k != 'a') return 1;
    size_t n = 1;
    for(auto &e : p.el) n += slots(e);
    return n;
}
inline size_t slots(const std::vector<PV> &l) { size_t n = 0; for(auto &p : l) n += slots(p); return n; }

// PV -> rtosc_arg_val_t, the way a user fills the array: every byte defined, arrays as ('a', type, len) + elements.
// Strings and blobs point into the PV objects, which must outlive the array.
inline void to_av(const PV &p, std::vector<rtosc_arg_val_t> &out)
{
    rtosc_arg_val_t a; memset(&a, 0, sizeof a);
    a.type = p.k;
    switch(p.k) {
    case 'i': case 'c': case 'r': a.val.i = (int32_t)(uint32_t)p.u; break;
    case 'h': a.val.h = (int64_t)p.u; break;
    case 't': a.val.t = p.u; break;
    case 'f': a.val.f = bits_f((uint32_t)p.u); break;
    case 'd': a.val.d = bits_d(p.u); break;
    case 's': case 'S': a.val.s = p.s.c_str(); break;
    case 'b': a.val.b.len = (int32_t)p.s.size(); a.val.b.data = (uint8_t *)p.s.data(); break;
    case 'm': memcpy(a.val.m, p.s.data(), 4); break;
    case 'T': a.val.T = 1; break;
    case 'F': a.val.T = 0; break;
    case 'N': case 'I': break;
    case 'a': {
        size_t at = out.size();
        out.push_back(a);
        for(auto &e : p.el) to_av(e, out);
        // an empty array has no element type: ' ' is what the library itself writes for "[]"
        rtosc_av_arr_type_set(&out[at], p.el.empty() ? ' ' : p.el[0].k);
        rtosc_av_arr_len_set(&out[at], (int32_t)(out.size() - at - 1));
        return;
    }
    default: abort();
    }
    out.push_back(a);
}
inline void to_av(const std::vector<PV> &l, std::vector<rtosc_arg_val_t> &out) { out.clear(); for(auto &p : l) to_av(p, out); }

// ------------------------------------------------------------------ expansion of scanned arrays (own iterator)
struct Scratch { const char *lo = nullptr, *hi = nullptr; };  // where strings/blobs of scanned values must lie

inline bool scalar_from_av(const rtosc_arg_val_t &a, PV &p, const Scratch &sc, std::string &err)
{
    p = PV(); p.k = a.type;
    switch(a.type) {
    case 'i': case 'c': case 'r': p.u = (uint32_t)a.val.i; return true;
    case 'h': p.u = (uint64_t)a.val.h; return true;
    case 't': p.u = a.val.t; return true;
    case 'f': p.u = fbits(a.val.f); return true;
    case 'd': p.u = dbits(a.val.d); return true;
    case 'T': case 'F': case 'N': case 'I': return true;
    case 'm': p.s.assign((const char *)a.val.m, 4); return true;
    case 's': case 'S': {
        const char *s = a.val.s;
        if(sc.lo) {
            if(s < sc.lo || s >= sc.hi) { err = "string pointer outside the scratch buffer"; return false; }
            size_t n = strnlen(s, sc.hi - s);
            if(s + n >= sc.hi) { err = "string not terminated inside the scratch buffer"; return false; }
        } else if(!s) { err = "null string"; return false; }
        p.s = s; return true;
    }
    case 'b': {
        int32_t len = a.val.b.len; const char *d = (const char *)a.val.b.data;
        if(len < 0) { err = "negative blob length"; return false; }
        if(sc.lo && (d < sc.lo || d + len > sc.hi)) { err = "blob data outside the scratch buffer"; return false; }
        p.s.assign(d, len); return true;
    }
    }
    char b[64]; snprintf(b, sizeof b, "slot with unknown type 0x%02x", (unsigned char)a.type);
    err = b; return false;
}

// number of slots of the element starting at a[0] (scalar, array; ranges are not elements of ranges)
inline bool elem_size(const rtosc_arg_val_t *a, size_t n, size_t &sz, std::string &err)
{
    if(n == 0) { err = "element expected behind the end"; return false; }
    if(a->type == 'a') {
        int32_t len = rtosc_av_arr_len(a);
        if(len < 0 || (size_t)len + 1 > n) { err = "array length " + std::to_string(len) + " exceeds the slots available"; return false; }
        sz = (size_t)len + 1; return true;
    }
    if(a->type == '-') { err = "range inside a range"; return false; }
    sz = 1; return true;
}

inline bool expand(const rtosc_arg_val_t *a, size_t n, std::vector<PV> &out, const Scratch &sc, std::string &err, bool in_array = false);

inline bool range_value(const PV &start, const PV &delta, int64_t k, PV &res, std::string &err)
{
    res = start;
    bool sb = start.k == 'T' || start.k == 'F', db = delta.k == 'T' || delta.k == 'F';
    if(sb && db) { // booleans: arithmetic mod 2 (delta true = alternate)
        bool v = (start.k == 'T') ^ ((delta.k == 'T') && (k & 1));
        res.k = v ? 'T' : 'F'; return true;
    }
    if(start.k != delta.k) { err = std::string("range start '") + start.k + "' and delta '" + delta.k + "' differ in type"; return false; }
    switch(start.k) {
    case 'i': case 'c': res.u = (uint32_t)((uint32_t)start.u + (uint32_t)k * (uint32_t)delta.u); return true;
    case 'h': res.u = start.u + (uint64_t)k * delta.u; return true;
    case 'f': res.u = fbits(bits_f((uint32_t)start.u) + (float)k * bits_f((uint32_t)delta.u)); return true;
    case 'd': res.u = dbits(bits_d(start.u) + (double)k * bits_d(delta.u)); return true;
    }
    err = std::string("arithmetic range over type '") + start.k + "'"; return false;
}

inline bool expand(const rtosc_arg_val_t *a, size_t n, std::vector<PV> &out, const Scratch &sc, std::string &err, bool in_array)
{
    size_t i = 0;
    while(i < n) {
        char t = a[i].type;
        if(t == 'a') {
            size_t sz; if(!elem_size(a + i, n - i, sz, err)) return false;
            PV arr; arr.k = 'a'; arr.at = rtosc_av_arr_type(a + i);
            if(!expand(a + i + 1, sz - 1, arr.el, sc, err, true)) return false;
            out.push_back(arr); i += sz;
        } else if(t == '-') {
            int32_t num = rtosc_av_rep_num(a + i), hd = rtosc_av_rep_has_delta(a + i);
            if(hd != 0 && hd != 1) { err = "range has_delta=" + std::to_string(hd); return false; }
            if(num < 0 || num > 100000) { err = "range count " + std::to_string(num); return false; }
            size_t p = i + 1;
            PV delta;
            if(hd) {
                if(p >= n) { err = "range delta behind the end"; return false; }
                if(!scalar_from_av(a[p], delta, sc, err)) { err = "range delta: " + err; return false; }
                ++p;
            }
            size_t sz; if(!elem_size(a + p, n - p, sz, err)) { err = "range start: " + err; return false; }
            std::vector<PV> st;
            if(!expand(a + p, sz, st, sc, err, in_array) || st.size() != 1) { if(err.empty()) err = "range start is not one element"; return false; }
            if(num == 0) {
                if(!in_array || p + sz != n) { err = "endless range that is not the last element of an array"; return false; }
                PV r; r.k = 'R'; r.el.push_back(st[0]); if(hd) r.el.push_back(delta);
                out.push_back(r);
            } else if(!hd) {
                for(int32_t k = 0; k < num; ++k) out.push_back(st[0]);
            } else {
                for(int32_t k = 0; k < num; ++k) { PV v; if(!range_value(st[0], delta, k, v, err)) return false; out.push_back(v); }
            }
            i = p + sz;
        } else {
            PV p; if(!scalar_from_av(a[i], p, sc, err)) return false;
            out.push_back(p); ++i;
        }
    }
    return true;
}

// ------------------------------------------------------------------ sentinel-filled output array
static const unsigned char SENT = 0xA5;
inline bool slot_untouched(const rtosc_arg_val_t &a)
{
    const unsigned char *b = (const unsigned char *)&a;
    for(size_t i = 0; i < sizeof a; ++i) if(b[i] != SENT) return false;
    return true;
}

// ------------------------------------------------------------------ fenced library calls
static sigjmp_buf g_jmp;
static volatile sig_atomic_t g_armed = 0;
static volatile sig_atomic_t g_serial = 0, g_seen_serial = -1, g_ticks_same = 0;

static void *volatile g_fault_addr = nullptr;
static void on_signal(int sig, siginfo_t *si, void *)
{
    if(sig != SIGALRM) g_fault_addr = si ? si->si_addr : nullptr;
    if(sig == SIGALRM) {
        if(!g_armed) { g_seen_serial = -1; return; }
        if(g_seen_serial == g_serial) { if(++g_ticks_same >= 2) { g_armed = 0; siglongjmp(g_jmp, sig); } }
        else { g_seen_serial = g_serial; g_ticks_same = 0; }
        return;
    }
    if(g_armed) { g_armed = 0; siglongjmp(g_jmp, sig); }
    signal(sig, SIG_DFL); raise(sig);
}
static void on_exit_report()
{
    if(g_armed) fprintf(stderr, "UNEXPECTED exit() inside a library call, CASE: %s\n", vp::current_case().c_str());
}
inline void install()
{
    static bool done = false; if(done) return; done = true;
    static char alt[1 << 16];
    stack_t ss; ss.ss_sp = alt; ss.ss_size = sizeof alt; ss.ss_flags = 0; sigaltstack(&ss, nullptr);
    struct sigaction sa; memset(&sa, 0, sizeof sa);
    sa.sa_sigaction = on_signal; sa.sa_flags = SA_SIGINFO | SA_ONSTACK | SA_NODEFER;
    for(int s : {SIGSEGV, SIGBUS, SIGFPE, SIGALRM}) sigaction(s, &sa, nullptr);
    struct itimerval tv; tv.it_interval.tv_sec = 2; tv.it_interval.tv_usec = 0; tv.it_value = tv.it_interval;
    setitimer(ITIMER_REAL, &tv, nullptr);   // watchdog tick: a call that spans two ticks (2-4 s) is reported as a hang
    atexit(on_exit_report);
}
// The stack area the library call is going to use is pre-filled with a constant: a result that depends on an
// uninitialised local of the library (seen: llhstype in rtosc_skip_next_printed_arg) is then the same in a full run
// and in a replay, instead of depending on what the harness did before.
__attribute__((noinline)) static void poison_stack()
{
    volatile char a[16384];
    memset((void *)a, 0x5a, sizeof a);
    asm volatile("" ::: "memory");
}
// 0 = completed, otherwise the signal (SIGALRM = hang)
template <class F> inline int fenced(F &&f)
{
    install();
    poison_stack();
    int sig = sigsetjmp(g_jmp, 0);   // handlers run with SA_NODEFER and an empty sa_mask: nothing to restore, and no syscall per call
    if(sig == 0) { g_serial = g_serial + 1; g_armed = 1; f(); g_armed = 0; return 0; }
    return sig;
}
inline const char *signame(int s) { return s == SIGSEGV ? "SIGSEGV" : s == SIGBUS ? "SIGBUS" : s == SIGFPE ? "SIGFPE" : s == SIGALRM ? "hang(>2s)" : "signal"; }

} // namespace pf
