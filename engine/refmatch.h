// Reference matcher for rtosc port patterns, written from the property statement (C05) and
// doc/Guide.adoc: literal text, "#N" enumerations (a decimal index strictly smaller than N), "{a,b,..}"
// alternatives (one of them is spelled), optional trailing '/' (anything may follow), optional
// ":types" alternatives. Full backtracking; three-valued on the type part.
#pragma once
#include <string>
#include <vector>

namespace refmatch {

enum Verdict { MUST_NOT = 0, MUST = 1, DONT_CARE = 2 };

struct Pattern {
    std::string path;                 // up to, not including, the first ':'
    bool has_types = false;
    std::vector<std::string> alts;    // type alternatives
};

inline Pattern split(const std::string &p)
{
    Pattern r;
    size_t c = p.find(':');
    r.path = p.substr(0, c);
    if(c == std::string::npos) return r;
    r.has_types = true;
    size_t i = c + 1;
    while(true) {
        size_t j = p.find(':', i);
        r.alts.push_back(p.substr(i, j == std::string::npos ? std::string::npos : j - i));
        if(j == std::string::npos) break;
        i = j + 1;
    }
    return r;
}

// first_fit=false: full backtracking (the specification). first_fit=true: commit to the first
// alternative that is a prefix of the remaining address (used only to *classify* a failure).
inline bool path_match(const std::string &p, size_t i, const std::string &a, size_t j, bool first_fit = false)
{
    while(true) {
        if(i == p.size()) return j == a.size();
        char c = p[i];
        if(c == '/') {
            if(j >= a.size() || a[j] != '/') return false;
            if(i + 1 == p.size()) return true;      // pattern ends in '/': continues arbitrarily
            ++i; ++j; continue;
        }
        if(c == '#') {
            size_t k = i + 1; unsigned long long N = 0; bool any = false;
            while(k < p.size() && p[k] >= '0' && p[k] <= '9') { N = N * 10 + (unsigned)(p[k] - '0'); ++k; any = true; }
            if(!any) return false;
            size_t e = j; unsigned long long v = 0; int digits = 0;
            // value of the maximal digit run; leading zeros do not count towards the 18 significant digits that fit
            while(e < a.size() && a[e] >= '0' && a[e] <= '9') { if(v == 0 && a[e] == '0') { ++e; continue; } if(digits < 18) v = v * 10 + (unsigned)(a[e] - '0'); else v = ~0ull / 16; ++e; ++digits; }
            if(e == j) return false;
            if(!(v < N)) return false;
            i = k; j = e; continue;
        }
        if(c == '{') {
            size_t close = p.find('}', i);
            if(close == std::string::npos) return false;
            std::vector<std::string> alts; size_t s = i + 1;
            while(true) { size_t comma = p.find(',', s); if(comma == std::string::npos || comma > close) { alts.push_back(p.substr(s, close - s)); break; } alts.push_back(p.substr(s, comma - s)); s = comma + 1; }
            for(auto &alt : alts) {
                if(a.compare(j, alt.size(), alt) == 0 && j + alt.size() <= a.size()) {
                    if(first_fit) return path_match(p, close + 1, a, j + alt.size(), true);
                    if(path_match(p, close + 1, a, j + alt.size(), false)) return true;
                }
            }
            return false;
        }
        if(j >= a.size() || a[j] != c) return false;
        ++i; ++j;
    }
}

inline Verdict types_verdict(const Pattern &p, const std::string &types)
{
    if(!p.has_types) return MUST;
    bool ext = false;
    for(auto &alt : p.alts) {
        if(alt == types) return MUST;
        if(types.size() > alt.size() && types.compare(0, alt.size(), alt) == 0) ext = true;
    }
    return ext ? DONT_CARE : MUST_NOT;
}

inline Verdict verdict(const Pattern &p, const std::string &addr, const std::string &types)
{
    if(!path_match(p.path, 0, addr, 0)) return MUST_NOT;
    return types_verdict(p, types);
}

} // namespace refmatch
