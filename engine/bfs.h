// Explicit-state breadth-first search over operation histories replayed on fresh REAL objects.
//
// A state is identified by the history (vector of op codes) that reaches it. To expand a state the
// engine builds a fresh instance (Sys::Inst), replays the history, applies one more op with the
// oracle switched on, and computes Sys::canon(inst): a string dump of every property-relevant field
// of the real object together with the reference model. New canon => new state.
//
// Level-synchronous and parallel: at each depth the parent splits the frontier into chunks and forks
// one worker per chunk; workers expand their chunk and write successor records to a file; the parent
// merges them in deterministic order against the global seen-set. Workers write their own counters,
// outcomes and violations as ordinary shard result files (shard_*_L<d>w<i>.json) which run.py sums.
//
// Trust checks built in:
//  * replay determinism: the canon recomputed when a state is rebuilt for expansion must equal the
//    canon recorded at discovery; otherwise exit 3 "NONDETERMINISM" (harness error, never a VIOLATION).
//  * canon adequacy (differential): for a deterministic 1/64 subset of the merges (a second history
//    reaching an already known canon) both histories are expanded by every op and the successor canons
//    compared; a difference is exit 3 "CANON-INADEQUATE".
//
// Sys must provide:
//   struct Inst;                                   // real object(s) + reference model; fresh via Inst()
//   static void ops(const Inst&, std::vector<int>& out);   // enabled op codes (0..65534) in this state
//   static void apply(Inst&, int op, bool check);  // perform op on object and model; if check, run the oracle
//   static std::string canon(const Inst&);
//   static bool probe(int op);                     // probe transition: executed+checked, successor not enqueued
//   static std::string opname(int op);
#pragma once
#include <algorithm>
#include <sys/wait.h>
#include <unistd.h>
#include <unordered_map>
#include "common.h"

namespace bfs {

typedef std::vector<uint16_t> Hist;

struct H128 { uint64_t a, b; bool operator==(const H128 &o) const { return a == o.a && b == o.b; } };
struct H128hash { size_t operator()(const H128 &h) const { return (size_t)(h.a ^ (h.b * 0x9e3779b97f4a7c15ULL)); } };
inline H128 h128(const std::string &s) { return H128{vp::fnv(s), vp::fnv(s, 0x84222325cbf29ce4ULL) ^ (uint64_t)s.size()}; }

template <class Sys> struct Engine {
    int max_depth = 4;
    int workers = 16;
    bool fixpoint = false;
    int completed_depth = 0;
    uint64_t n_states = 0, n_merge_checks = 0;
    std::vector<Hist> roots;      // extra start histories ("start from non-initial states"); {} is always a root
    std::vector<std::pair<Hist, int>> late_roots;   // (history, budget): start states explored for `budget` levels only (they enter the
                                                    // frontier at level max_depth - budget): long prepared histories are costly to replay

    static std::string show(const Hist &h)
    {
        std::string s;
        for(size_t i = 0; i < h.size(); ++i) { if(i) s += " ; "; s += Sys::opname(h[i]); }
        return s.empty() ? "(initial)" : s;
    }
    static std::string hist_id(const Hist &h)
    {
        std::string s = "h";
        for(uint16_t o : h) s += ":" + std::to_string(o);
        return s;
    }
    static bool parse_hist(const std::string &s, Hist &h)
    {
        if(s.empty() || s[0] != 'h') return false;
        h.clear();
        size_t p = 1;
        while(p < s.size()) { if(s[p] != ':') return false; ++p; size_t q = p; while(q < s.size() && isdigit((unsigned char)s[q])) ++q; if(q == p) return false; h.push_back((uint16_t)atoi(s.substr(p, q - p).c_str())); p = q; }
        return true;
    }

    static void replay(typename Sys::Inst &inst, const Hist &h, size_t n)
    {
        for(size_t i = 0; i < n; ++i) Sys::apply(inst, h[i], false);
    }

    struct Rec { Hist h; H128 c; };

    static void put(FILE *f, const Rec &r)
    {
        uint32_t n = (uint32_t)r.h.size();
        fwrite(&n, 4, 1, f); fwrite(r.h.data(), 2, n, f); fwrite(&r.c, sizeof r.c, 1, f);
    }
    static bool get(FILE *f, Rec &r)
    {
        uint32_t n;
        if(fread(&n, 4, 1, f) != 1) return false;
        r.h.resize(n);
        if(n && fread(r.h.data(), 2, n, f) != n) return false;
        return fread(&r.c, sizeof r.c, 1, f) == 1;
    }

    // expand one state in a worker; successors appended to out
    void expand(const Rec &node, FILE *out)
    {
        std::vector<int> ops;
        {
            typename Sys::Inst inst;
            replay(inst, node.h, node.h.size());
            H128 c = h128(Sys::canon(inst));
            if(!(c == node.c)) {
                fprintf(stderr, "NONDETERMINISM: canon differs when history is replayed: %s\n", show(node.h).c_str());
                _exit(3);
            }
            Sys::ops(inst, ops);
        }
        for(int op : ops) {
            typename Sys::Inst inst;
            replay(inst, node.h, node.h.size());
            Hist h2 = node.h; h2.push_back((uint16_t)op);
            g_case() = hist_id(h2);
            Sys::apply(inst, op, true);
            vp::transition(); vp::eval();
            if(Sys::probe(op)) continue;
            Rec r; r.h = h2; r.c = h128(Sys::canon(inst));
            put(out, r);
        }
    }

    // successor canons of a history under every op (for the adequacy check)
    static void successors(const Hist &h, std::vector<std::string> &out)
    {
        std::vector<int> ops;
        { typename Sys::Inst inst; replay(inst, h, h.size()); Sys::ops(inst, ops); }
        for(int op : ops) {
            if(Sys::probe(op)) continue;
            typename Sys::Inst inst; replay(inst, h, h.size());
            Sys::apply(inst, op, false);
            out.push_back(Sys::opname(op) + " -> " + Sys::canon(inst));
        }
    }

    static std::string &g_case() { return vp::current_case(); }

    // Replay mode: run one history with the oracle on at the last step (twice by the driver).
    int replay_one(const std::string &id)
    {
        Hist h;
        if(!parse_hist(id, h)) return 0;
        typename Sys::Inst inst;
        for(size_t i = 0; i < h.size(); ++i) Sys::apply(inst, h[i], i + 1 == h.size());
        vp::ctx().replay_hits = 1;
        return 1;
    }

    void run()
    {
        vp::Ctx &C = vp::ctx();
        if(C.replay_mode) { replay_one(C.replay); return; }
        std::unordered_map<H128, uint32_t, H128hash> seen; // canon hash -> index into all
        std::vector<Hist> all;
        std::vector<Rec> frontier;
        std::vector<std::pair<Hist, Hist>> diffjobs;
        auto add_root = [&](const Hist &h) {
            typename Sys::Inst inst;
            // roots are replayed with the oracle on: they are part of the explored behaviour
            for(size_t i = 0; i < h.size(); ++i) { g_case() = hist_id(Hist(h.begin(), h.begin() + i + 1)); Sys::apply(inst, h[i], true); vp::transition(); }
            Rec r; r.h = h; r.c = h128(Sys::canon(inst));
            if(seen.emplace(r.c, (uint32_t)all.size()).second) { all.push_back(h); frontier.push_back(r); vp::state(); ++n_states; }
        };
        add_root(Hist());
        for(auto &h : roots) add_root(h);
        { typename Sys::Inst inst; vp::sample("initial canon: " + Sys::canon(inst).substr(0, 300)); }

        std::string base = C.out.empty() ? std::string("bfs") : C.out.substr(0, C.out.size() > 5 ? C.out.size() - 5 : C.out.size());
        bool capped = false;
        int depth = 0;
        auto late_pending = [&](int d) { for(auto &lr : late_roots) if(std::max(0, max_depth - lr.second) >= d) return true; return false; };
        for(; depth < max_depth && (!frontier.empty() || late_pending(depth)); ++depth) {
            for(auto &lr : late_roots) if(std::max(0, max_depth - lr.second) == depth) add_root(lr.first);
            int W = std::max(1, std::min<int>(workers, (int)((frontier.size() + 3) / 4)));
            std::vector<pid_t> pids;
            fflush(stdout); fflush(stderr);
            for(int w = 0; w < W; ++w) {
                pid_t pid = fork();
                if(pid < 0) { perror("fork"); exit(3); }
                if(pid == 0) {
                    // worker: fresh counters, own result file
                    vp::Ctx keep = C;
                    C = vp::Ctx();
                    C.id = keep.id; C.thorough = keep.thorough; C.shard = keep.shard; C.nshards = keep.nshards;
                    C.deadline_s = keep.deadline_s; C.t0 = keep.t0;
                    C.out = base + "_L" + std::to_string(depth) + "w" + std::to_string(w) + ".json";
                    std::string sf = base + "_L" + std::to_string(depth) + "w" + std::to_string(w) + ".succ";
                    FILE *out = fopen(sf.c_str(), "wb");
                    if(!out) { perror("succ"); _exit(3); }
                    bool stopped = false;
                    for(size_t i = w; i < frontier.size(); i += W) {
                        if(vp::deadline_passed()) { stopped = true; break; }
                        expand(frontier[i], out);
                    }
                    for(size_t j = w; j < diffjobs.size(); j += W) {
                        std::vector<std::string> s1, s2;
                        successors(diffjobs[j].first, s1); successors(diffjobs[j].second, s2);
                        if(s1 != s2) {
                            fprintf(stderr, "CANON-INADEQUATE: histories [%s] and [%s] have equal canon but different successors\n",
                                    show(diffjobs[j].first).c_str(), show(diffjobs[j].second).c_str());
                            for(size_t k = 0; k < s1.size() && k < s2.size(); ++k) if(s1[k] != s2[k]) { fprintf(stderr, "  A: %s\n  B: %s\n", s1[k].c_str(), s2[k].c_str()); break; }
                            _exit(3);
                        }
                    }
                    fclose(out);
                    if(stopped) vp::cap("deadline inside depth " + std::to_string(depth + 1));
                    C.replay_hits = 0;
                    vp::finish();
                    fflush(nullptr);
                    _exit(stopped ? 4 : 0);
                }
                pids.push_back(pid);
            }
            n_merge_checks += diffjobs.size();
            diffjobs.clear();
            for(pid_t p : pids) {
                int st = 0; waitpid(p, &st, 0);
                if(WIFEXITED(st) && WEXITSTATUS(st) == 4) capped = true;
                else if(!WIFEXITED(st) || WEXITSTATUS(st) != 0) {
                    fprintf(stderr, "bfs worker failed (status %d) at depth %d\n", st, depth);
                    exit(WIFEXITED(st) ? WEXITSTATUS(st) : 70);
                }
            }
            std::vector<Rec> next;
            for(int w = 0; w < W; ++w) {
                std::string sf = base + "_L" + std::to_string(depth) + "w" + std::to_string(w) + ".succ";
                FILE *in = fopen(sf.c_str(), "rb");
                if(!in) { perror("succ-in"); exit(3); }
                Rec r;
                while(get(in, r)) {
                    auto it = seen.find(r.c);
                    if(it == seen.end()) {
                        seen.emplace(r.c, (uint32_t)all.size()); all.push_back(r.h); next.push_back(r); vp::state(); vp::nontrivial(r.c.a); ++n_states;
                        if(n_states % 997 == 1) vp::sample(show(r.h));
                    } else if(((r.c.a >> 7) & 63) == ((uint64_t)r.h.size() & 63) && all[it->second] != r.h && diffjobs.size() < 4096) {
                        diffjobs.push_back({all[it->second], r.h});
                    }
                }
                fclose(in);
                unlink(sf.c_str());
            }
            if(capped) break;
            frontier.swap(next);
            completed_depth = depth + 1;
            vp::trace(frontier.size()); // every frontier history is a complete implementation trace checked step by step
        }
        fixpoint = !capped && frontier.empty();
        if(capped) vp::cap("deadline: depth " + std::to_string(completed_depth) + " completed, deeper levels partial");
        else if(!fixpoint) { /* depth bound reached: exhaustive for all histories up to max_depth */ }
        vp::bound("bfs_completed_depth", completed_depth);
        vp::bound("bfs_max_depth", max_depth);
        vp::bound("bfs_fixpoint", fixpoint ? "true (frontier emptied: all histories of any length over this alphabet)" : "false");
        vp::bound("bfs_states", (long long)n_states);
        vp::bound("bfs_merge_adequacy_checks", (long long)n_merge_checks);
    }
};

} // namespace bfs
