// Harness-owned clock: the library's calls to time() resolve to this definition
// (the library objects are linked statically into the harness executable).
#include <ctime>
namespace vp { time_t g_now = 1000000; }
extern "C" time_t time(time_t *t) noexcept
{
    if(t) *t = vp::g_now;
    return vp::g_now;
}
