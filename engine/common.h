// Common harness runtime: sharding, counters, violation records, JSON result.
// Every check in /verif/checks is one program built on this header. The driver
// (run.py) starts N shards of it, each writes a partial result, the driver
// aggregates them into /verif/evidence/<id>.json.
#pragma once
#include <cstdint>
#include <cstdio>
#include <cstdlib>
#include <cstring>
#include <ctime>
#include <map>
#include <string>
#include <unordered_set>
#include <vector>
#include <chrono>

namespace vp {

struct Ctx {
    std::string id;
    bool thorough = false;
    int shard = 0, nshards = 1;
    std::string out;
    std::string replay;       // non-empty: run only the case with this id
    bool replay_mode = false;
    double deadline_s = 0;    // wall seconds for this shard (0 = none)
    std::chrono::steady_clock::time_point t0;

    uint64_t states = 0, transitions = 0, traces = 0, evaluations = 0;
    std::unordered_set<uint64_t> nontrivial;
    std::map<std::string, uint64_t> outcomes;
    std::vector<std::string> samples;
    std::map<std::string, std::string> bounds;
    std::vector<std::string> caps;
    bool exhaustive = true;

    struct Viol { uint64_t count = 0; std::vector<std::string> cases; std::vector<std::string> details; };
    std::map<std::string, Viol> viol;
    uint64_t replay_hits = 0;
};

inline Ctx &ctx() { static Ctx c; return c; }
// id of the case being executed; printed if a sanitizer or a fatal signal ends the process
inline std::string &current_case() { static std::string s; return s; }

inline void init(int argc, char **argv, const char *id)
{
    Ctx &c = ctx();
    c.id = id;
    c.t0 = std::chrono::steady_clock::now();
    for(int i = 1; i < argc; ++i) {
        std::string a = argv[i];
        auto next = [&]() -> std::string { return i + 1 < argc ? argv[++i] : ""; };
        if(a == "--tier") c.thorough = (next() == "thorough");
        else if(a == "--shard") { std::string s = next(); sscanf(s.c_str(), "%d/%d", &c.shard, &c.nshards); }
        else if(a == "--out") c.out = next();
        else if(a == "--replay") { c.replay = next(); c.replay_mode = true; }
        else if(a == "--deadline") c.deadline_s = atof(next().c_str());
    }
    setenv("TZ", "UTC", 1);
    setenv("LC_ALL", "C", 1);
    tzset();
}

inline bool thorough() { return ctx().thorough; }
inline bool replaying() { return ctx().replay_mode; }
// true if this shard owns top-level case number i
inline bool mine(uint64_t i) { return ctx().replay_mode || (int)(i % (uint64_t)ctx().nshards) == ctx().shard; }
// In replay mode only the named case is executed.
inline bool want(const std::string &case_id)
{
    Ctx &c = ctx();
    if(!c.replay_mode) return true;
    if(case_id == c.replay) { c.replay_hits++; return true; }
    return false;
}
inline double elapsed() { return std::chrono::duration<double>(std::chrono::steady_clock::now() - ctx().t0).count(); }
inline bool deadline_passed()
{
    Ctx &c = ctx();
    return c.deadline_s > 0 && elapsed() > c.deadline_s;
}
inline void cap(const std::string &what) { ctx().caps.push_back(what); ctx().exhaustive = false; }
inline void bound(const std::string &k, const std::string &v) { ctx().bounds[k] = v; }
inline void bound(const std::string &k, long long v) { ctx().bounds[k] = std::to_string(v); }

inline uint64_t fnv(const void *p, size_t n, uint64_t h = 1469598103934665603ULL)
{
    const unsigned char *b = (const unsigned char *)p;
    for(size_t i = 0; i < n; ++i) { h ^= b[i]; h *= 1099511628211ULL; }
    return h;
}
inline uint64_t fnv(const std::string &s, uint64_t h = 1469598103934665603ULL) { return fnv(s.data(), s.size(), h); }

inline void state(uint64_t n = 1) { ctx().states += n; }
inline void transition(uint64_t n = 1) { ctx().transitions += n; }
inline void trace(uint64_t n = 1) { ctx().traces += n; }
inline void eval(uint64_t n = 1) { ctx().evaluations += n; }
inline void nontrivial(uint64_t h) { ctx().nontrivial.insert(h); }
inline void outcome(const std::string &o, uint64_t n = 1) { ctx().outcomes[o] += n; }
inline void sample(const std::string &s, size_t max = 6) { if(ctx().samples.size() < max) ctx().samples.push_back(s); }

// Record a violation. sig: narrow class signature "<clause>|<site>|<shape>";
// case_id: the id with which --replay reproduces it; detail: observed vs expected.
inline void violation(const std::string &sig, const std::string &case_id, const std::string &detail)
{
    Ctx::Viol &v = ctx().viol[sig];
    v.count++;
    if(v.cases.size() < 3) { v.cases.push_back(case_id); v.details.push_back(detail); }
}

inline std::string jesc(const std::string &s)
{
    std::string o;
    for(unsigned char ch : s) {
        if(ch == '"') o += "\\\"";
        else if(ch == '\\') o += "\\\\";
        else if(ch == '\n') o += "\\n";
        else if(ch == '\t') o += "\\t";
        else if(ch < 0x20 || ch >= 0x7f) { char b[8]; snprintf(b, sizeof b, "\\u%04x", ch); o += b; }
        else o += (char)ch;
    }
    return o;
}

inline std::string hex(const void *p, size_t n)
{
    static const char *d = "0123456789abcdef";
    std::string o;
    const unsigned char *b = (const unsigned char *)p;
    for(size_t i = 0; i < n; ++i) { o += d[b[i] >> 4]; o += d[b[i] & 15]; }
    return o;
}
// printable rendering of bytes: printable ASCII kept, others \xNN
inline std::string show(const void *p, size_t n)
{
    std::string o;
    const unsigned char *b = (const unsigned char *)p;
    for(size_t i = 0; i < n; ++i) {
        if(b[i] >= 0x20 && b[i] < 0x7f && b[i] != '\\') o += (char)b[i];
        else { char t[8]; snprintf(t, sizeof t, "\\x%02x", b[i]); o += t; }
    }
    return o;
}
inline std::string show(const std::string &s) { return show(s.data(), s.size()); }

inline int finish()
{
    Ctx &c = ctx();
    FILE *f = c.out.empty() ? stdout : fopen(c.out.c_str(), "w");
    if(!f) { perror("out"); return 3; }
    fprintf(f, "{\"id\":\"%s\",\"shard\":%d,\"nshards\":%d,\"thorough\":%s,\n", c.id.c_str(), c.shard, c.nshards, c.thorough ? "true" : "false");
    fprintf(f, " \"states\":%llu,\"transitions\":%llu,\"traces\":%llu,\"evaluations\":%llu,\"distinct_nontrivial\":%llu,\n",
            (unsigned long long)c.states, (unsigned long long)c.transitions, (unsigned long long)c.traces,
            (unsigned long long)c.evaluations, (unsigned long long)c.nontrivial.size());
    fprintf(f, " \"exhaustive\":%s,\"wall_s\":%.3f,\"replay_hits\":%llu,\n", c.exhaustive ? "true" : "false", elapsed(), (unsigned long long)c.replay_hits);
    fprintf(f, " \"caps\":[");
    for(size_t i = 0; i < c.caps.size(); ++i) fprintf(f, "%s\"%s\"", i ? "," : "", jesc(c.caps[i]).c_str());
    fprintf(f, "],\n \"bounds\":{");
    { bool first = true; for(auto &kv : c.bounds) { fprintf(f, "%s\"%s\":\"%s\"", first ? "" : ",", jesc(kv.first).c_str(), jesc(kv.second).c_str()); first = false; } }
    fprintf(f, "},\n \"outcomes\":{");
    { bool first = true; size_t n = 0; for(auto &kv : c.outcomes) { if(n++ >= 400) break; fprintf(f, "%s\"%s\":%llu", first ? "" : ",", jesc(kv.first).c_str(), (unsigned long long)kv.second); first = false; } }
    fprintf(f, "},\n \"n_outcomes\":%llu,\n \"samples\":[", (unsigned long long)c.outcomes.size());
    for(size_t i = 0; i < c.samples.size(); ++i) fprintf(f, "%s\"%s\"", i ? "," : "", jesc(c.samples[i]).c_str());
    fprintf(f, "],\n \"violations\":{");
    { bool first = true;
      for(auto &kv : c.viol) {
        fprintf(f, "%s\n  \"%s\":{\"count\":%llu,\"cases\":[", first ? "" : ",", jesc(kv.first).c_str(), (unsigned long long)kv.second.count);
        for(size_t i = 0; i < kv.second.cases.size(); ++i) fprintf(f, "%s\"%s\"", i ? "," : "", jesc(kv.second.cases[i]).c_str());
        fprintf(f, "],\"details\":[");
        for(size_t i = 0; i < kv.second.details.size(); ++i) fprintf(f, "%s\"%s\"", i ? "," : "", jesc(kv.second.details[i]).c_str());
        fprintf(f, "]}");
        first = false;
      } }
    fprintf(f, "}}\n");
    if(f != stdout) fclose(f);
    return 0;
}

} // namespace vp

// AddressSanitizer calls this just before it prints a report: say which case was running.
extern "C" __attribute__((used, visibility("default"))) inline void __asan_on_error()
{
    fprintf(stderr, "CASE: %s\n", vp::current_case().c_str());
}
