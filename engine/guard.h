// Exact-size buffers: a buffer of n bytes whose last byte is the last byte of a
// page followed by a PROT_NONE page (placement END), or whose first byte is the
// first byte of a page preceded by a PROT_NONE page (placement BEGIN). Bytes on
// the unprotected side are filled with a canary and verified after the call.
// A SIGSEGV/SIGBUS raised inside guarded() is turned into a return value.
#pragma once
#include <csetjmp>
#include <csignal>
#include <cstdint>
#include <cstdio>
#include <cstdlib>
#include <cstring>
#include <sys/mman.h>
#include <unistd.h>

namespace guard {

static const size_t PAGE = 4096;
static const unsigned char CANARY = 0xC7;

struct Arena {
    unsigned char *base = nullptr; // [guard page][data pages ...][guard page]
    size_t data_pages = 0;
    void init(size_t pages)
    {
        data_pages = pages;
        base = (unsigned char *)mmap(nullptr, (pages + 2) * PAGE, PROT_READ | PROT_WRITE, MAP_PRIVATE | MAP_ANONYMOUS, -1, 0);
        if(base == MAP_FAILED) { perror("mmap"); exit(3); }
        mprotect(base, PAGE, PROT_NONE);
        mprotect(base + (pages + 1) * PAGE, PAGE, PROT_NONE);
    }
    unsigned char *lo() const { return base + PAGE; }
    unsigned char *hi() const { return base + (data_pages + 1) * PAGE; }
    size_t cap() const { return data_pages * PAGE; }
    // buffer of n bytes ending exactly at the upper guard page; slack bytes below it get the canary
    unsigned char *at_end(size_t n, size_t slack = 64)
    {
        unsigned char *p = hi() - n;
        size_t s = (size_t)(p - lo()) < slack ? (size_t)(p - lo()) : slack;
        memset(p - s, CANARY, s);
        cur = p; cur_n = n; cur_slack = s; cur_end = true;
        return p;
    }
    // buffer of n bytes starting exactly after the lower guard page; slack bytes above it get the canary
    unsigned char *at_begin(size_t n, size_t slack = 64)
    {
        unsigned char *p = lo();
        size_t room = cap() - n;
        size_t s = room < slack ? room : slack;
        memset(p + n, CANARY, s);
        cur = p; cur_n = n; cur_slack = s; cur_end = false;
        return p;
    }
    // true if the canary next to the current buffer is intact
    bool canary_ok() const
    {
        const unsigned char *c = cur_end ? cur - cur_slack : cur + cur_n;
        for(size_t i = 0; i < cur_slack; ++i) if(c[i] != CANARY) return false;
        return true;
    }
    unsigned char *cur = nullptr; size_t cur_n = 0, cur_slack = 0; bool cur_end = true;
};

static sigjmp_buf g_jmp;
static volatile sig_atomic_t g_armed = 0;
static void *volatile g_fault_addr = nullptr;

static void on_fault(int sig, siginfo_t *si, void *)
{
    if(g_armed) { g_fault_addr = si->si_addr; g_armed = 0; siglongjmp(g_jmp, sig); }
    // not ours: restore default and re-raise
    signal(sig, SIG_DFL);
    raise(sig);
}

inline void install()
{
    static bool done = false;
    if(done) return;
    done = true;
    static char altstack[1 << 16];
    stack_t ss; ss.ss_sp = altstack; ss.ss_size = sizeof altstack; ss.ss_flags = 0;
    sigaltstack(&ss, nullptr);
    struct sigaction sa; memset(&sa, 0, sizeof sa);
    sa.sa_sigaction = on_fault; sa.sa_flags = SA_SIGINFO | SA_ONSTACK | SA_NODEFER;
    sigaction(SIGSEGV, &sa, nullptr);
    sigaction(SIGBUS, &sa, nullptr);
}

// Runs f(); returns 0 if it completed, the signal number if it faulted.
template <class F> inline int guarded(F &&f)
{
    install();
    int sig = sigsetjmp(g_jmp, 1);
    if(sig == 0) { g_armed = 1; f(); g_armed = 0; return 0; }
    return sig;
}

} // namespace guard
