// Shared small-scope generators for OSC messages: type strings, per-tag value alphabets,
// conversion between the reference representation (ref::Arg) and rtosc_arg_t.
#pragma once
#include <climits>
#include <cstdint>
#include <cstring>
#include <string>
#include <vector>
#include <rtosc/rtosc.h>
#include "refosc.h"

namespace gen {

static const char VALUE_TAGS[] = "ifsbhtdSrmcTFNI"; // the 15 value tags of the statement

inline bool balanced(const std::string &t)
{
    int d = 0;
    for(char c : t) { if(c == '[') ++d; else if(c == ']') { if(--d < 0) return false; } }
    return d == 0;
}

// all strings of length lo..hi over alphabet, brackets well nested
inline void type_strings(const std::string &alphabet, int lo, int hi, std::vector<std::string> &out)
{
    std::vector<std::string> cur = {""};
    for(int len = 0; len <= hi; ++len) {
        if(len >= lo) for(auto &s : cur) if(balanced(s)) out.push_back(s);
        if(len == hi) break;
        std::vector<std::string> nxt;
        for(auto &s : cur) for(char c : alphabet) nxt.push_back(s + c);
        cur.swap(nxt);
    }
}

inline uint32_t fbits(float f) { uint32_t u; memcpy(&u, &f, 4); return u; }
inline uint64_t dbits(double d) { uint64_t u; memcpy(&u, &d, 8); return u; }

// Backing storage for string / blob payloads so that pointers stay valid.
struct Pool {
    std::vector<std::string> strs;
    Pool()
    {
        for(int n = 0; n <= 9; ++n) { std::string s; for(int k = 0; k < n; ++k) s += (char)('a' + (k * 7 + n) % 26); strs.push_back(s); }
        // strings whose bytes are not ASCII (UTF-8 text, bytes >= 0x81 in every position of a word): rtosc copies and compares bytes
        strs.push_back("B\xc3\xa4sse.wav"); strs.push_back("\x81\x82\x83\xff\x85\x80z");
        for(int n : {255, 256, 4095, 4096}) { std::string s; for(int k = 0; k < n; ++k) s += (char)('A' + (k * 5 + n) % 26); strs.push_back(s); }
    }
};
inline Pool &pool() { static Pool p; return p; }

// values(tag, big): the alphabet of values for one tag. `big` adds the 255/256/4095/4096 sizes.
inline std::vector<ref::Arg> values(char t, bool big = false, bool snan = true)
{
    std::vector<ref::Arg> v;
    auto a32 = [&](uint32_t u) { ref::Arg a; a.type = t; a.u32 = u; v.push_back(a); };
    auto a64 = [&](uint64_t u) { ref::Arg a; a.type = t; a.u64 = u; v.push_back(a); };
    switch(t) {
    case 'i': case 'c': case 'r':
        for(uint32_t u : {0u, 1u, 0xffffffffu, 0x80000000u, 0x7fffffffu, 0x01020304u}) a32(u);
        break;
    case 'f':
        for(uint32_t u : {0u, 0x80000000u, fbits(1.0f), 0x00000001u, 0x7f800000u, 0xff800000u, 0x7fc12345u, 0x01020304u}) a32(u);
        if(snan) a32(0x7f812345u); // signalling NaN with payload
        break;
    case 'h': case 't':
        for(uint64_t u : {0ull, 0xffffffffffffffffull, 0x8000000000000000ull, 0x7fffffffffffffffull, 0x0102030405060708ull, 1ull}) a64(u);
        break;
    case 'd':
        for(uint64_t u : {(uint64_t)0, (uint64_t)0x8000000000000000ull, dbits(1.0), (uint64_t)1, (uint64_t)0x7ff0000000000000ull, (uint64_t)0xfff0000000000000ull,
                          (uint64_t)0x7ff8000012345678ull, (uint64_t)0x0102030405060708ull}) a64(u);
        if(snan) a64(0x7ff4000012345678ull);
        break;
    case 's': case 'S':
        for(size_t k = 0; k < pool().strs.size(); ++k) {
            if(!big && k >= 12) break;
            ref::Arg a; a.type = t; a.s = pool().strs[k]; v.push_back(a);
        }
        break;
    case 'b':
        for(size_t k = 0; k < pool().strs.size(); ++k) {
            if(!big && k >= 12) break;
            ref::Arg a; a.type = t; const std::string &s = pool().strs[k];
            a.b.assign(s.begin(), s.end());
            for(size_t j = 0; j < a.b.size(); j += 3) a.b[j] = (uint8_t)(0x80 + j); // non-ASCII and zero-free? no: include zeros
            if(a.b.size() > 1) a.b[1] = 0;
            a.b_len = (uint32_t)a.b.size(); v.push_back(a);
        }
        { ref::Arg a; a.type = t; a.b_null = true; a.b_len = 0; v.push_back(a); }
        { ref::Arg a; a.type = t; a.b_null = true; a.b_len = 5; v.push_back(a); }
        break;
    case 'm':
        for(uint32_t u : {0x00000000u, 0x90407f00u, 0xfff1e2d3u}) {
            ref::Arg a; a.type = t; a.m[0] = u >> 24; a.m[1] = u >> 16; a.m[2] = u >> 8; a.m[3] = u; v.push_back(a);
        }
        break;
    default: break;
    }
    return v;
}

// ref::Arg -> rtosc_arg_t (pointers refer into the ref::Arg, which must outlive the use)
inline rtosc_arg_t to_rtosc(const ref::Arg &a)
{
    rtosc_arg_t r; memset(&r, 0, sizeof r);
    switch(a.type) {
    case 'i': case 'c': case 'r': case 'f': memcpy(&r.i, &a.u32, 4); break;
    case 'h': case 't': case 'd': memcpy(&r.t, &a.u64, 8); break;
    case 'm': memcpy(r.m, a.m, 4); break;
    case 's': case 'S': r.s = a.s.c_str(); break;
    case 'b': r.b.len = (int32_t)a.b_len; r.b.data = a.b_null ? nullptr : (uint8_t *)a.b.data(); break;
    }
    return r;
}

inline std::string show_arg(const ref::Arg &a)
{
    char b[64];
    switch(a.type) {
    case 'i': case 'c': case 'r': case 'f': snprintf(b, sizeof b, "%c:%08x", a.type, a.u32); return b;
    case 'h': case 't': case 'd': snprintf(b, sizeof b, "%c:%016llx", a.type, (unsigned long long)a.u64); return b;
    case 'm': snprintf(b, sizeof b, "m:%02x%02x%02x%02x", a.m[0], a.m[1], a.m[2], a.m[3]); return b;
    case 's': case 'S': snprintf(b, sizeof b, "%c:len%zu", a.type, a.s.size()); return b;
    case 'b': snprintf(b, sizeof b, "b:len%u%s", a.b_len, a.b_null ? "(null)" : ""); return b;
    }
    return "?";
}

// Value vectors for a type string: full cross product when it has <= 2 data tags,
// otherwise "each-used": every position takes every value while the others hold their first
// value, plus the all-last vector. Deterministic.
inline std::vector<std::vector<ref::Arg>> value_vectors(const std::string &types, bool big, size_t full_upto = 2)
{
    std::vector<std::vector<ref::Arg>> alph;
    size_t ndata = 0;
    for(char t : types) if(ref::has_data(t)) ++ndata;
    for(char t : types) if(ref::has_data(t)) alph.push_back(values(t, big && ndata == 1));
    std::vector<std::vector<ref::Arg>> out;
    size_t n = alph.size();
    if(n == 0) { out.push_back({}); return out; }
    if(n <= full_upto) {
        std::vector<size_t> idx(n, 0);
        while(true) {
            std::vector<ref::Arg> v;
            for(size_t k = 0; k < n; ++k) v.push_back(alph[k][idx[k]]);
            out.push_back(v);
            size_t k = n;
            while(k > 0) { --k; if(++idx[k] < alph[k].size()) break; idx[k] = 0; if(k == 0) return out; }
        }
    }
    std::vector<ref::Arg> base;
    for(size_t k = 0; k < n; ++k) base.push_back(alph[k][0]);
    out.push_back(base);
    for(size_t k = 0; k < n; ++k)
        for(size_t j = 1; j < alph[k].size(); ++j) { auto v = base; v[k] = alph[k][j]; out.push_back(v); }
    std::vector<ref::Arg> last;
    for(size_t k = 0; k < n; ++k) last.push_back(alph[k].back());
    out.push_back(last);
    return out;
}

inline std::string address(size_t len)
{
    std::string a = "/";
    for(size_t k = 1; k < len; ++k) a += (char)(k % 7 == 0 ? '/' : 'a' + (k * 3) % 26);
    if(a.size() > 1 && a.back() == '/') a.back() = 'z';
    return a;
}

} // namespace gen
