// Run one case in a forked child so that a fatal outcome (AddressSanitizer report, SIGSEGV, abort)
// becomes an observation of the parent instead of the end of the harness.
#pragma once
#include <string>
#include <sys/wait.h>
#include <unistd.h>

namespace forkcase {

struct Result {
    bool completed = false;   // child ran f() to the end
    bool asan = false;        // AddressSanitizer ended the child (exitcode=77 set by run.py)
    int signal = 0;           // fatal signal, if any
    int exit_code = 0;
    std::string text;         // what f() returned
    std::string describe() const
    {
        if(completed) return "completed";
        if(asan) return "AddressSanitizer report (memory error)";
        if(signal) return "fatal signal " + std::to_string(signal);
        return "exit code " + std::to_string(exit_code);
    }
};

// f: () -> std::string ; runs in the child
template <class F> inline Result run(F &&f)
{
    Result r;
    int fd[2];
    if(pipe(fd)) { perror("pipe"); exit(3); }
    fflush(nullptr);
    pid_t pid = fork();
    if(pid < 0) { perror("fork"); exit(3); }
    if(pid == 0) {
        close(fd[0]);
        std::string s = f();
        s = "K" + s;
        size_t off = 0;
        while(off < s.size()) { ssize_t w = write(fd[1], s.data() + off, s.size() - off); if(w <= 0) break; off += (size_t)w; }
        close(fd[1]);
        _exit(0);
    }
    close(fd[1]);
    char buf[4096]; ssize_t n;
    std::string all;
    while((n = read(fd[0], buf, sizeof buf)) > 0) all.append(buf, (size_t)n);
    close(fd[0]);
    int st = 0; waitpid(pid, &st, 0);
    if(WIFEXITED(st)) {
        r.exit_code = WEXITSTATUS(st);
        if(r.exit_code == 0 && !all.empty() && all[0] == 'K') { r.completed = true; r.text = all.substr(1); }
        else if(r.exit_code == 77) r.asan = true;
    } else if(WIFSIGNALED(st)) r.signal = WTERMSIG(st);
    return r;
}

} // namespace forkcase
