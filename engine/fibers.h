// Two cooperative fibers on one OS thread (ucontext): the "threads" of the C06 harness. A fiber runs
// until its next synchronisation point, where it calls Sched::yield() *before* performing the
// operation; the scheduler then decides which fiber performs its pending operation next. A schedule
// is therefore a plain sequence of fiber ids and every execution is deterministic.
#pragma once
#include <cstdint>
#include <cstdlib>
#include <cstring>
#include <functional>
#include <ucontext.h>
#include <vector>

namespace sched {

struct Sched;
static Sched *g_trampoline_target = nullptr;

struct Sched {
    static const size_t STACK = 128 * 1024;
    ucontext_t main_ctx;
    ucontext_t ctx[2];
    char *stack[2] = {nullptr, nullptr};
    bool started[2] = {false, false}, finished[2] = {true, true};
    std::function<void()> body[2];
    int cur = -1;               // fiber currently executing, -1 = scheduler / sequential code
    uint64_t steps = 0;

    Sched() {}
    Sched(const Sched &) = delete;
    ~Sched() { for(int i = 0; i < 2; ++i) free(stack[i]); }

    static void trampoline(int i)
    {
        Sched *s = g_trampoline_target;
        s->body[i]();
        s->finished[i] = true;
        s->cur = -1;
        swapcontext(&s->ctx[i], &s->main_ctx);
        abort(); // never resumed
    }
    void spawn(int i, std::function<void()> f)
    {
        body[i] = std::move(f);
        if(!stack[i]) stack[i] = (char *)malloc(STACK);
        getcontext(&ctx[i]);
        ctx[i].uc_stack.ss_sp = stack[i];
        ctx[i].uc_stack.ss_size = STACK;
        ctx[i].uc_link = nullptr;
        makecontext(&ctx[i], (void (*)())trampoline, 1, i);
        started[i] = false; finished[i] = false;
    }
    bool enabled(int i) const { return !finished[i]; }
    bool in_fiber() const { return cur >= 0; }
    // run fiber i until its next yield (or its end)
    void step(int i)
    {
        g_trampoline_target = this;
        cur = i; started[i] = true; ++steps;
        swapcontext(&main_ctx, &ctx[i]);
        cur = -1;
    }
    // called inside a fiber at a synchronisation point, before the operation is performed
    void yield()
    {
        int i = cur;
        cur = -1;
        swapcontext(&ctx[i], &main_ctx);
        cur = i;
    }
};

} // namespace sched
