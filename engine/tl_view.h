#pragma once
#include <cstddef>
namespace rtosc { class ThreadLink; }
namespace vpsched {
struct TlView {
    char *ring; size_t size;
    long *write, *read, *lookahead;   // raw storage of the three indices
    bool indices_atomic;              // all three are std::atomic objects
    char *write_buffer, *read_buffer; size_t max_msg;
};
TlView view(rtosc::ThreadLink &t);
}
