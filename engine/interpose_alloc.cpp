// Link-time interposition for the realtime-safety check (C03): the harness executable defines the
// allocator entry points, the pthread lock entry points and write(2); the library objects are linked
// statically into the same executable, so their calls resolve here. Calls are counted only while a
// realtime section is open.
#include <cstddef>
#include <cstdint>
#include <cstdlib>
#include <cstring>
#include <dlfcn.h>
#include <new>
#include <pthread.h>
#include <sys/syscall.h>
#include <unistd.h>

extern "C" {
void *__libc_malloc(size_t);
void *__libc_calloc(size_t, size_t);
void *__libc_realloc(void *, size_t);
void __libc_free(void *);
void *__libc_memalign(size_t, size_t);
}

namespace vp_rt {
volatile int depth = 0;
volatile unsigned long n_alloc = 0, n_free = 0, n_lock = 0, n_write = 0;
const char *volatile last_what = "";
inline void hit(volatile unsigned long &c, const char *what) { if(depth > 0) { ++c; last_what = what; } }
}

extern "C" {
void *malloc(size_t n) { vp_rt::hit(vp_rt::n_alloc, "malloc"); return __libc_malloc(n); }
void *calloc(size_t a, size_t b) { vp_rt::hit(vp_rt::n_alloc, "calloc"); return __libc_calloc(a, b); }
void *realloc(void *p, size_t n) { vp_rt::hit(vp_rt::n_alloc, "realloc"); return __libc_realloc(p, n); }
void free(void *p) { if(p) vp_rt::hit(vp_rt::n_free, "free"); __libc_free(p); }
void *memalign(size_t al, size_t n) { vp_rt::hit(vp_rt::n_alloc, "memalign"); return __libc_memalign(al, n); }
void *aligned_alloc(size_t al, size_t n) { vp_rt::hit(vp_rt::n_alloc, "aligned_alloc"); return __libc_memalign(al, n); }
int posix_memalign(void **out, size_t al, size_t n)
{
    vp_rt::hit(vp_rt::n_alloc, "posix_memalign");
    void *p = __libc_memalign(al, n);
    if(!p) return 12;
    *out = p; return 0;
}

typedef int (*mutex_fn)(pthread_mutex_t *);
typedef int (*rw_fn)(pthread_rwlock_t *);
static void *real(const char *name) { return dlsym(RTLD_NEXT, name); }
int pthread_mutex_lock(pthread_mutex_t *m) { vp_rt::hit(vp_rt::n_lock, "pthread_mutex_lock"); static mutex_fn f = (mutex_fn)real("pthread_mutex_lock"); return f(m); }
int pthread_mutex_trylock(pthread_mutex_t *m) { vp_rt::hit(vp_rt::n_lock, "pthread_mutex_trylock"); static mutex_fn f = (mutex_fn)real("pthread_mutex_trylock"); return f(m); }
int pthread_mutex_timedlock(pthread_mutex_t *m, const struct timespec *t)
{
    vp_rt::hit(vp_rt::n_lock, "pthread_mutex_timedlock");
    typedef int (*fn)(pthread_mutex_t *, const struct timespec *); static fn f = (fn)real("pthread_mutex_timedlock"); return f(m, t);
}
int pthread_rwlock_rdlock(pthread_rwlock_t *l) { vp_rt::hit(vp_rt::n_lock, "pthread_rwlock_rdlock"); static rw_fn f = (rw_fn)real("pthread_rwlock_rdlock"); return f(l); }
int pthread_rwlock_wrlock(pthread_rwlock_t *l) { vp_rt::hit(vp_rt::n_lock, "pthread_rwlock_wrlock"); static rw_fn f = (rw_fn)real("pthread_rwlock_wrlock"); return f(l); }
int pthread_rwlock_tryrdlock(pthread_rwlock_t *l) { vp_rt::hit(vp_rt::n_lock, "pthread_rwlock_tryrdlock"); static rw_fn f = (rw_fn)real("pthread_rwlock_tryrdlock"); return f(l); }
int pthread_rwlock_trywrlock(pthread_rwlock_t *l) { vp_rt::hit(vp_rt::n_lock, "pthread_rwlock_trywrlock"); static rw_fn f = (rw_fn)real("pthread_rwlock_trywrlock"); return f(l); }
int pthread_cond_wait(pthread_cond_t *c, pthread_mutex_t *m)
{
    vp_rt::hit(vp_rt::n_lock, "pthread_cond_wait");
    typedef int (*fn)(pthread_cond_t *, pthread_mutex_t *); static fn f = (fn)real("pthread_cond_wait"); return f(c, m);
}
int pthread_cond_timedwait(pthread_cond_t *c, pthread_mutex_t *m, const struct timespec *t)
{
    vp_rt::hit(vp_rt::n_lock, "pthread_cond_timedwait");
    typedef int (*fn)(pthread_cond_t *, pthread_mutex_t *, const struct timespec *); static fn f = (fn)real("pthread_cond_timedwait"); return f(c, m, t);
}
// stdio output takes the stream lock inside libc without a PLT call; it shows up here as write(2)
ssize_t write(int fd, const void *buf, size_t n) { vp_rt::hit(vp_rt::n_write, "write"); return syscall(SYS_write, fd, buf, n); }
}

void *operator new(size_t n) { void *p = malloc(n ? n : 1); if(!p) abort(); return p; }
void *operator new[](size_t n) { void *p = malloc(n ? n : 1); if(!p) abort(); return p; }
void *operator new(size_t n, const std::nothrow_t &) noexcept { return malloc(n ? n : 1); }
void *operator new[](size_t n, const std::nothrow_t &) noexcept { return malloc(n ? n : 1); }
void *operator new(size_t n, std::align_val_t al) { void *p = memalign((size_t)al, n ? n : 1); if(!p) abort(); return p; }
void *operator new[](size_t n, std::align_val_t al) { void *p = memalign((size_t)al, n ? n : 1); if(!p) abort(); return p; }
void operator delete(void *p) noexcept { free(p); }
void operator delete[](void *p) noexcept { free(p); }
void operator delete(void *p, size_t) noexcept { free(p); }
void operator delete[](void *p, size_t) noexcept { free(p); }
void operator delete(void *p, std::align_val_t) noexcept { free(p); }
void operator delete[](void *p, std::align_val_t) noexcept { free(p); }
void operator delete(void *p, size_t, std::align_val_t) noexcept { free(p); }
void operator delete[](void *p, size_t, std::align_val_t) noexcept { free(p); }
void operator delete(void *p, const std::nothrow_t &) noexcept { free(p); }
void operator delete[](void *p, const std::nothrow_t &) noexcept { free(p); }
