// Small-scope generator for bundle elements (messages and nested bundles), shared by C02/C03/C08.
// All bytes come from the reference encoder (refosc.h).
#pragma once
#include <string>
#include <vector>
#include "refosc.h"

namespace bgen {

struct Elem { std::string bytes; int depth; std::string name; }; // depth 0 = plain message

inline std::vector<Elem> messages()
{
    std::vector<Elem> v;
    auto A32 = [](char t, uint32_t u) { ref::Arg a; a.type = t; a.u32 = u; return a; };
    { v.push_back({ref::encode("/a", "", {}), 0, "m8"}); }
    { v.push_back({ref::encode("/abcd", "", {}), 0, "m12"}); }
    { ref::Arg s; s.type = 's'; s.s = "hello"; v.push_back({ref::encode("/s", "s", {s}), 0, "m16s"}); }
    { ref::Arg b; b.type = 'b'; b.b = {1, 0, 0xff, 4, 5}; b.b_len = 5; v.push_back({ref::encode("/b", "b", {b}), 0, "m20b"}); }
    { ref::Arg h; h.type = 'h'; h.u64 = 0x0102030405060708ull; v.push_back({ref::encode("/hi12", "hi", {h, A32('i', 0x80000001u)}), 0, "m24hi"}); }
    // elements whose size needs a byte >= 0x80 in the size field (132 = 0x84, 384 = 0x180, 65540 = 0x10004 bytes)
    { ref::Arg s; s.type = 's'; s.s = std::string(119, 'L'); v.push_back({ref::encode("/big", "s", {s}), 0, "m132s"}); }
    { ref::Arg b; b.type = 'b'; b.b.assign(368, 0x81); b.b_len = 368; v.push_back({ref::encode("/blob", "b", {b}), 0, "m384b"}); }
    return v;
}

// the last five: bytes that mean something elsewhere in a message (',' '/' '#', the bundle marker itself) in the seconds and fraction words
static const uint64_t TIMETAGS[] = {0ull, 1ull, 0xffffffffull, 0x100000000ull, 0x8000000000000000ull, 0xffffffffffffffffull, 0x0102030405060708ull,
                                    0x2c00000000000000ull, 0x0000002c80000000ull, 0x002c00002f000023ull, 0x2f2f2f2f2c2c2c2cull, 0x2362756e646c6500ull};
static const int N_TIMETAGS = 12;

// all sequences of length lo..hi over n symbols, as index vectors
inline void sequences(size_t n, int lo, int hi, std::vector<std::vector<int>> &out)
{
    std::vector<std::vector<int>> cur = {{}};
    for(int len = 0; len <= hi; ++len) {
        if(len >= lo) out.insert(out.end(), cur.begin(), cur.end());
        if(len == hi) break;
        std::vector<std::vector<int>> nxt;
        for(auto &s : cur) for(size_t k = 0; k < n; ++k) { auto t = s; t.push_back((int)k); nxt.push_back(t); }
        cur.swap(nxt);
    }
}

// nested bundles of depth 1..maxdepth: depth-d bundles are the bundles of all sequences of length 0..2
// over (a) at depth 1: all messages; (b) at depth d>1: four representatives of depth d-1 (first, an inner
// one, the longest, the last) plus the 8-byte message. Time tags rotate deterministically.
inline std::vector<std::vector<Elem>> nested(int maxdepth)
{
    std::vector<std::vector<Elem>> by_depth(maxdepth + 1);
    by_depth[0] = messages();
    for(int d = 1; d <= maxdepth; ++d) {
        std::vector<Elem> alph;
        if(d == 1) alph = by_depth[0];
        else {
            const auto &p = by_depth[d - 1];
            size_t longest = 0; for(size_t i = 0; i < p.size(); ++i) if(p[i].bytes.size() > p[longest].bytes.size()) longest = i;
            alph.push_back(p[0]); alph.push_back(p[p.size() / 3]); alph.push_back(p[longest]); alph.push_back(p.back());
            alph.push_back(by_depth[0][0]);
        }
        std::vector<std::vector<int>> seqs;
        sequences(alph.size(), 0, 2, seqs);
        size_t k = 0;
        for(auto &s : seqs) {
            std::vector<std::string> e; std::string nm = "B" + std::to_string(d) + "(";
            for(int i : s) { e.push_back(alph[i].bytes); nm += alph[i].name + ","; }
            nm += ")";
            by_depth[d].push_back({ref::bundle(TIMETAGS[(k++ + d) % N_TIMETAGS], e), d, nm});
        }
    }
    return by_depth;
}

// the element alphabet used for top-level sequences: all 5 messages + representatives of each nesting depth
inline std::vector<Elem> alphabet(int maxdepth)
{
    auto nd = nested(maxdepth);
    std::vector<Elem> a = nd[0];
    for(int d = 1; d <= maxdepth; ++d) {
        const auto &p = nd[d];
        size_t longest = 0; for(size_t i = 0; i < p.size(); ++i) if(p[i].bytes.size() > p[longest].bytes.size()) longest = i;
        a.push_back(p[0]);                 // empty bundle
        a.push_back(p[1]);                 // one element
        if(d <= 2) { a.push_back(p[p.size() / 2]); a.push_back(p[longest]); }
        else a.push_back(p[longest]);
    }
    return a;
}

} // namespace bgen
