// The hooked build of thread-link.cpp: pre-include + the unmodified source + a view of the private
// state for the harness. Compiled with -DVP_TL_SRC="<repo>/src/cpp/thread-link.cpp" -fno-access-control.
#include "tl_hook.h"
#include VP_TL_SRC
#undef memcpy
#undef rtosc_message_ring_length
#include "tl_view.h"

// the trick must have taken effect, and the indices must still be atomics
static_assert(std::atomic<long>::vp_hooked, "std::atomic was not replaced in the ThreadLink translation unit");
static_assert(std::is_same<decltype(rtosc::internal_ringbuffer_t::write), std::atomic<signed long>>::value, "ring write index is no longer std::atomic<off_t>");
static_assert(std::is_same<decltype(rtosc::internal_ringbuffer_t::read), std::atomic<signed long>>::value, "ring read index is no longer std::atomic<off_t>");
static_assert(std::is_same<decltype(rtosc::internal_ringbuffer_t::read_lookahead), std::atomic<signed long>>::value, "ring lookahead index is no longer std::atomic<off_t>");

namespace vpsched {
TlView view(rtosc::ThreadLink &t)
{
    TlView v;
    v.ring = t.ring->buffer; v.size = t.ring->size;
    v.write = &t.ring->write.v; v.read = &t.ring->read.v; v.lookahead = &t.ring->read_lookahead.v;
    v.write_buffer = t.write_buffer; v.read_buffer = t.read_buffer; v.max_msg = t.MaxMsg;
    return v;
}
}
