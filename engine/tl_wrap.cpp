// The hooked build of thread-link.cpp: pre-include + the unmodified source + a view of the private
// state for the harness. Compiled with -DVP_TL_SRC="<repo>/src/cpp/thread-link.cpp" -fno-access-control.
#include "tl_hook.h"
#include VP_TL_SRC
#undef memcpy
#undef rtosc_message_ring_length
#include "tl_view.h"

// the trick must have taken effect; whether the indices are still atomics is reported to the harness (a plain or volatile index
// shared by the two threads is a data race by definition, which the check reports as a violation rather than a build failure)
static_assert(std::atomic<long>::vp_hooked, "std::atomic was not replaced in the ThreadLink translation unit");
template<class T> struct vp_raw { static const bool atomic = false; static long *p(const volatile T &x) { static_assert(sizeof(T) == sizeof(long), "ring index changed size"); return (long *)const_cast<T *>(&x); } };
template<class U> struct vp_raw<std::atomic<U>> { static const bool atomic = true; static long *p(std::atomic<U> &x) { static_assert(sizeof(x.v) == sizeof(long), "ring index changed size"); return (long *)&x.v; } };
#define VP_RAW(m) vp_raw<std::remove_volatile<decltype(rtosc::internal_ringbuffer_t::m)>::type>

namespace vpsched {
TlView view(rtosc::ThreadLink &t)
{
    TlView v;
    v.ring = t.ring->buffer; v.size = t.ring->size;
    v.write = VP_RAW(write)::p(t.ring->write); v.read = VP_RAW(read)::p(t.ring->read); v.lookahead = VP_RAW(read_lookahead)::p(t.ring->read_lookahead);
    v.indices_atomic = VP_RAW(write)::atomic && VP_RAW(read)::atomic && VP_RAW(read_lookahead)::atomic;
    v.write_buffer = t.write_buffer; v.read_buffer = t.read_buffer; v.max_msg = t.MaxMsg;
    return v;
}
}
