// Reference OSC 1.0 codec, written from the specification text (opensoundcontrol.org/spec-1_0):
//   OSC-string : ASCII chars, then 1-4 NUL so that the total is a multiple of 4
//   OSC-blob   : int32 size (big endian), size bytes, then 0-3 NUL to a multiple of 4
//   message    : address OSC-string, type tag OSC-string beginning with ',', then the arguments
//   int32/float32 4 bytes big endian; int64/timetag/double 8 bytes big endian; midi 4 bytes as given
//   T F N I [ ] carry no argument bytes
//   bundle     : "#bundle\0", 8-byte time tag, then (int32 size, element)*
// Nothing in here is derived from the implementation under test.
#pragma once
#include <cstdint>
#include <cstring>
#include <string>
#include <vector>

namespace ref {

struct Arg {
    char type = 0;
    uint32_t u32 = 0;     // i f c r (bit pattern)
    uint64_t u64 = 0;     // h t d (bit pattern)
    uint8_t m[4] = {0, 0, 0, 0};
    std::string s;        // s S
    std::vector<uint8_t> b;
    bool b_null = false;  // blob given with NULL data pointer: size bytes of zero are expected
    uint32_t b_len = 0;
    size_t off = 0;       // decoder: offset of the value (string start / blob data start) in the buffer
};

inline bool has_data(char t) { return strchr("ifsbhtdSrmc", t) && t; }
inline bool known_tag(char t) { return t && strchr("ifsbhtdSrmcTFNI[]", t); }

inline void put_str(std::string &o, const std::string &s)
{
    o += s;
    size_t pad = 4 - s.size() % 4;
    o.append(pad, '\0');
}
inline void put32(std::string &o, uint32_t v) { for(int k = 3; k >= 0; --k) o += (char)((v >> (8 * k)) & 0xff); }
inline void put64(std::string &o, uint64_t v) { for(int k = 7; k >= 0; --k) o += (char)((v >> (8 * k)) & 0xff); }

// args: one entry per data-carrying tag of `types`, in order
inline std::string encode(const std::string &addr, const std::string &types, const std::vector<Arg> &args)
{
    std::string o;
    put_str(o, addr);
    put_str(o, "," + types);
    size_t k = 0;
    for(char t : types) {
        if(!has_data(t)) continue;
        const Arg &a = args[k++];
        switch(t) {
        case 'i': case 'f': case 'c': case 'r': put32(o, a.u32); break;
        case 'h': case 't': case 'd': put64(o, a.u64); break;
        case 'm': o.append((const char *)a.m, 4); break;
        case 's': case 'S': put_str(o, a.s); break;
        case 'b': {
            put32(o, a.b_len);
            if(a.b_null) o.append(a.b_len, '\0');
            else o.append((const char *)a.b.data(), a.b_len);
            while(o.size() % 4) o += '\0';
            break; }
        }
    }
    return o;
}

inline std::string bundle(uint64_t tt, const std::vector<std::string> &elems)
{
    std::string o("#bundle\0", 8);
    put64(o, tt);
    for(auto &e : elems) { put32(o, (uint32_t)e.size()); o += e; }
    return o;
}

struct Decoded {
    bool ok = false;
    const char *why = "";
    std::string addr, types;
    std::vector<Arg> args;   // one per data-carrying *known* tag
    size_t types_off = 0;    // offset of first tag character (after ',')
    size_t length = 0;       // offset one past the last argument
    bool unknown_tags = false;
};

inline uint32_t get32(const uint8_t *p) { return ((uint32_t)p[0] << 24) | ((uint32_t)p[1] << 16) | ((uint32_t)p[2] << 8) | p[3]; }
inline uint64_t get64(const uint8_t *p) { return ((uint64_t)get32(p) << 32) | get32(p + 4); }

// Strict in structure (everything must lie inside n bytes, at the aligned places),
// lenient only about the *content* of padding bytes after string/blob arguments.
inline Decoded decode(const uint8_t *buf, size_t n)
{
    Decoded d;
    size_t p = 0;
    while(p < n && buf[p]) ++p;
    if(p == n) { d.why = "address not terminated"; return d; }
    d.addr.assign((const char *)buf, p);
    p += 4 - p % 4;
    if(p >= n) { d.why = "no type tag string"; return d; }
    if(buf[p] != ',') { d.why = "type tag string does not start with ','"; return d; }
    size_t q = p + 1;
    while(q < n && buf[q]) ++q;
    if(q == n) { d.why = "type tags not terminated"; return d; }
    d.types.assign((const char *)buf + p + 1, q - p - 1);
    d.types_off = p + 1;
    p = q + (4 - (q - p) % 4);   // p was the aligned start of the type tag OSC-string
    // note: (q - oldp) is the length of ",tags"
    for(char t : d.types) {
        if(!known_tag(t)) { d.unknown_tags = true; continue; }
        if(!has_data(t)) continue;
        Arg a; a.type = t;
        switch(t) {
        case 'i': case 'f': case 'c': case 'r':
            if(p + 4 > n) { d.why = "4-byte argument outside buffer"; return d; }
            a.off = p; a.u32 = get32(buf + p); p += 4; break;
        case 'm':
            if(p + 4 > n) { d.why = "midi argument outside buffer"; return d; }
            a.off = p; memcpy(a.m, buf + p, 4); p += 4; break;
        case 'h': case 't': case 'd':
            if(p + 8 > n) { d.why = "8-byte argument outside buffer"; return d; }
            a.off = p; a.u64 = get64(buf + p); p += 8; break;
        case 's': case 'S': {
            size_t e = p;
            while(e < n && buf[e]) ++e;
            if(e >= n) { d.why = "string argument not terminated"; return d; }
            a.off = p; a.s.assign((const char *)buf + p, e - p);
            p = e + (4 - (e - p) % 4);
            if(p > n) { d.why = "string padding outside buffer"; return d; }
            break; }
        case 'b': {
            if(p + 4 > n) { d.why = "blob size outside buffer"; return d; }
            uint32_t len = get32(buf + p);
            p += 4;
            if((uint64_t)len > (uint64_t)(n - p)) { d.why = "blob data outside buffer"; return d; }
            a.off = p; a.b_len = len; a.b.assign(buf + p, buf + p + len);
            p += len;
            while(p % 4) ++p;    // messages start aligned, so absolute alignment == relative alignment
            if(p > n) { d.why = "blob padding outside buffer"; return d; }
            break; }
        }
        d.args.push_back(a);
    }
    d.length = p;
    d.ok = true;
    return d;
}

} // namespace ref
