// Calling the library's varargs constructors with argument lists chosen at run time:
// real C varargs calls through a variadic template dispatcher (up to 4 C arguments),
// a hand-built SysV x86-64 va_list for rtosc_vmessage, and rtosc_bundle with 0..8 elements.
#pragma once
#include <cstdarg>
#include <cstring>
#include <string>
#include <vector>
#include <rtosc/rtosc.h>
#include "refosc.h"

#if !defined(__x86_64__) || !defined(__linux__)
#error "the hand-built va_list below assumes the SysV x86-64 ABI"
#endif

namespace varcall {

// ---- real C varargs calls through a variadic template dispatcher ------------------------------------
struct CArg { enum K { INT, I64, DBL, PTR } k; int i; int64_t h; double d; const void *p; };

template <class... A>
static inline size_t call_varargs(char *buf, size_t len, const char *addr, const char *types, const CArg *c, int n, A... a)
{
    if(n == 0) return rtosc_message(buf, len, addr, types, a...);
    if constexpr(sizeof...(A) < 4) {
        switch(c->k) {
        case CArg::INT: return call_varargs(buf, len, addr, types, c + 1, n - 1, a..., c->i);
        case CArg::I64: return call_varargs(buf, len, addr, types, c + 1, n - 1, a..., c->h);
        case CArg::DBL: return call_varargs(buf, len, addr, types, c + 1, n - 1, a..., c->d);
        case CArg::PTR: return call_varargs(buf, len, addr, types, c + 1, n - 1, a..., c->p);
        }
    }
    abort();
}

// hand-built SysV va_list: all arguments in the overflow area, one 8-byte slot each
static inline size_t call_valist(char *buf, size_t len, const char *addr, const char *types, const CArg *c, int n)
{
    static_assert(sizeof(va_list) == 24, "unexpected va_list layout");
    uint64_t slots[512];
    for(int k = 0; k < n; ++k) {
        slots[k] = 0;
        switch(c[k].k) {
        case CArg::INT: { int64_t v = c[k].i; memcpy(&slots[k], &v, 8); break; }
        case CArg::I64: memcpy(&slots[k], &c[k].h, 8); break;
        case CArg::DBL: memcpy(&slots[k], &c[k].d, 8); break;
        case CArg::PTR: memcpy(&slots[k], &c[k].p, 8); break;
        }
    }
    struct { unsigned gp_offset, fp_offset; void *overflow_arg_area, *reg_save_area; } tag = {48, 176, slots, nullptr};
    static_assert(sizeof tag == sizeof(va_list), "unexpected va_list layout");
    va_list va;
    memcpy(va, &tag, sizeof tag);
    return rtosc_vmessage(buf, len, addr, types, va);
}

static inline float f_from_bits(uint32_t u) { float f; memcpy(&f, &u, 4); return f; }
static inline double d_from_bits(uint64_t u) { double d; memcpy(&d, &u, 8); return d; }
static inline bool is_snan32(uint32_t u) { return (u & 0x7f800000u) == 0x7f800000u && (u & 0x007fffffu) && !(u & 0x00400000u); }

static inline int flatten(const std::string &types, const std::vector<ref::Arg> &args, CArg *c, bool &has_snan_f)
{
    int n = 0; size_t k = 0;
    has_snan_f = false;
    for(char t : types) {
        if(!ref::has_data(t)) continue;
        const ref::Arg &a = args[k++];
        CArg x; memset(&x, 0, sizeof x);
        switch(t) {
        case 'i': case 'c': case 'r': x.k = CArg::INT; x.i = (int32_t)a.u32; c[n++] = x; break;
        case 'h': case 't': x.k = CArg::I64; x.h = (int64_t)a.u64; c[n++] = x; break;
        case 'd': x.k = CArg::DBL; x.d = d_from_bits(a.u64); c[n++] = x; break;
        case 'f': x.k = CArg::DBL; if(is_snan32(a.u32)) has_snan_f = true; x.d = (double)f_from_bits(a.u32); c[n++] = x; break;
        case 's': case 'S': x.k = CArg::PTR; x.p = a.s.c_str(); c[n++] = x; break;
        case 'm': x.k = CArg::PTR; x.p = a.m; c[n++] = x; break;
        case 'b': x.k = CArg::INT; x.i = (int32_t)a.b_len; c[n++] = x;
                  x.k = CArg::PTR; x.p = a.b_null ? nullptr : a.b.data(); c[n++] = x; break;
        }
    }
    return n;
}


static inline size_t call_bundle(char *buf, size_t len, uint64_t tt, const std::vector<const char *> &e)
{
    switch(e.size()) {
    case 0: return rtosc_bundle(buf, len, tt, 0);
    case 1: return rtosc_bundle(buf, len, tt, 1, e[0]);
    case 2: return rtosc_bundle(buf, len, tt, 2, e[0], e[1]);
    case 3: return rtosc_bundle(buf, len, tt, 3, e[0], e[1], e[2]);
    case 4: return rtosc_bundle(buf, len, tt, 4, e[0], e[1], e[2], e[3]);
    case 5: return rtosc_bundle(buf, len, tt, 5, e[0], e[1], e[2], e[3], e[4]);
    case 6: return rtosc_bundle(buf, len, tt, 6, e[0], e[1], e[2], e[3], e[4], e[5]);
    case 7: return rtosc_bundle(buf, len, tt, 7, e[0], e[1], e[2], e[3], e[4], e[5], e[6]);
    case 8: return rtosc_bundle(buf, len, tt, 8, e[0], e[1], e[2], e[3], e[4], e[5], e[6], e[7]);
    }
    // 9..40 elements: the callee reads exactly `elms` pointers; the unused trailing variadic arguments are null
    if(e.size() <= 40) {
        const char *a[40] = {nullptr};
        for(size_t i = 0; i < e.size(); ++i) a[i] = e[i];
#define VP8(k) a[k], a[k + 1], a[k + 2], a[k + 3], a[k + 4], a[k + 5], a[k + 6], a[k + 7]
        return rtosc_bundle(buf, len, tt, (int)e.size(), VP8(0), VP8(8), VP8(16), VP8(24), VP8(32));
#undef VP8
    }
    abort();
}

} // namespace varcall
