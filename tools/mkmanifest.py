#!/usr/bin/env python3
"""Regenerates /verif/MANIFEST.json from the table below (run after adding a check)."""
import json, os
V = os.path.dirname(os.path.dirname(os.path.abspath(__file__)))
props = [json.loads(l) for l in open(os.path.join(V, "properties.jsonl"))]

# id -> (engine, technique, level text, level note, DESIGN section)
C = {
 "C01": ("enum", "exhaustive small-scope enumeration of messages against a reference OSC codec",
         "Every message of an explicitly generated family (all well-nested type strings up to length 3 over all 17 symbols, longer ones over size-class representatives, boundary values per tag, address lengths 1..9/64) is built by all four constructors and read back by all accessors of the real library and compared with an encoder/decoder written from the OSC 1.0 specification. Exhaustive within the stated family; says nothing about values outside the alphabets.",
         "reference codec engine/refosc.h; SysV x86-64 va_list layout for the rtosc_vmessage path"),
 "C02": ("enum", "exhaustive enumeration of messages/bundles x every capacity, guard pages and forked ASan cases",
         "Every message and bundle of a small-scope family is constructed into exact-size destinations of EVERY capacity 0..needed+8 that touch a PROT_NONE page (both sides) with canaries; fail-closed and exact-size clauses are checked on each; the library's own fixed buffers (ThreadLink MaxMsg buffers, RtData's 8192-byte stack buffer) are driven around their limits under AddressSanitizer, one forked child per case.",
         "page granularity 4096; AddressSanitizer for the C++ sites; reference encoder"),
 "C03": ("enum", "exhaustive enumeration of realtime operations over the small-scope input families under an interposed allocator/lock/stream layer",
         "Every message, bundle, pattern match, dispatch (hashed, linear, enumerated, nested tables, default handler, matching / non-matching / oversized messages, with and without location buffer), macro-generated parameter port callback with default reply/broadcast forwarding, and ThreadLink operation of the enumerated families runs inside a marked realtime section in which any call to the allocator, operator new/delete, a pthread lock or write(2) is counted; all counters must stay zero.",
         "entry points interposed at link time; self-test at start-up; locks inside libc other than via write(2) are invisible"),
 "C04": ("enum", "exhaustive enumeration of port tables (all subsets of a name universe) x derived addresses against a reference matcher",
         "Every non-empty subset of an 11-name (thorough 16) universe is built as a real Ports table in four variants with/without default handler, plus 2- and 3-level nestings; each is dispatched every address derived by single-character edits in three dispatch modes; invocations, runtime object, d.loc, d.port and d.matches are compared with a level-by-level reference matcher. Exhaustive over that family, which is what makes the library's heuristic perfect hash vary.",
         "reference matcher engine/refmatch.h; recording callbacks replicate rRecurCb for sub-trees"),
 "C05": ("enum", "exhaustive small-scope enumeration of (pattern, address, type string) against a backtracking reference matcher",
         "All patterns of the documented grammar up to a size bound x all addresses over an 11-letter alphabet up to length 4 (thorough 5) x 9 type strings (2.6e8 / 2.5e10 calls) are decided by rtosc_match and rtosc_match_path and compared with a three-valued reference (must / must not / don't care for type extensions), plus a structured family for indices with leading zeros and up to 9 digits.",
         "reference matcher written from the statement; ambiguous '#N<digit>' patterns not generated"),
 "C06": ("sched+bfs", "stateless schedule exploration with iterated preemption bound + explicit-state BFS to a fixpoint over the real ThreadLink under a controlled scheduler",
         "The unmodified thread-link.cpp runs with every atomic access, ring memcpy and length scan as a scheduling point of a two-fiber scheduler. Part A explores ALL schedules with up to 2 (thorough 3) preemptions of about 19000 harness instances (rings 16x2, 16x3 and the 54-byte ring 18x3, start offsets, prefill, writer/reader programs over 8 kinds of writes incl. blobs and over-long bundles); part B explores the full state graph of looping writer and reader on small rings to a fixpoint. Each execution is checked by an online linearizability monitor against the sequential FIFO spec, a vector-clock race detector honouring memory_order, the region invariant and a final drain.",
         "SC interleavings at hooked accesses + DRF argument; compiler implements C++11 atomics correctly; one writer, one reader"),
 "C07": ("enum", "exhaustive enumeration of all short byte strings + deviation-bounded mutation of all valid small messages, on guard-paged exact-size buffers",
         "ALL byte strings of length 0..7 (thorough 0..9) over a 12-byte alphabet, every single (thorough: every pair of byte) deviation of every valid message of a small family, and size-field edits/truncations of bundles are fed to rtosc_message_length / rtosc_valid_message_p in exact-size buffers touching a PROT_NONE page, with a watchdog for termination; whatever is accepted must decode identically with an independent strict decoder through every accessor, with all pointers inside the buffer.",
         "page granularity; reference decoder has no opinion on unknown tags' values"),
 "C08": ("enum", "exhaustive enumeration of element sequences and nestings against a reference bundle encoder",
         "All element sequences up to length 3 (thorough 4; up to the API maximum 8 over a 2-letter alphabet) over 5 messages and representatives of nesting depth 1..2 (thorough 1..4), 7 boundary time tags, two storage layouts, are bundled by rtosc_bundle (real varargs) and decomposed again; bytes, element count, offsets, sizes, time tag and total length are compared with the reference; all plain messages are checked not to be taken for bundles.",
         "reference encoder; elements handed over by pointer as the API requires"),
 "C09": ("enum", "exhaustive enumeration of generated port trees and of all runtime states of a macro-built application against a reference expansion",
         "walk_ports is run on every generated tree (depth 1..3, thorough 4; #N at any level, multi-component names, argument specs) from an empty and a non-empty name buffer and on a macro-built application in all 256 states of its pointers and enabling toggles; the reported (port, address) multiset is compared with a reference expansion, the name buffer must be restored, and every reported address must dispatch to the reported port.",
         "reference expansion from the tree description; reference matcher for the dispatch part"),
 "C10": ("enum", "exhaustive enumeration of argument lists x print options, print -> count -> scan round trip with guard-paged buffers",
         "All lists of length 0..2 over a 74-value alphabet, length 3 (thorough 4) over sub-alphabets, every run shape around the compression threshold with every neighbour, arrays of every element type and length 0..4, every string of a 403-string family, all chars/escapes, 61 time tags, x 30 option sets (line length x precision x compression) and as whole messages: printed length, checker count, slots written (sentinels), bytes consumed and bit-exact values after the harness's own range expansion are checked; all areas the library writes end at PROT_NONE pages.",
         "range expansion engine/pretty_common.h; failing cases are reduced before the signature is taken"),
 "C11": ("enum", "constructive exhaustive enumeration of grammar sentences with deviation-bounded whitespace/comment insertion",
         "125 (denotation, spelling) items covering every construct of doc/Guide.adoc; all legal sequences of 1..2 items, 3 (thorough 4) over sub-alphabets, each with 0, 1 or 2 token-boundary deviations (blanks, tabs, newlines, comments incl. ones with syntax characters), message forms and the manual's examples verbatim: checker count == slots written, whole text consumed, scanned values == denotation bitwise, reprint scans identically.",
         "denotation known by construction; the manual's ambiguous forms are not generated (listed in the meta file)"),
 "C12": ("bfs", "explicit-state search over application states reached by parameter messages; per state save/parse/load oracle",
         "Breadth-first search over all states of six macro-built applications (flat, preset, tree, synth, big, intsw) reachable by parameter messages up to a depth (2/4/4/6/1/4, thorough 3/5/5/7/2/5, plus several thousand prepared root states for large arrays, long strings and 290-character paths); in every state the savefile is produced, parsed line-wise by the harness and checked for minimality against defaults computed by the harness, loaded into a fresh instance and compared field by field; negative files (wrong header, other app, unparsable / unaccepted line at every position) must be rejected.",
         "applications apps/save_apps.h follow the documented macro usage; expected defaults come from the app description, not from the library"),
 "C13": ("bfs", "explicit-state search over application states x exhaustive permutation of savefile lines",
         "For every state of C12's space, every permutation of the savefile's message lines (exhaustively up to 5 lines quick / 6 thorough; adjacent transpositions, rotations and reversal beyond - reported as not exhaustive) and every file with one depended-on line deleted is loaded; resulting state and reported count must equal those of the unpermuted file.",
         "as C12"),
 "C14": ("enum", "exhaustive enumeration of (port, stored value, incoming message) and of bounded set/query sequences against a clamp-and-report reference model",
         "85 macro-generated ports (every kind x declared ranges x storage types, top level and below rRecur/rRecurs) x several pre-values x the full incoming value family (all of -128..127 for char-backed kinds, boundary families otherwise) and all set/query sequences up to length 3 (thorough 4) on array ports; stored value, reply, broadcast and undo event are compared with a reference model byte for byte on the whole object; end-to-end pass through a real UndoHistory.",
         "apps/param_app.h description table is cross-checked against the ports' metadata at start"),
 "C15": ("bfs", "explicit-state BFS over record/seek/clock histories on the real UndoHistory with an owned clock",
         "All histories up to depth 5 (thorough 7) over record(3 addresses, types i/f/c)/seek(6 distances)/tick(1s,3s) from the empty history and from 80 prepared states around the 20-event cap are replayed on fresh real objects; emitted messages, getPos and size are compared with a list model written from the statement on every transition.",
         "time() interposed; one fixed type per address"),
 "C16": ("enum", "exhaustive enumeration of pairs/triples of argument lists and of all run segmentations against order laws",
         "All pairs of lists of length 0..2 over a 58-value alphabet (thorough more), transitivity on full sign matrices of triples, and for every list of runs every segmentation into literals, N x v and delta ranges: reflexivity, antisymmetry, transitivity, cmp==0 iff eq, same-type ordering as stated, and blindness of eq/cmp/iteration/rtosc_avmessage to compression, with the expansion computed by the harness.",
         "order between different types unspecified (coherence only); NaN excluded"),
 "C17": ("enum", "exhaustive enumeration of metadata blocks built byte-wise as the macros do",
         "All blocks of graded families (up to 8 entries over small alphabets incl. ':' '=' ' ' digits, empty values, repeated keys) plus 12 blocks produced by the real macros, in exact-size heap buffers under ASan: iteration sequence, operator[], find and length() compared with what was written.",
         "AddressSanitizer for out-of-block reads"),
 "C18": ("enum", "exhaustive enumeration of paths, generated trees and path_search queries against reference implementations",
         "All absolute paths of 1..6 (thorough 8) components with '..' anywhere for collapsePath (stack-based reference, canaries, exact-size buffers); apropos on every walked address of generated trees satisfying the side condition; path_search over all name sequences up to length 3 (thorough 5) x 7 locations x every needle x 3 options x query flag x both API forms against a reference child search, replies validated with the reference decoder.",
         "AddressSanitizer; reference codec"),
 "C19": ("bfs", "explicit-state BFS over operation histories on the real AutomationMgr with a learn-queue/range reference model and per-state probe sweeps",
         "For managers (slots, per_slot) in {(2,1),(2,2),(3,1)} (thorough more; (2,1) to a fixpoint) with object memory pre-filled 0x00/0xFF, every history of createBinding/clearSlot/clearSlotSub/gain/offset/handleMidi/NRPN operations up to the stated depth is replayed on a fresh real object; after every operation the learn state is compared with a FIFO model, and in every state a sweep of setSlot values checks address, type, range, monotonicity and the exact linear (1e-5 log) mapping of every emitted message. Next to the search: every controller number on 3 channels, bound addresses of every length 2..127, integer ranges up to 2^24-1; thorough managers up to 6 slots x 3 sub-automations.",
         "canon leaves out fields no operation reads (listed in the source); re-learn of a bound slot is a don't-care"),
 "C20": ("bfs", "explicit-state BFS over a two-party protocol: real MidiMappernRT and MidiMapperRT joined by harness-owned FIFO channels",
         "Every interleaving of map/unMap/clear, incoming controller values and deliveries of the two message channels (at most 2 in flight each) up to depth 8 (thorough 12) from the initial and four prepared states is a path of the search over the real objects; a two-sided reference model decides for every controller value which backend message must appear (address, range, monotone value, 7/14 bit) and that unassigned controllers stay silent. Next to the search: prepared states after 30/31 learn cycles (ring wrap-around), every ordered pair of 41 controllers (CC/NRPN, 3 channels), a learned address of every length 2..900; thorough also 4 addresses x 4 controller ids.",
         "snapshots compared by content (pointers replaced by indices); harness frees snapshots the library leaks"),
}

checks = []
for pid, (engine, technique, text, note) in sorted(C.items()):
    checks.append(dict(property_id=pid, quick_cmd="python3 run.py %s --tier quick" % pid,
                       thorough_cmd="python3 run.py %s --tier thorough" % pid,
                       evidence_file="evidence/%s.json" % pid,
                       replay_cmd_template="python3 run.py %s --replay {path}" % pid,
                       engine=engine,
                       level_claimed=dict(category="model_checking", text=text, design_ref="DESIGN.md section 3, " + pid),
                       level_note=note, technique=technique))
na = []
for p in props:
    if p["id"] not in C:
        na.append(dict(property_id=p["id"], reason="not claimed"))
m = dict(version=1, setup_cmd="python3 run.py --setup",
         hooks=dict(guard="none", enable="no source hooks: every check compiles the sources of /repo directly (engine/tl_hook.h pre-include for the C06 translation unit, link-time interposition of time/malloc); see DESIGN.md section 1",
                    baseline_off_cmd="sh tools/baseline.sh /repo", source_commits=[], add_only=True),
         engines=[dict(name="enum", path="engine/common.h", serves_properties=[k for k, v in sorted(C.items()) if v[0] == "enum"], kind_free_text="stateless exhaustive enumeration of explicitly generated finite input families, sharded over 16 processes"),
                  dict(name="bfs", path="engine/bfs.h", serves_properties=[k for k, v in sorted(C.items()) if "bfs" in v[0]], kind_free_text="explicit-state breadth-first search over operation histories replayed on fresh real objects, level-synchronous with forked workers, replay-determinism and canon-adequacy checks"),
                  dict(name="sched", path="engine/fibers.h", serves_properties=["C06"], kind_free_text="two-fiber cooperative scheduler over hooked std::atomic/memcpy of thread-link.cpp, DFS with iterated preemption bound")],
         checks=checks, not_applicable=na,
         notes="All checks are exhaustive bounded explorations of the real compiled library (no model other than the reference oracles); genuine defects found are listed in known_findings.json (fixed: repaired by 'fix:' commits in /repo; known: recorded).")
json.dump(m, open(os.path.join(V, "MANIFEST.json"), "w"), indent=1)
print("claimed:", sorted(C), "not yet:", [x["property_id"] for x in na])
