#!/bin/sh
# Applies each behaviour-preserving refactoring (refactorings/*.diff) to a scratch copy and runs the related quick checks:
# every line must say "silent". Output is appended to refactorings/RESULTS.txt. Arguments: ids to run (default: all).
cd "$(dirname "$0")/.."
ONLY="$*"
run() { if [ -n "$ONLY" ]; then case " $ONLY " in *" $1 "*) ;; *) return;; esac; fi; [ -f "refactorings/$1.diff" ] || return; python3 mutants/run.py "refactorings/$1.diff" "$2" 2>&1 | python3 -c "
import sys,json
t=sys.stdin.read(); i=t.find('{\n \"patch\"')
try:
    d=json.loads(t[i:])
    bad=[k for k,v in d['checks'].items() if v['exit']!=0]
    print('$1', 'tests', d.get('tests'), 'ALARM:'+','.join(bad) if bad else 'silent', {k:v['exit'] for k,v in d['checks'].items()}, [v['signatures'][:2] for k,v in d['checks'].items() if v['exit']!=0])
except Exception as e: print('$1 ERROR', t[-800:])"; }
{
for k in A1 A2 A3 A4; do run $k C01,C02,C07,C08,C03; done
for k in B1 B2; do run $k C05,C04,C09,C03; done
for k in B3 B4; do run $k C04,C09,C17,C18,C03; done
run C1 C06,C02,C03
run C2 C15,C14
run C3 C19
run C4 C20
for k in D1 D2; do run $k C16,C10,C12; done
for k in D3 D4; do run $k C10,C11,C12; done
for k in E1 E2; do run $k C12,C13; done
run E3 C12,C13,C09
run E4 C14,C12,C03
for k in F1 F2 F3 F4; do run $k C10,C11,C12,C16; done
for k in G1 G2 G3 G4; do run $k C20; done
for k in H1 H2 H3; do run $k C19; done
run H4 C15,C14
for k in I1 I2 I3; do run $k C12,C13; done
run I4 C12,C13,C09
for k in J1 J2 J3 J4; do run $k C14,C17,C09,C18,C06,C03; done
} | tee -a refactorings/RESULTS.txt
