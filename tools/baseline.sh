#!/bin/sh
# Build and run the repository's own test suite (guard off: there are no source hooks).
# usage: baseline.sh [repo-dir]   (default /repo; the build dir is <repo>/_build)
R=${1:-/repo}
set -e
[ -f "$R/_build/CMakeCache.txt" ] || cmake -G Ninja -S "$R" -B "$R/_build" -DCMAKE_BUILD_TYPE=RelWithDebInfo >/dev/null
cmake --build "$R/_build" 2>&1 | tail -3
ctest --test-dir "$R/_build" -j8 --timeout 900 2>&1 | tail -6
