#!/bin/sh
# Build and run the repository's own test suite (guard off: there are no source hooks).
# usage: baseline.sh [repo-dir]   (default /repo; the build dir is <repo>/_build)
R=${1:-/repo}
[ -f "$R/_build/CMakeCache.txt" ] || cmake -G Ninja -S "$R" -B "$R/_build" -DCMAKE_BUILD_TYPE=RelWithDebInfo >/dev/null || exit 2
if ! cmake --build "$R/_build" > "$R/_build/vp_build.log" 2>&1; then
    tail -30 "$R/_build/vp_build.log"
    echo "BUILD FAILED"
    exit 2
fi
tail -1 "$R/_build/vp_build.log"
ctest --test-dir "$R/_build" -j8 --timeout 900 2>&1 | tail -6
