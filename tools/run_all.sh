#!/bin/sh
# Runs every registered check (quick by default) against /repo, rewriting evidence/*.json; prints one line each.
T=${1:-quick}
cd "$(dirname "$0")/.."
for c in C01 C02 C03 C04 C05 C06 C07 C08 C09 C10 C11 C12 C13 C14 C15 C16 C17 C18 C19 C20; do
    s=$(date +%s)
    python3 run.py $c --tier $T > build/last_$c.log 2>&1; rc=$?
    e=$(date +%s)
    echo "$c exit=$rc $((e-s))s $(grep -c '^VIOLATION' build/last_$c.log) violations, $(grep -c '^KNOWN-FINDING' build/last_$c.log) known | $(tail -1 build/last_$c.log | cut -c1-150)"
done
