#!/usr/bin/env python3
"""Confirm an independently written breaking change ("seed") and run our checks against it.

  process_seed.py <seed-id e.g. C05-1> <property-ids e.g. C05[,C04]> <patch.diff> <demo.c|demo.cpp> "<what it needs to manifest>" [--tier thorough] [--extra-demo-flags "..."]

Steps (all in a scratch copy under /var/tmp, removed afterwards; /repo is never touched):
  1. unchanged copy: build the demonstration against the library sources, it must exit 0
  2. apply the patch: the repository's own 31 tests must still pass; the demonstration must exit non-zero
  3. run the named checks (quick, optionally thorough) with VERIF_REPO pointing at the patched copy
  4. write /verif/seeded/<seed-id>/{patch.diff, demo.*, meta.json}
"""
import sys, os, subprocess, shutil, tempfile, json, time

VERIF = os.path.dirname(os.path.dirname(os.path.abspath(__file__)))

def sh(cmd, **kw):
    return subprocess.run(cmd, shell=isinstance(cmd, str), stdout=subprocess.PIPE, stderr=subprocess.STDOUT, text=True, errors='replace', **kw)

def cmake_build(copy, work):
    r = sh("cmake -G Ninja -S %s -B %s/_build -DCMAKE_BUILD_TYPE=RelWithDebInfo >/dev/null && cmake --build %s/_build > %s/build.log 2>&1" % (copy, copy, copy, work))
    if r.returncode:
        print("LIBRARY BUILD FAILED\n" + open(work + "/build.log").read()[-3000:])
    return r.returncode == 0

def build_demo(copy, demo, out, extra):
    """the demonstration is copied to <copy>/seed/ (so that relative includes of library sources resolve into the
    copy) and linked against the static libraries cmake built in <copy>/_build"""
    os.makedirs(copy + "/seed", exist_ok=True)
    local = os.path.join(copy, "seed", os.path.basename(demo))
    shutil.copy(demo, local)
    for h in os.listdir(os.path.dirname(demo)):       # helper headers delivered next to the demonstration
        if h.endswith(".h"): shutil.copy(os.path.join(os.path.dirname(demo), h), os.path.join(copy, "seed", h))
    inc = "-I%s/include -I%s/src -I%s/src/cpp" % (copy, copy, copy)
    if "-fsanitize=thread" in extra:
        # a race detector needs the library instrumented as well: compile the sources the demonstration uses with it
        r = sh("gcc -std=c99 -D_DEFAULT_SOURCE -g -O1 -w -fsanitize=thread %s -c %s/src/rtosc.c -o %s.rtosc.o" % (inc, copy, out))
        if r.returncode: return r
        return sh("g++ -std=c++17 -g -O1 -w -fsanitize=thread %s %s %s/src/cpp/thread-link.cpp %s.rtosc.o -o %s -lpthread" % (inc, local, copy, out, out))
    libs = "%s/_build/librtosc-cpp.a %s/_build/librtosc.a" % (copy, copy)
    if demo.endswith(".c"):
        r = sh("gcc -g -O1 -w %s %s -c %s -o %s.o" % (inc, extra, local, out))
        if r.returncode: return r
        return sh("g++ -g -O1 -w %s.o %s -o %s -lm -lpthread" % (out, libs, out))
    return sh("g++ -std=c++17 -g -O1 -w %s %s %s %s -o %s -lm -lpthread" % (inc, extra, local, libs, out))

def main():
    a = [x for x in sys.argv[1:] if not x.startswith("--")]
    sid, props, patch, demo, needs = a[0], a[1].split(","), os.path.abspath(a[2]), os.path.abspath(a[3]), a[4]
    thorough = "--tier" in sys.argv and sys.argv[sys.argv.index("--tier") + 1] == "thorough"
    extra = sys.argv[sys.argv.index("--extra-demo-flags") + 1] if "--extra-demo-flags" in sys.argv else ""
    work = tempfile.mkdtemp(prefix="rtosc-seed-", dir="/var/tmp")
    copy = os.path.join(work, "repo")
    meta = dict(seed=sid, breaks=props, needs_to_manifest=needs, ran=[], confirmed=False)
    if extra: meta["extra_demo_flags"] = extra
    try:
        sh(["rsync", "-a", "--exclude", "_build", "--exclude", ".git", "--exclude", "seed", "/repo/", copy + "/"])
        # 1. unchanged
        if not cmake_build(copy, work): return 3
        r = build_demo(copy, demo, os.path.join(work, "demo_clean"), extra)
        if r.returncode: print("DEMO BUILD FAILED (clean)\n" + r.stdout[-3000:]); return 3
        r0 = sh(["timeout", "300", os.path.join(work, "demo_clean")])
        meta["demo_unchanged_exit"] = r0.returncode; meta["ran"].append("demonstration on the unchanged tree: exit %d" % r0.returncode)
        # 2. patched
        r = sh(["patch", "-p1", "-d", copy, "-i", patch])
        if r.returncode: print("PATCH DOES NOT APPLY\n" + r.stdout); return 3
        if not cmake_build(copy, work): return 3
        r = sh("ctest --test-dir %s/_build -j8 --timeout 900 2>&1 | tail -4" % copy)
        tests_ok = "100% tests passed" in r.stdout
        meta["repo_tests_with_change"] = "31/31 pass" if tests_ok else "FAIL: " + r.stdout[-400:]
        meta["ran"].append("repository test suite with the change: " + meta["repo_tests_with_change"][:40])
        r = build_demo(copy, demo, os.path.join(work, "demo_patched"), extra)
        if r.returncode: print("DEMO BUILD FAILED (patched)\n" + r.stdout[-3000:]); return 3
        r1 = sh(["timeout", "300", os.path.join(work, "demo_patched")])
        meta["demo_changed_exit"] = r1.returncode; meta["demo_changed_output"] = r1.stdout[-600:]
        meta["ran"].append("demonstration with the change: exit %d" % r1.returncode)
        meta["confirmed"] = bool(tests_ok and r0.returncode == 0 and r1.returncode != 0)
        # 3. our checks (the copy must look like a source tree only: no build directory, no seed directory)
        shutil.rmtree(os.path.join(copy, "_build"), ignore_errors=True); shutil.rmtree(os.path.join(copy, "seed"), ignore_errors=True)
        env = dict(os.environ, VERIF_REPO=copy)
        meta["checks"] = {}
        for cid in props:
            for tier in (["quick", "thorough"] if thorough else ["quick"]):
                t0 = time.time()
                r = sh([sys.executable, os.path.join(VERIF, "run.py"), cid, "--tier", tier, "--no-evidence"], env=env)
                viol = [l for l in r.stdout.splitlines() if l.startswith("VIOLATION")]
                sigs = [l.strip()[:200] for l in r.stdout.splitlines() if l.startswith("  ") and " x" in l and "case=" in l]
                meta["checks"]["%s/%s" % (cid, tier)] = dict(exit=r.returncode, detected=bool(viol) and r.returncode == 1, signatures=sigs[:5], seconds=round(time.time() - t0, 1))
                meta["ran"].append("python3 run.py %s --tier %s with VERIF_REPO=<patched copy>: exit %d, %d VIOLATION lines" % (cid, tier, r.returncode, len(viol)))
                if r.returncode not in (0, 1): meta["checks"]["%s/%s" % (cid, tier)]["log"] = r.stdout[-1500:]
                if viol: break
    finally:
        shutil.rmtree(work, ignore_errors=True)
    d = os.path.join(VERIF, "seeded", sid)
    os.makedirs(d, exist_ok=True)
    shutil.copy(patch, os.path.join(d, "patch.diff"))
    if os.path.abspath(demo) != os.path.abspath(os.path.join(d, "demo" + os.path.splitext(demo)[1])):
        shutil.copy(demo, os.path.join(d, "demo" + os.path.splitext(demo)[1]))
    for h in os.listdir(os.path.dirname(demo)):
        if h.endswith(".h") and os.path.dirname(demo) != d: shutil.copy(os.path.join(os.path.dirname(demo), h), os.path.join(d, h))
    try:      # annotations made by hand survive a re-run
        prev = json.load(open(os.path.join(d, "meta.json")))
        for k in ("outside_statement", "extra_demo_flags", "note"):
            if k in prev and k not in meta: meta[k] = prev[k]
    except Exception: pass
    json.dump(meta, open(os.path.join(d, "meta.json"), "w"), indent=1)
    print(json.dumps({k: meta[k] for k in ("seed", "confirmed", "demo_unchanged_exit", "demo_changed_exit", "repo_tests_with_change", "checks")}, indent=1))
    return 0

if __name__ == "__main__":
    sys.exit(main())
