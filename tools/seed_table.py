#!/usr/bin/env python3
"""Writes seeded/RESULTS.md from seeded/*/meta.json"""
import json, glob, os
V = os.path.dirname(os.path.dirname(os.path.abspath(__file__)))
rows = []
for mf in sorted(glob.glob(os.path.join(V, "seeded", "*", "meta.json"))):
    m = json.load(open(mf))
    det = [k for k, v in m.get("checks", {}).items() if v["detected"]]
    miss = [k for k, v in m.get("checks", {}).items() if not v["detected"]]
    sig = ""
    for k, v in m.get("checks", {}).items():
        if v["detected"] and v["signatures"]:
            sig = v["signatures"][0].split("  case=")[0]; break
    if not sig and det: sig = "crash (AddressSanitizer report inside the library), case id in replays/<ID>/crash.json"
    if m.get("outside_statement"): sig = "OUTSIDE THE STATEMENT: " + m["outside_statement"]
    rows.append((m["seed"], ",".join(m["breaks"]), "yes" if m["confirmed"] else "NO", ", ".join(det) or "-", ", ".join(miss) or "-", m["needs_to_manifest"], sig, bool(m.get("outside_statement"))))
with open(os.path.join(V, "seeded", "RESULTS.md"), "w") as f:
    f.write("# Independently written breaking changes (seeds) and which check catches them\n\n")
    f.write("Each seed was written by a fresh sub-agent that saw only the property text and a scratch worktree of /repo\n(nothing from /verif). `confirmed` = on a scratch copy the repository's 31 tests pass with the change, the agent's\ndemonstration exits 0 without and non-zero with it (tools/process_seed.py). Detection = the named check, run with\nVERIF_REPO pointing at the patched copy, prints a VIOLATION line and exits 1.\n\n")
    f.write("| seed | property | confirmed | caught by | not caught by | needs to manifest | first signature |\n|---|---|---|---|---|---|---|\n")
    for r in rows: f.write("| " + " | ".join(x.replace("|", "\\|") for x in r[:7]) + " |\n")
    ins = [r for r in rows if not r[7]]
    f.write("\n%d seeds, %d confirmed; %d change something the property does not speak about (kept, marked above); of the other %d, %d are caught by at least one check at the quick tier.\n" % (len(rows), sum(1 for r in rows if r[2] == "yes"), len(rows) - len(ins), len(ins), sum(1 for r in ins if r[3] != "-")))
print(open(os.path.join(V, "seeded", "RESULTS.md")).read()[-400:])
