#!/usr/bin/env python3
"""Re-run every kept seed (seeded/<id>/) through tools/process_seed.py, e.g. after strengthening a check.
   rerun_seeds.py [id-prefix ...] [--thorough-if-missed]"""
import sys, os, json, glob, subprocess
V = os.path.dirname(os.path.dirname(os.path.abspath(__file__)))
want = [a for a in sys.argv[1:] if not a.startswith("--")]
for mf in sorted(glob.glob(os.path.join(V, "seeded", "*", "meta.json"))):
    m = json.load(open(mf)); d = os.path.dirname(mf); sid = m["seed"]
    if want and not any(sid.startswith(w) for w in want): continue
    demo = [f for f in os.listdir(d) if f.startswith("demo.")][0]
    # process_seed copies the files onto themselves otherwise
    tmp = "/var/tmp/rerun-seed-%s" % sid; os.makedirs(tmp, exist_ok=True)
    subprocess.run(["cp", os.path.join(d, "patch.diff"), os.path.join(d, demo)] + [os.path.join(d, h) for h in os.listdir(d) if h.endswith(".h")] + [tmp])
    cmd = [sys.executable, os.path.join(V, "tools/process_seed.py"), sid, ",".join(m["breaks"]), tmp + "/patch.diff", tmp + "/" + demo, m["needs_to_manifest"]]
    if m.get("extra_demo_flags"): cmd += ["--extra-demo-flags", m["extra_demo_flags"]]
    if "--thorough" in sys.argv: cmd += ["--tier", "thorough"]
    r = subprocess.run(cmd, stdout=subprocess.PIPE, stderr=subprocess.STDOUT, text=True)
    m2 = json.load(open(mf))
    print(sid, "confirmed" if m2["confirmed"] else "NOT CONFIRMED", {k: v["detected"] for k, v in m2.get("checks", {}).items()})
    subprocess.run(["rm", "-rf", tmp])
