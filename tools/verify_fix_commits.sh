#!/bin/sh
# Builds and tests every "fix:" commit of /repo on its own (in a scratch worktree under /var/tmp, removed afterwards).
BASE=${1:-3c7c3be}
WT=/var/tmp/wt-verify-$$
git -C /repo worktree add -q --detach $WT $BASE || exit 2
cmake -G Ninja -S $WT -B $WT/_build -DCMAKE_BUILD_TYPE=RelWithDebInfo > /dev/null
for c in $(git -C /repo log --reverse --format=%h $BASE..HEAD); do
    git -C $WT checkout -q --detach $c
    if ! cmake --build $WT/_build > $WT/_build/log 2>&1; then echo "$c BUILD-FAILED $(git -C /repo log --format=%s -1 $c)"; tail -5 $WT/_build/log; continue; fi
    r=$(ctest --test-dir $WT/_build -j8 --timeout 900 2>&1 | grep "tests passed")
    echo "$c $r | $(git -C /repo log --format=%s -1 $c | cut -c1-70)"
done
git -C /repo worktree remove --force $WT
