// C10 - pretty-printing is reversible: print -> syntax check -> scan gives back the values.
// Exhaustive enumeration of explicitly generated families of argument lists x print options (x address for whole
// messages). Oracle: the property statement. Scanned arrays are walked and range-expanded by the harness's own code
// (engine/pretty_common.h), compared bit for bit with the original list, and additionally with rtosc_arg_vals_eq.
#include <algorithm>
#include <climits>
#include <cfloat>
#include <cmath>
#include "pretty_common.h"
#include "guard.h"

using pf::PV;
typedef std::vector<PV> List;

// ------------------------------------------------------------------------------------------------ options
struct Opt { int ll, prec, comp; };
static std::vector<Opt> g_opts;

// ------------------------------------------------------------------------------------------------ buffers
static const size_t PBUF = 8192;          // "output buffer always ample (8 KiB)"
static const size_t PRE = 16;             // bytes in front of the buffer: [PRE-1] is the blank the header demands
static const size_t SCR = 8192;           // scratch for scanned strings/blobs
static const int MAXSLOTS = 256, GUARD = 16;
// All three areas the library writes to end exactly at a PROT_NONE page (engine/guard.h): an overrun is a caught
// SIGSEGV instead of silent corruption of the harness. In front of each area lies a canary zone that is verified.
static guard::Arena g_parena, g_sarena, g_oarena;
static const size_t FRONT = 512;          // canary bytes verified in front of each area
static char *g_raw;                       // PRE bytes + print buffer of PBUF bytes
static char *g_scratch;
static rtosc_arg_val_t *g_out;            // announced count + GUARD sentinel-filled slots, placed per case
static bool all_bytes(const void *p, size_t n, unsigned char v) { const unsigned char *b = (const unsigned char *)p; return n == 0 || (b[0] == v && memcmp(b, b + 1, n - 1) == 0); }
static void init_buffers()
{
    g_parena.init(4); g_raw = (char *)g_parena.hi() - (PRE + PBUF); memset(g_raw - FRONT, guard::CANARY, FRONT);
    g_sarena.init(3); g_scratch = (char *)g_sarena.hi() - SCR; memset(g_scratch - FRONT, guard::CANARY, FRONT);
    g_oarena.init(3);
}
static const char *ADDR[3] = {"", "/a", "/a/b0"};

enum Clause { OK = 0, CRASH_PRINT, PRINT_GUARD, PRINT_LEN, COUNT, CRASH_SCAN, SLOTS, STRUCT, CONSUMED, ADDRESS, SCRATCH_GUARD, VALUE, LIBEQ, NCLAUSE };
static const char *CLAUSE[NCLAUSE] = {"ok", "crash-in-print", "print-outside-buffer", "print-length", "checker-count", "crash-in-scan",
                                      "slots-written", "scanned-structure", "scan-consumed", "address", "scratch-overrun", "value", "lib-eq"};

struct Run { Clause c = OK; std::string detail; bool nl = false, rng = false; std::string text; };

static bool all_ws(const char *s) { for(; *s; ++s) if(!isspace((unsigned char)*s)) return false; return true; }

static bool has_range(const rtosc_arg_val_t *a, int n) { for(int i = 0; i < n; ++i) if(a[i].type == '-') return true; return false; }

// one complete print -> count -> scan -> compare cycle; returns the first clause of the statement that fails
static Run run_case(const List &L, const Opt &o, int mode, bool detail)
{
    Run r;
    static std::vector<rtosc_arg_val_t> in;
    pf::to_av(L, in);
    const size_t n = in.size();
    static rtosc_arg_val_t dummy[1];
    const rtosc_arg_val_t *inp = n ? in.data() : dummy;

    memset(g_raw, 0x7f, PRE + PBUF);
    g_raw[PRE - 1] = ' ';
    char *buf = g_raw + PRE;
    rtosc_print_options po; po.lossless = true; po.floating_point_precision = o.prec; po.sep = " "; po.linelength = o.ll; po.compress_ranges = o.comp;
    size_t ret = 0;
    int sig = pf::fenced([&] {
        ret = mode == 0 ? rtosc_print_arg_vals(inp, n, buf, PBUF, &po, 0)
                        : rtosc_print_message(ADDR[mode], inp, n, buf, PBUF, &po, 0);
    });
    vp::transition();
    if(sig) {
        r.c = CRASH_PRINT; r.detail = std::string(pf::signame(sig)) + " inside the printer";
        if(sig == SIGSEGV && pf::g_fault_addr >= (void *)(g_raw + PRE + PBUF) && pf::g_fault_addr < (void *)(g_raw + PRE + PBUF + 4096)) { r.c = PRINT_GUARD; r.detail = "printer accessed memory behind the 8 KiB buffer"; }
        return r;
    }
    if(!all_bytes(g_raw, PRE - 1, 0x7f)) { r.c = PRINT_GUARD; r.detail = "bytes in front of buffer[-1] were written"; return r; }
    if(!isspace((unsigned char)g_raw[PRE - 1])) { r.c = PRINT_GUARD; r.detail = "buffer[-1] became a non-blank"; return r; }
    if(!all_bytes(g_raw - FRONT, FRONT, guard::CANARY)) { r.c = PRINT_GUARD; r.detail = "bytes more than 16 in front of the buffer were written"; memset(g_raw - FRONT, guard::CANARY, FRONT); return r; }
    const char *nul = (const char *)memchr(buf, 0, PBUF);
    if(!nul) { r.c = PRINT_LEN; r.detail = "returned " + std::to_string(ret) + " but wrote no terminating 0 into the buffer (buffer was pre-filled with 0x7f)"; return r; }
    const size_t len = nul - buf;
    if(detail) r.text = std::string(buf, len);
    r.nl = memchr(buf, '\n', len) != nullptr;
    if(len != ret) { r.c = PRINT_LEN; r.detail = "returned " + std::to_string(ret) + ", strlen(text)=" + std::to_string(len); return r; }

    int count = 0;
    sig = pf::fenced([&] { count = mode == 0 ? rtosc_count_printed_arg_vals(buf) : rtosc_count_printed_arg_vals_of_msg(buf); });
    vp::transition();
    if(sig) { r.c = CRASH_SCAN; r.detail = std::string(pf::signame(sig)) + " inside the syntax checker"; return r; }
    if(n == 0 ? count != 0 : (count <= 0 || count > MAXSLOTS)) {
        r.c = COUNT; r.detail = "syntax checker returns " + std::to_string(count) + " for the printed text of " + std::to_string(n) + " slots"; return r;
    }

    // output array: [FRONT canary bytes][count slots][GUARD slots] PROT_NONE page
    g_out = (rtosc_arg_val_t *)g_oarena.hi() - (count + GUARD);
    memset(g_out, pf::SENT, (count + GUARD) * sizeof(rtosc_arg_val_t));
    memset((char *)g_out - FRONT, guard::CANARY, FRONT);
    // the memory in front of the destination belongs to the caller: here it holds a well-formed value (left over from an earlier scan, say), of a
    // type that rotates with the text - the scanner has no business looking at it
    rtosc_arg_val_t before; memset(&before, 0, sizeof before);
    { static const char BT[] = "ihcfdTs"; before.type = BT[vp::fnv(buf, strlen(buf)) % 7]; if(before.type == 'f') before.val.f = 1.0f; else if(before.type == 'd') before.val.d = 1.0; else if(before.type == 's') before.val.s = "x"; else if(before.type == 'h') before.val.h = 1; else before.val.i = 1; }
    g_out[-1] = before;
    memset(g_scratch, 0x7f, SCR);
    char addr[32]; memset(addr, 0x7f, sizeof addr);
    size_t rd = 0;
    sig = pf::fenced([&] {
        rd = mode == 0 ? rtosc_scan_arg_vals(buf, g_out, count, g_scratch, SCR)
                       : rtosc_scan_message(buf, addr, sizeof addr, g_out, count, g_scratch, SCR);
    });
    vp::transition();
    if(sig) {
        r.c = CRASH_SCAN; r.detail = std::string(pf::signame(sig)) + " inside the scanner (count=" + std::to_string(count) + ")";
        if(sig == SIGSEGV && pf::g_fault_addr >= (void *)(g_scratch + SCR) && pf::g_fault_addr < (void *)(g_scratch + SCR + 4096)) { r.c = SCRATCH_GUARD; r.detail = "scanner accessed memory behind the scratch buffer"; }
        if(sig == SIGSEGV && pf::g_fault_addr >= (void *)g_oarena.hi() && pf::g_fault_addr < (void *)(g_oarena.hi() + 4096)) { r.c = SLOTS; r.detail = "checker announced " + std::to_string(count) + " slots, scanner ran more than " + std::to_string(GUARD) + " slots past them"; }
        return r;
    }
    if(!all_bytes((char *)g_out - FRONT, FRONT - sizeof(rtosc_arg_val_t), guard::CANARY) || memcmp(&g_out[-1], &before, sizeof before)) { r.c = SLOTS; r.detail = "scanner wrote in front of the output array"; return r; }
    r.rng = has_range(g_out, count);
    int touched_end = count;
    if(!all_bytes(g_out + count, GUARD * sizeof(rtosc_arg_val_t), pf::SENT)) for(int k = count; k < count + GUARD; ++k) if(!pf::slot_untouched(g_out[k])) touched_end = k + 1;
    if(touched_end > count) { r.c = SLOTS; r.detail = "checker announced " + std::to_string(count) + " slots, scanner wrote up to slot " + std::to_string(touched_end); return r; }
    for(int k = 0; k < count; ++k) if(pf::slot_untouched(g_out[k])) { r.c = SLOTS; r.detail = "checker announced " + std::to_string(count) + " slots, slot " + std::to_string(k) + " was not written"; return r; }
    pf::Scratch sc; sc.lo = g_scratch; sc.hi = g_scratch + SCR;
    List X; std::string err;
    if(!pf::expand(g_out, count, X, sc, err)) { r.c = STRUCT; r.detail = "scanned array is malformed: " + err; return r; }
    if(rd > len || !all_ws(buf + rd)) { r.c = CONSUMED; r.detail = "scanner consumed " + std::to_string(rd) + " of " + std::to_string(len) + " bytes"; return r; }
    if(mode && strcmp(addr, ADDR[mode])) { r.c = ADDRESS; r.detail = "scanned address '" + vp::show(addr, strnlen(addr, sizeof addr)) + "'"; return r; }
    if(!all_bytes(g_scratch - FRONT, FRONT, guard::CANARY)) { memset(g_scratch - FRONT, guard::CANARY, FRONT); r.c = SCRATCH_GUARD; r.detail = "bytes in front of the scratch buffer were written"; return r; }
    if(!pf::same(L, X)) {
        r.c = VALUE;
        if(detail) {
            size_t k = 0; while(k < L.size() && k < X.size() && pf::same(L[k], X[k])) ++k;
            r.detail = "value " + std::to_string(k) + ": printed " + (k < L.size() ? pf::show(L[k]) : std::string("(nothing)")) +
                       ", scanned " + (k < X.size() ? pf::show(X[k]) : std::string("(nothing)")) + " (ranges expanded by the harness)";
        }
        return r;
    }
    int eq = 0;
    sig = pf::fenced([&] { eq = rtosc_arg_vals_eq(inp, g_out, n, count, nullptr); });
    vp::transition();
    if(sig) { r.c = LIBEQ; r.detail = std::string(pf::signame(sig)) + " inside rtosc_arg_vals_eq"; return r; }
    if(!eq) { r.c = LIBEQ; r.detail = "expansions are bit-identical but rtosc_arg_vals_eq(original, scanned) = 0"; return r; }
    return r;
}

// ------------------------------------------------------------------------------------------------ shape classes
static bool is_ident(const std::string &s)
{
    if(s.empty() || !(isalpha((unsigned char)s[0]) || s[0] == '_')) return false;
    for(char c : s) if(!(isalnum((unsigned char)c) || c == '_')) return false;
    return true;
}
static bool is_keyword(const std::string &s) { return s == "true" || s == "false" || s == "nil" || s == "inf" || s == "now" || s == "immediately" || s == "MIDI" || s == "BLOB"; }
static bool needs_escape(char c, bool chr) { return strchr("\a\b\t\n\v\f\r\\", c) ? c != 0 : (chr ? c == '\'' : c == '"'); }

// fine = tags of a single value (type, sign, spelling class); coarse = lexical class used inside longer sub-lists
static std::string collapse(const List &l, bool fine);
static std::string tag(const PV &p, bool fine)
{
    const char *neg = "";
    switch(p.k) {
    case 'i': neg = (int32_t)(uint32_t)p.u < 0 ? "-" : ""; return std::string(neg) + (fine ? "i" : "num");
    case 'h': neg = (int64_t)p.u < 0 ? "-" : ""; return std::string(neg) + (fine ? "h" : "num");
    case 'f': return std::string(((uint32_t)p.u >> 31) ? "-" : "") + "f";
    case 'd': return std::string((p.u >> 63) ? "-" : "") + "d";
    case 'c': return (fine && needs_escape((char)p.u, true)) ? "c-esc" : "c";
    case 's': { if(!fine) return "s"; if(p.s.empty()) return "s-empty"; for(char c : p.s) if(needs_escape(c, false)) return "s-esc"; return "s"; }
    case 'S': return is_keyword(p.s) ? "S-keyword" : is_ident(p.s) ? "S-id" : "S-quoted";
    case 'b': return (fine && p.s.empty()) ? "b0" : "b";
    case 't': return p.u == 1 ? "t-imm" : (uint32_t)p.u ? "t-frac" : (p.u >> 32) % 60 ? "t-hms" : (p.u >> 32) % 86400 ? "t-hm" : "t-date";
    case 'a': return "[" + collapse(p.el, fine && p.el.size() <= 1) + "]";
    case 'T': case 'F': case 'N': case 'I': return fine ? std::string(1, p.k) : "kw";
    default: return std::string(1, p.k);
    }
}
static std::string collapse(const List &l, bool fine)
{
    std::string o;
    for(size_t i = 0; i < l.size();) {
        std::string t = tag(l[i], fine);
        size_t j = i + 1;
        while(j < l.size() && tag(l[j], fine) == t) ++j;
        if(!o.empty()) o += ',';
        o += t;
        if(j - i > 1) {
            bool cst = true; for(size_t k = i + 1; k < j; ++k) if(!pf::same(l[k], l[i])) cst = false;
            bool ari = false;
            if(!cst && j - i > 2 && strchr("ihc", l[i].k)) {
                ari = true; uint64_t d = l[i + 1].u - l[i].u;
                for(size_t k = i + 1; k < j; ++k) if(l[k].k != l[i].k || l[k].u - l[k - 1].u != d) ari = false;
            }
            o += "*" + std::to_string(j - i);
            if(j - i >= 5) o += (cst ? "=" : ari ? "+" : "~");   // long enough to be range-compressed: constant / arithmetic / neither
        }
        i = j;
    }
    return o;
}

// A failing case is reduced to a canonical smallest reproduction before it is named: shortest contiguous sub-list
// that still fails (any clause), then bare argument list instead of message, compression off, one long line and
// precision 2 wherever the failure survives that. The signature is the one of the reduced case, so that one defect
// is not reported under the name of every list that happens to contain its trigger.
struct Reduced { List L; Opt o; int mode; Run run; std::string sig; };
static bool failing(const List &L, const Opt &o, int mode) { return run_case(L, o, mode, false).c != OK; }
static void shrink_arrays(List &L, const Opt &o, int mode)
{
    for(size_t i = 0; i < L.size(); ++i) if(L[i].k == 'a') {
        List el = L[i].el; size_t x = 0, y = el.size();
        auto with = [&](size_t p, size_t q) { List M = L; M[i] = pf::Arr(List(el.begin() + p, el.begin() + q)); return M; };
        while(y - x > 0 && failing(with(x, y - 1), o, mode)) --y;
        while(y - x > 1 && failing(with(x + 1, y), o, mode)) ++x;
        L = with(x, y);
    }
}
static void trim(List &L, const Opt &o, int mode)
{
    if(L.size() > 1) {
        // a single value, then an adjacent pair, that fails on its own is the preferred reduction
        for(size_t i = 0; i < L.size(); ++i) if(failing(List{L[i]}, o, mode)) { L = List{L[i]}; break; }
        if(L.size() > 2) for(size_t i = 0; i + 1 < L.size(); ++i) if(failing(List{L[i], L[i + 1]}, o, mode)) { L = List{L[i], L[i + 1]}; break; }
    }
    if(L.size() > 2) {
        size_t a = 0, b = L.size();
        auto sub = [&](size_t x, size_t y) { return List(L.begin() + x, L.begin() + y); };
        while(b - a > 1 && failing(sub(a, b - 1), o, mode)) --b;
        while(b - a > 1 && failing(sub(a + 1, b), o, mode)) ++a;
        L = sub(a, b);
    }
    shrink_arrays(L, o, mode);
}
static Reduced reduce(const List &L0, const Opt &o0, int mode0)
{
    Reduced r; r.L = L0; r.o = o0; r.mode = mode0;
    trim(r.L, r.o, r.mode);
    // canonical options, as far as the same clause keeps failing
    const Clause c = run_case(r.L, r.o, r.mode, false).c;
    auto still = [&](const Opt &t, int mode) { return run_case(r.L, t, mode, false).c == c; };
    if(r.mode && still(r.o, 0)) r.mode = 0;
    { Opt t = r.o; t.comp = 0; if(r.o.comp && still(t, r.mode)) r.o = t; }
    { Opt t = r.o; t.ll = 120; if(r.o.ll != 120 && still(t, r.mode)) r.o = t; }
    { Opt t = r.o; t.prec = 2; if(r.o.prec != 2 && still(t, r.mode)) r.o = t; }
    if(r.L.size() > 1) trim(r.L, r.o, r.mode);
    r.run = run_case(r.L, r.o, r.mode, true);
    std::string shape = collapse(r.L, r.L.size() <= 1);
    if(shape.empty()) shape = "empty-list";
    if(r.o.comp) shape += "+compress";
    if(r.o.ll != 120) shape += "+linebreak";
    if(r.o.prec != 2) shape += "+precision" + std::to_string(r.o.prec);
    r.sig = std::string(CLAUSE[r.run.c]) + "|" + (r.mode ? "message" : "arg_vals") + "|" + shape;
    return r;
}

// ------------------------------------------------------------------------------------------------ driver of one list
static uint64_t g_top = 0;
static bool g_stop = false;
static std::string g_fam_done;   // for cap(): last family completed

static std::string optstr(const Opt &o, int mode)
{
    return "linelength=" + std::to_string(o.ll) + " precision=" + std::to_string(o.prec) + " compress=" + std::to_string(o.comp) + (mode ? std::string(" address=") + ADDR[mode] : std::string());
}
static void report(const std::string &cid, const List &L, const Opt &o, int mode, const Run &r)
{
    Reduced m = reduce(L, o, mode);
    if(m.run.c == OK) {   // must not happen: every step of reduce() keeps a failing case
        vp::violation(std::string("unstable|") + CLAUSE[r.c], cid, "case fails but its reduction does not: list=" + pf::show(L) + " " + optstr(o, mode));
        return;
    }
    auto &vi = vp::ctx().viol;
    auto it = vi.find(m.sig);
    if(it != vi.end() && it->second.cases.size() >= 3) { it->second.count++; return; }
    Run full = run_case(L, o, mode, true);
    std::string d = std::string(CLAUSE[full.c]) + ": " + full.detail + "; text=<" + vp::show(full.text) + ">; list=" + pf::show(L) + "; options: " + optstr(o, mode) +
                    "; REDUCED TO list=" + pf::show(m.L) + " options: " + optstr(m.o, m.mode) + " text=<" + vp::show(m.run.text) + "> => " + CLAUSE[m.run.c] + ": " + m.run.detail;
    vp::violation(m.sig, cid, d);
}

enum OptSet { ALL, FEW };   // FEW: linelength {10,80} x precision {0,2,9} x compress {0,1}

static void do_list(const char *fam, uint64_t idx, const List &L, OptSet os = ALL)
{
    if(g_stop) return;
    const uint64_t top = g_top++;
    if(!vp::mine(top)) return;
    std::string prefix = std::string(fam) + ":" + std::to_string(idx) + ":";
    if(vp::replaying() && vp::ctx().replay.compare(0, prefix.size(), prefix) != 0) return;
    if((top & 0xff) == 0 && vp::deadline_passed()) { g_stop = true; vp::cap(std::string("deadline: stopped in family '") + fam + "' at list " + std::to_string(idx) + "; families completed before: " + g_fam_done); return; }
    if(pf::slots(L) > (size_t)MAXSLOTS / 2) abort();
    vp::state();
    std::string kinds;
    { bool k[128] = {false}; for(auto &p : L) { k[(int)p.k] = true; if(p.k == 'a') for(auto &e : p.el) k[(int)e.k] = true; }
      for(int c = 0; c < 128; ++c) if(k[c]) kinds += (char)c; }
    bool triv = true; for(char c : kinds) if(!strchr("TFNI", c)) triv = false;
    if(!triv) vp::nontrivial(vp::fnv(pf::show(L), vp::fnv(fam, strlen(fam))));
    vp::outcome("kinds:" + (kinds.empty() ? std::string("(none)") : kinds));
    const bool T = vp::thorough();
    const int nmsg = T ? 4 : 2;
    auto one = [&](size_t oi, int mode) {
        std::string cid = prefix + "o" + std::to_string(oi) + ":m" + std::to_string(mode);
        if(!vp::want(cid)) return;
        vp::current_case() = cid;
        vp::eval();
        Run r = run_case(L, g_opts[oi], mode, false);
        vp::trace();
        if(vp::replaying()) { Run v = run_case(L, g_opts[oi], mode, true); fprintf(stderr, "replay %s: list=%s options: %s\n  text=<%s>\n  verdict: %s %s\n", cid.c_str(), pf::show(L).c_str(), optstr(g_opts[oi], mode).c_str(), vp::show(v.text).c_str(), CLAUSE[v.c], v.detail.c_str()); }
        static std::string lab; lab = fam; lab += g_opts[oi].comp ? "|compress" : "|plain"; lab += r.rng ? "|range-scanned" : "|no-range"; lab += r.nl ? "|linebreak" : "|one-line";
        lab += mode ? "|msg|" : "|args|"; lab += CLAUSE[r.c];
        vp::outcome(lab);
        if(r.c != OK) report(cid, L, g_opts[oi], mode, r);
    };
    for(size_t oi = 0; oi < g_opts.size(); ++oi) {
        if(os == FEW && !(g_opts[oi].ll == 10 || g_opts[oi].ll == 80)) continue;
        one(oi, 0);
    }
    for(int k = 0; k < nmsg; ++k) one((idx * 7 + k * 11) % g_opts.size(), 1 + (k & 1));
    if((top % 9973) == 0) {
        Run r = run_case(L, g_opts[(top / 9973) % g_opts.size()], 0, true);
        vp::sample(std::string(fam) + ": " + pf::show(L) + "  ->  <" + vp::show(r.text) + ">", 8);
    }
}

// ------------------------------------------------------------------------------------------------ alphabets
static List V, V20;             // value alphabet and its sub-alphabet
static List TIMES, STRINGS, CHARS;

static void build_alphabets(bool T)
{
    const float fden = pf::bits_f(1), fmax = FLT_MAX;
    const double dden = pf::bits_d(1), dmax = DBL_MAX;
    for(int32_t v : {0, 1, -1, 7, -12, INT_MIN, INT_MAX}) V.push_back(pf::I(v));
    for(int64_t v : {(int64_t)0, (int64_t)1, (int64_t)-1, (int64_t)7, (int64_t)-12, INT64_MIN, INT64_MAX}) V.push_back(pf::H(v));
    for(char c : {'a', '\'', '\\', '"', '\n', ' '}) V.push_back(pf::C(c));
    for(float f : {0.0f, -0.0f, 1.0f, -1.5f, 0.1f, 1e-10f, 1e10f, fden, fmax}) V.push_back(pf::Fl(f));
    for(double d : {0.0, -0.0, 1.0, -1.5, 0.1, 1e-10, 1e10, dden, dmax}) V.push_back(pf::D(d));
    for(const char *s : {"", "a", "a\"b", "\\", "x\ny", "1 %"}) V.push_back(pf::Str(s));
    for(const char *s : {"id", "An_Id_42", "_", "a b", "", "1a"}) V.push_back(pf::Sym(s));
    V.push_back(pf::Blob("")); V.push_back(pf::Blob(std::string("\x00", 1))); V.push_back(pf::Blob(std::string("rt\x00sc", 5)));
    { std::string b; for(int i = 0; i < 30; ++i) b += (char)(i * 9 + 1); V.push_back(pf::Blob(b)); }
    V.push_back(pf::Midi(0, 0, 0, 0)); V.push_back(pf::Midi(0x90, 60, 127, 0)); V.push_back(pf::Midi(255, 255, 255, 255));
    V.push_back(pf::Col(0)); V.push_back(pf::Col(0x8badf00d)); V.push_back(pf::Col(0xffffffff));
    for(char k : {'T', 'F', 'N', 'I'}) V.push_back(pf::mk(k));
    V.push_back(pf::Imm());
    V.push_back(pf::Tt(pf::utc_secs(1970, 1, 2, 0, 0, 0), 0));
    V.push_back(pf::Tt(pf::utc_secs(2016, 11, 16, 0, 1, 0), 0));
    V.push_back(pf::Tt(pf::utc_secs(2016, 11, 16, 12, 34, 56), 0));
    V.push_back(pf::Tt(pf::utc_secs(2016, 11, 16, 12, 34, 56), 0x80000000u));
    V.push_back(pf::Tt(pf::utc_secs(2037, 12, 31, 0, 0, 0), 0x20000000u));

    V20 = {pf::I(0), pf::I(-12), pf::I(INT_MIN), pf::H(-1), pf::H(INT64_MAX), pf::C('a'), pf::C('\''), pf::Fl(-1.5f), pf::Fl(0.1f), pf::D(0.1), pf::D(-0.0),
           pf::Str("a\"b"), pf::Str(""), pf::Sym("id"), pf::Sym("a b"), pf::Blob(std::string("rt\x00sc", 5)), pf::Midi(0x90, 60, 127, 0), pf::Col(0x8badf00d),
           pf::mk('T'), pf::mk('N'), pf::Tt(pf::utc_secs(1970, 1, 2, 0, 0, 0), 0), pf::Tt(pf::utc_secs(2016, 11, 16, 12, 34, 56), 0x80000000u)};

    // time tags: immediately, dates x times of day x float-representable fractions
    TIMES.push_back(pf::Imm());
    const int dates[4][3] = {{1970, 1, 2}, {2000, 2, 29}, {2016, 11, 16}, {2037, 12, 31}};
    const int tod[6][3] = {{0, 0, 0}, {0, 1, 0}, {12, 34, 56}, {0, 0, 7}, {5, 0, 0}, {23, 59, 59}};
    const uint32_t fr[5] = {0, 0x80000000u, 0x40000000u, 0x20000000u, 0x00001000u};
    for(auto &d : dates) for(auto &t : tod) for(uint32_t f : fr) TIMES.push_back(pf::Tt(pf::utc_secs(d[0], d[1], d[2], t[0], t[1], t[2]), f));

    // strings: every string of length 0..3 over {a " \ \n ' ' % 1}, three identifiers and the reserved words
    const char sa[] = {'a', '"', '\\', '\n', ' ', '%', '1'};
    STRINGS.push_back(pf::Str(""));
    for(char a : sa) { STRINGS.push_back(pf::Str(std::string(1, a)));
        for(char b : sa) { STRINGS.push_back(pf::Str(std::string({a, b})));
            for(char c : sa) STRINGS.push_back(pf::Str(std::string({a, b, c}))); } }
    for(const char *s : {"id", "An_Id_42", "_x"}) STRINGS.push_back(pf::Str(s));
    for(const char *s : {"true", "nil", "now", "MIDI"}) STRINGS.push_back(pf::Str(s));
    { std::string l; for(int i = 0; i < 130; ++i) l += (char)('a' + i % 26); STRINGS.push_back(pf::Str(l)); }   // longer than every line length

    // chars: printable ASCII and the C escapes
    for(int c = 0x20; c < 0x7f; ++c) CHARS.push_back(pf::C((char)c));
    for(char c : {'\a', '\b', '\t', '\n', '\v', '\f', '\r'}) CHARS.push_back(pf::C(c));
    (void)T;
}

// ------------------------------------------------------------------------------------------------ runs
struct RunSpec { char k; int start; int delta; };   // delta 0 = constant; for T/F delta 1 = alternating
static PV run_elem(const RunSpec &rs, int64_t base, int i)
{
    switch(rs.k) {
    case 'i': return pf::I((int32_t)(base + (int64_t)i * rs.delta));
    case 'h': return pf::H(base + (int64_t)i * rs.delta);
    case 'c': return pf::C((char)(base + i * rs.delta));
    case 'f': return pf::Fl((float)base * 0.5f + (float)i * rs.delta);
    case 'd': return pf::D((double)base * 0.5 + (double)i * rs.delta);
    case 'T': return pf::mk(((i * rs.delta) & 1) ? 'F' : 'T');
    case 'F': return pf::mk(((i * rs.delta) & 1) ? 'T' : 'F');
    case 's': return pf::Str(base ? "x y" : "ab");
    case 'S': return pf::Sym(base ? "x y" : "ab");
    case 'r': return pf::Col(0x8badf00d);
    case 'N': return pf::mk('N');
    }
    abort();
}
struct RunDef { RunSpec rs; int64_t base; };
static std::vector<RunDef> run_defs(bool T)
{
    std::vector<RunDef> v;
    for(char k : {'i', 'h', 'c', 'f', 'd'})
        for(int d : {0, 1, -1, 3}) {
            std::vector<int64_t> bases;
            if(k == 'c') bases = {d < 0 ? 'z' : 'a'};
            else if(k == 'f' || k == 'd') { bases = {1}; if(T) bases.push_back(-5); }
            else {
                bases = {0}; if(T) { bases.push_back(-2);
                    if(k == 'i') bases.push_back(d < 0 ? (int64_t)INT_MIN + 7 : d == 3 ? (int64_t)INT_MAX - 21 : (int64_t)INT_MAX - 7);
                    else bases.push_back(d < 0 ? INT64_MIN + 7 : d == 3 ? INT64_MAX - 21 : INT64_MAX - 7); }
            }
            for(int64_t b : bases) v.push_back({{k, 0, d}, b});
        }
    for(char k : {'T', 'F'}) for(int d : {0, 1}) v.push_back({{k, 0, d}, 0});
    v.push_back({{'s', 0, 0}, 0}); v.push_back({{'S', 0, 0}, 0});
    if(T) { v.push_back({{'s', 0, 0}, 1}); v.push_back({{'S', 0, 0}, 1}); v.push_back({{'r', 0, 0}, 0}); v.push_back({{'N', 0, 0}, 0}); }
    return v;
}

// ------------------------------------------------------------------------------------------------ main
int main(int argc, char **argv)
{
    vp::init(argc, argv, "C10");
    const bool T = vp::thorough();
    for(int ll : {10, 20, 40, 80, 120}) for(int pr : {0, 2, 9}) for(int c : {0, 1}) g_opts.push_back({ll, pr, c});
    build_alphabets(T);
    init_buffers();
    const List &V3 = T ? V : V20;
    vp::bound("options", "linelength {10,20,40,80,120} x precision {0,2,9} x compress {0,1}, lossless=true, sep=' ' (30 sets); whole messages behind /a and /a/b0 with " + std::string(T ? "4" : "2") + " rotating option sets per list");
    vp::bound("value_alphabet_V", (long long)V.size());
    vp::bound("lists_plain", "all lists of length 0..2 over V; all of length 3 over " + std::string(T ? "V; all of length 4 over a 22-value sub-alphabet" : "a 22-value sub-alphabet") + "; lists of length 4..12 per type and mixed (cyclic, no accidental runs)");
    vp::bound("runs", "prefix in sub-alphabet+none x run{i h c f d: delta 0,1,-1,3; T F: constant, alternating; s S constant" + std::string(T ? "; r N constant; starts 0, -2, type maximum-7" : "") + "} x length 3..8 x suffix in sub-alphabet+none" + (T ? "; prefix x suffix additionally over all of V x V" : "") + "; constant runs of 4..7 equal arrays; two runs in a row; two adjacent runs sharing their boundary value (all delta pairs, at list start / behind a value / as the elements of an array); runs whose first step wraps around the integer range; 5..8 values stepping by one across INT_MAX/INT_MIN (32 and 64 bit); 64-bit runs with steps 2^32+-1, +-2^32, +-2^31, 2^33+1, 5e9, 2^40, 2^53+1; 32-bit runs crossing zero with a span above 2^31 (one of 100 values); an array followed by a counting run of its element type");
    vp::bound("arrays", "every homogeneous array of length 0..4 over 3 values per element type (14 element types), alone and between scalars; arrays of 1..2 (thorough 3) arrays over 6 inner arrays; arrays holding a run of length 3..8 with an optional extra element");
    vp::bound("strings", "every string of length 0..3 over {a \" \\ \\n ' ' % 1} + identifiers + reserved words + one 130-char string, as s and S, alone and between neighbours");
    vp::bound("chars", T ? "every printable ASCII char and C escape, alone and every ordered pair" : "6 chars in V; every printable ASCII char and C escape alone");
    vp::bound("time_tags", "immediately + 4 dates x {00:00:00,00:01:00,12:34:56,00:00:07,05:00:00,23:59:59} x fraction {0,.5,.25,.125,2^-20}; alone, before and behind every value of V; plus a lattice of fractions: leading bit 2^-1..2^-32 x 6 mantissa shapes of up to 24 bits, on two dates");
    vp::bound("floats", T ? "sign x every exponent x mantissa {0,1,2^k,all ones} for f (12750); sign x every exponent x {0,1,2^51,all ones} for d (16376); finite only; alone, before i:1, behind i:-1" : "same family thinned to every 8th exponent (f) / every 64th (d)");
    vp::bound("buffers", "print buffer 8192 bytes with buffer[-1]=' '; scan scratch 8192 bytes; output array = announced count + 16 guard slots (0xA5 sentinel)");

    uint64_t idx;
    // ---- family "l": plain lists
    idx = 0;
    do_list("l", idx++, List{});
    for(auto &a : V) do_list("l", idx++, List{a});
    for(auto &a : V) for(auto &b : V) do_list("l", idx++, List{a, b});
    for(auto &a : V3) for(auto &b : V3) for(auto &c : V3) do_list("l", idx++, List{a, b, c});
    if(T) for(auto &a : V20) for(auto &b : V20) for(auto &c : V20) for(auto &d : V20) do_list("l", idx++, List{a, b, c, d}, FEW);
    if(!g_stop) g_fam_done += "l ";
    // ---- family "long": 4..12 values per type and mixed
    idx = 0;
    {
        std::string types = "ihcfdsSbmrt";
        for(char k : types) {
            List pool; for(auto &p : V) if(p.k == k) pool.push_back(p);
            for(size_t len = 4; len <= 12; ++len) for(size_t off = 0; off < pool.size(); ++off) {
                List L; for(size_t i = 0; i < len; ++i) L.push_back(pool[(off + i) % pool.size()]);
                do_list("long", idx++, L);
            }
        }
        List tf = {pf::mk('T'), pf::mk('F'), pf::mk('F'), pf::mk('N'), pf::mk('T'), pf::mk('I'), pf::mk('T'), pf::mk('T'), pf::mk('F'), pf::mk('I'), pf::mk('I'), pf::mk('N')};
        for(size_t len = 4; len <= 12; ++len) do_list("long", idx++, List(tf.begin(), tf.begin() + len));
        for(size_t stride : {1, 3, 7}) for(size_t off = 0; off < V20.size(); ++off) for(size_t len = 4; len <= 12; ++len) {
            List L; for(size_t i = 0; i < len; ++i) L.push_back(V20[(off + i * stride) % V20.size()]);
            do_list("long", idx++, L);
        }
    }
    if(!g_stop) g_fam_done += "long ";
    // ---- family "run": prefix ++ run ++ suffix
    idx = 0;
    {
        auto defs = run_defs(T);
        List none;
        std::vector<const PV *> ctx{nullptr}; for(auto &p : V20) ctx.push_back(&p);
        for(auto &rd : defs) for(int len = 3; len <= 8; ++len) {
            List run; for(int i = 0; i < len; ++i) run.push_back(run_elem(rd.rs, rd.base, i));
            for(auto pre : ctx) for(auto suf : ctx) {
                List L; if(pre) L.push_back(*pre); L.insert(L.end(), run.begin(), run.end()); if(suf) L.push_back(*suf);
                do_list("run", idx++, L, (pre && suf) ? FEW : ALL);
            }
            if(T) for(auto &p : V) for(auto &q : V) { List L{p}; L.insert(L.end(), run.begin(), run.end()); L.push_back(q); do_list("run", idx++, L, FEW); }
            // two runs in a row (the second of another kind of delta)
            for(auto &rd2 : defs) if(rd2.rs.k == rd.rs.k && (T || len == 5)) {
                List L = run; for(int i = 0; i < 5; ++i) L.push_back(run_elem(rd2.rs, rd2.rs.k == 'c' ? (rd2.rs.delta < 0 ? 'Z' : 'A') : rd2.base > 1000 ? rd2.base - 40 : rd2.base < -1000 ? rd2.base + 40 : rd2.base + 40, i));
                do_list("run", idx++, L, FEW);
            }
        }
    }
    // lists whose values step by one across the end of the type's range (not an arithmetic run in the integers)
    {
        List wi, wh, wi2, wh2;
        for(int k = 0; k < 8; ++k) { wi.push_back(pf::I((int32_t)((uint32_t)INT_MAX - 5 + k))); wh.push_back(pf::H((int64_t)((uint64_t)INT64_MAX - 5 + k)));
                                     wi2.push_back(pf::I((int32_t)((uint32_t)INT_MIN + 5 - k))); wh2.push_back(pf::H((int64_t)((uint64_t)INT64_MIN + 5 - k))); }
        for(const List *w : {&wi, &wh, &wi2, &wh2}) for(size_t from = 0; from < 4; ++from) for(size_t len = 5; from + len <= 8; ++len)
            do_list("run", idx++, List(w->begin() + from, w->begin() + from + len), FEW);
    }
    // two adjacent runs that share their boundary value (the second range starts where the first ended), at the very
    // start of the list and behind one other value; all combinations of deltas +1 / -1 / 0 / +3, 32 and 64 bit, chars, floats
    {
        auto mkv = [](char k, long v) { return k == 'i' ? pf::I((int32_t)v) : k == 'h' ? pf::H(v) : k == 'c' ? pf::C((char)v) : k == 'f' ? pf::Fl((float)v) : pf::D((double)v); };
        for(char k : {'i', 'h', 'c', 'f', 'd'}) for(long d1 : {1L, -1L, 0L, 3L}) for(long d2 : {1L, -1L, 0L, 3L}) for(int len1 : {5, 6}) for(int len2 : {5, 7}) {
            long start = k == 'c' ? 80 : 10;
            List L; long v = start;
            for(int i = 0; i < len1; ++i) { L.push_back(mkv(k, v)); if(i + 1 < len1) v += d1; }
            for(int i = 0; i < len2; ++i) { L.push_back(mkv(k, v)); v += d2; }     // first element repeats the boundary value
            do_list("run", idx++, L, FEW);
            List P{pf::Str("x")}; P.insert(P.end(), L.begin(), L.end()); do_list("run", idx++, P, FEW);
            List Q{mkv(k, start)}; Q.insert(Q.end(), L.begin(), L.end()); do_list("run", idx++, Q, FEW);
            do_list("run", idx++, List{pf::Arr(L)}, FEW);                                  // the same two runs as the elements of an array
            { List E{mkv(k, start + 40)}; E.insert(E.end(), L.begin(), L.end()); do_list("run", idx++, List{pf::Arr(E)}, FEW); }
        }
    }
    // runs whose FIRST step wraps around the end of the integer range (the first difference is +-1 only modulo 2^n)
    {
        for(int bits : {32, 64}) for(int dir : {+1, -1}) for(int len = 5; len <= 8; ++len) for(int ctx = 0; ctx < 4; ++ctx) {
            List L;
            if(ctx == 1) L.push_back(pf::Str("x")); if(ctx == 2) L.push_back(pf::Fl(1.5f));
            auto at = [&](int i) -> PV {
                // dir=+1: MAX, MIN, MIN+1, ... ; dir=-1: MIN, MAX, MAX-1, ...
                if(bits == 32) { uint32_t b = dir > 0 ? (uint32_t)INT_MAX : (uint32_t)INT_MIN; return pf::I((int32_t)(b + (uint32_t)(dir * i))); }
                uint64_t b = dir > 0 ? (uint64_t)INT64_MAX : (uint64_t)INT64_MIN; return pf::H((int64_t)(b + (uint64_t)((int64_t)dir * i)));
            };
            if(ctx == 3) L.push_back(at(0));      // behind an equal value
            for(int i = 0; i < len; ++i) L.push_back(at(i));
            do_list("run", idx++, L, FEW);
        }
    }
    // signed zeros: +0.0 and -0.0 compare equal but are different values ("scanned values equal the originals exactly"); constant and mixed runs
    {
        for(char k : {'f', 'd'}) for(int pat = 0; pat < 6; ++pat) for(int len = 5; len <= 7; ++len) for(int ctx = 0; ctx < 2; ++ctx) {
            List L; if(ctx) L.push_back(pf::I(3));
            for(int i = 0; i < len; ++i) {
                bool neg = pat == 0 ? true : pat == 1 ? (i % 2 == 1) : pat == 2 ? (i % 2 == 0) : pat == 3 ? (i == len - 1) : pat == 4 ? (i == 0) : (i == 2);
                L.push_back(k == 'f' ? pf::Fl(neg ? -0.0f : 0.0f) : pf::D(neg ? -0.0 : 0.0));
            }
            do_list("run", idx++, L, FEW);
            do_list("run", idx++, List{pf::Arr(List(L.begin() + ctx, L.end()))}, FEW);
        }
    }
    // runs with large steps: 64-bit steps that are +-1 or 0 modulo 2^32 or do not fit 32 bits at all, 32-bit runs that cross zero and
    // span more than 2^31 (k*step does not fit although every member does); alone, behind a string, behind a different value of the type
    {
        const int64_t P32 = (int64_t)1 << 32;
        for(int64_t d : {P32 + 1, P32 - 1, -(P32 + 1), -(P32 - 1), P32, -P32, (int64_t)1 << 31, -((int64_t)1 << 31), 2 * P32 + 1, (int64_t)5000000000LL, (int64_t)1 << 40, ((int64_t)1 << 53) + 1})
            for(int64_t start : {(int64_t)0, (int64_t)-3}) for(int len = 5; len <= 7; ++len) for(int ctx = 0; ctx < 3; ++ctx) {
                List L; if(ctx == 1) L.push_back(pf::Str("x")); if(ctx == 2) L.push_back(pf::H(start + 17));
                for(int i = 0; i < len; ++i) L.push_back(pf::H(start + (int64_t)i * d));
                do_list("run", idx++, L, FEW);
            }
        struct IR { int32_t start; int32_t step; int len; };
        for(IR r : {IR{-2000000000, 800000000, 5}, IR{-2000000000, 800000000, 6}, IR{2000000000, -800000000, 6}, IR{-2000000000, 40000000, 100}, IR{INT_MIN, 1 << 29, 8}, IR{INT_MAX, -(1 << 29), 8},
                    IR{INT_MIN + 1, 1 << 30, 5}, IR{-(1 << 30), 1 << 28, 8}, IR{-16777217, 8388609, 5}})
            for(int ctx = 0; ctx < 3; ++ctx) {
                List L; if(ctx == 1) L.push_back(pf::Str("x")); if(ctx == 2) L.push_back(pf::I(r.start + 17));
                for(int i = 0; i < r.len; ++i) L.push_back(pf::I((int32_t)((int64_t)r.start + (int64_t)i * r.step)));
                do_list("run", idx++, L, FEW);
            }
    }
    if(!g_stop) g_fam_done += "run ";
    // ---- family "arr": homogeneous arrays
    idx = 0;
    {
        std::vector<List> pools = {
            {pf::I(0), pf::I(-1), pf::I(7)}, {pf::H(0), pf::H(-1), pf::H(INT64_MAX)}, {pf::C('a'), pf::C('\''), pf::C(' ')},
            {pf::Fl(0.0f), pf::Fl(-1.5f), pf::Fl(0.1f)}, {pf::D(0.0), pf::D(-1.5), pf::D(0.1)},
            {pf::Str(""), pf::Str("a"), pf::Str("a\"b\nc")}, {pf::Sym("id"), pf::Sym("a b"), pf::Sym("")},
            {pf::Blob(""), pf::Blob("\x01"), pf::Blob(std::string("rt\x00sc", 5))}, {pf::Midi(0, 0, 0, 0), pf::Midi(0x90, 60, 127, 0), pf::Midi(255, 255, 255, 255)},
            {pf::Col(0), pf::Col(0x8badf00d), pf::Col(0xffffffff)}, {pf::mk('T'), pf::mk('F')},
            {pf::Imm(), pf::Tt(pf::utc_secs(2016, 11, 16, 0, 0, 0), 0), pf::Tt(pf::utc_secs(2016, 11, 16, 12, 34, 56), 0x80000000u)},
            {pf::mk('N')}, {pf::mk('I')}};
        List around = {pf::I(7), pf::Fl(0.1f), pf::Str("a"), pf::mk('T'), pf::Tt(pf::utc_secs(2016, 11, 16, 0, 0, 0), 0)};
        do_list("arr", idx++, List{pf::Arr({})});
        do_list("arr", idx++, List{pf::Arr({}), pf::Arr({})});
        for(auto &a : around) for(auto &b : around) do_list("arr", idx++, List{a, pf::Arr({}), b}, FEW);
        for(auto &pool : pools) for(size_t len = 1; len <= 4; ++len) {
            size_t total = 1; for(size_t i = 0; i < len; ++i) total *= pool.size();
            for(size_t code = 0; code < total; ++code) {
                List el; size_t c = code; for(size_t i = 0; i < len; ++i) { el.push_back(pool[c % pool.size()]); c /= pool.size(); }
                PV arr = pf::Arr(el);
                do_list("arr", idx++, List{arr});
                for(size_t x = 0; x < around.size(); ++x) for(size_t y = 0; y < around.size(); ++y) {
                    if(!T && ((x + y + code) % 5)) { ++idx; continue; }      // quick: one of five neighbour pairs, rotating
                    do_list("arr", idx++, List{around[x], arr, around[y]}, FEW);
                }
                if(code % 7 == 0) do_list("arr", idx++, List{arr, arr}, FEW); else ++idx;
            }
        }
        // arrays of arrays (the manual: arrays "can contain any types of elements")
        {
            List inner = {pf::Arr({}), pf::Arr({pf::I(1)}), pf::Arr({pf::I(0), pf::I(1)}), pf::Arr({pf::I(INT_MIN), pf::I(2)}), pf::Arr({pf::Str("ab"), pf::Str("")}), pf::Arr({pf::H(INT64_MAX)})};
            for(auto &x : inner) {
                do_list("arr", idx++, List{pf::Arr({x})});
                do_list("arr", idx++, List{pf::I(7), pf::Arr({x}), pf::I(7)});
                for(auto &y : inner) { do_list("arr", idx++, List{pf::Arr({x, y})}); do_list("arr", idx++, List{pf::mk('T'), pf::Arr({x, y})}, FEW);
                    if(T) for(auto &z : inner) do_list("arr", idx++, List{pf::Arr({x, y, z})}, FEW); }
            }
            do_list("arr", idx++, List{pf::Arr({pf::Arr({pf::Arr({pf::I(1), pf::I(2)}), pf::Arr({})}), pf::Arr({pf::Arr({pf::I(3)})})})});
        }
        auto defs = run_defs(T);
        for(auto &rd : defs) for(int len = 3; len <= 8; ++len) {
            List run; for(int i = 0; i < len; ++i) run.push_back(run_elem(rd.rs, rd.base, i));
            PV extra = run_elem(rd.rs, rd.base, (rd.rs.k == 'T' || rd.rs.k == 'F') ? 1 : 2);
            List a1 = run, a2 = run, a3 = run; a2.insert(a2.begin(), extra); a3.push_back(extra);
            for(const List *el : {&a1, &a2, &a3}) {
                do_list("arr", idx++, List{pf::Arr(*el)});
                do_list("arr", idx++, List{pf::I(7), pf::Arr(*el), pf::I(7)}, FEW);
                do_list("arr", idx++, List{extra, pf::Arr(*el), extra}, FEW);
            }
        }
    }
    if(!g_stop) g_fam_done += "arr ";
    // constant runs of equal arrays (compressed to "Nx[...]"): 4..7 copies of an empty and of non-empty arrays, alone and between scalars
    {
        std::vector<PV> arrs = {pf::Arr({}), pf::Arr({pf::I(0), pf::I(1)}), pf::Arr({pf::I(1), pf::I(2), pf::I(3)}), pf::Arr({pf::C('a'), pf::C('b')}),
                                pf::Arr({pf::Str("x")}), pf::Arr({pf::Fl(0.5f), pf::Fl(1.5f)}), pf::Arr({pf::mk('T'), pf::mk('F')})};
        for(auto &a : arrs) for(int k = 4; k <= 7; ++k) for(int ctx = 0; ctx < 4; ++ctx) {
            List L; if(ctx & 1) L.push_back(pf::I(42));
            for(int i = 0; i < k; ++i) L.push_back(a);
            if(ctx & 2) { L.push_back(pf::I(7)); L.push_back(pf::I(8)); }
            do_list("arr", idx++, L, FEW);
        }
    }
    // compressed structures nested or in sequence: runs of equal arrays whose elements form a run themselves (5x[1 ... 5], 6x[5x0 7]); a run of
    // equal arrays followed by a counting run; an arithmetic range followed by a counting run that starts at one of the range's own values
    {
        std::vector<PV> inner = {pf::Arr({pf::I(1), pf::I(2), pf::I(3), pf::I(4), pf::I(5)}), pf::Arr({pf::I(9), pf::I(7), pf::I(5), pf::I(3), pf::I(1), pf::I(-1)}),
                                 pf::Arr({pf::I(0), pf::I(0), pf::I(0), pf::I(0), pf::I(0), pf::I(7)}), pf::Arr({pf::C('a'), pf::C('b'), pf::C('c'), pf::C('d'), pf::C('e')}),
                                 pf::Arr({pf::Str("s"), pf::Str("s"), pf::Str("s"), pf::Str("s"), pf::Str("s")}), pf::Arr({pf::I(1), pf::I(2)})};
        for(auto &a : inner) for(int k = 4; k <= 6; ++k) for(int ctx = 0; ctx < 3; ++ctx) {
            List L; if(ctx == 1) L.push_back(pf::I(42)); for(int i = 0; i < k; ++i) L.push_back(a); if(ctx == 2) L.push_back(pf::I(7));
            do_list("arr", idx++, L, FEW);
            for(long d : {1L, -1L, 2L}) for(long first : {4L, 2L, 1L}) { List M = L; for(int i = 0; i < 5; ++i) M.push_back(pf::I((int32_t)(first + i * d))); do_list("arr", idx++, M, FEW); }
        }
        for(long d1 : {1L, 2L, -1L, 3L}) for(int len1 : {5, 6}) for(int pick = 0; pick < len1; ++pick) for(long d2 : {1L, -1L}) for(int ctx = 0; ctx < 2; ++ctx) {
            List L; if(ctx) L.push_back(pf::Str("x"));
            for(int i = 0; i < len1; ++i) L.push_back(pf::I((int32_t)(1 + i * d1)));
            long start = 1 + pick * d1;                         // the second run starts at the first run's pick-th value
            for(int i = 0; i < 5; ++i) L.push_back(pf::I((int32_t)(start + i * d2)));
            do_list("run", idx++, L, FEW);
        }
    }
    // an array directly followed by a counting run of the array's element type (the value printed before a range decides whether
    // the range's second value can be left out): every delta, run starting at / next to / away from the array's last element
    {
        auto mkv = [](char k, long v) { return k == 'i' ? pf::I((int32_t)v) : k == 'h' ? pf::H(v) : k == 'c' ? pf::C((char)v) : k == 'f' ? pf::Fl((float)v) : pf::D((double)v); };
        for(char k : {'i', 'h', 'c', 'f', 'd'}) for(long d : {1L, -1L, 0L, 3L}) for(long first : {72L, 73L, 71L, 90L}) for(int len : {5, 6}) for(int alen : {1, 3}) for(int ctx = 0; ctx < 3; ++ctx) {
            List el; for(int i = 0; i < alen; ++i) el.push_back(mkv(k, 72 - (alen - 1) + i));          // ... 71 72
            List L; if(ctx == 1) L.push_back(pf::Str("x"));
            L.push_back(pf::Arr(el));
            if(ctx == 2) L.push_back(pf::Arr({}));
            for(int i = 0; i < len; ++i) L.push_back(mkv(k, first + i * d));
            do_list("arr", idx++, L, FEW);
        }
    }
    // ---- family "str": strings and symbols
    idx = 0;
    for(auto &s0 : STRINGS) for(char k : {'s', 'S'}) {
        PV s = s0; s.k = k;
        do_list("str", idx++, List{s});
        do_list("str", idx++, List{pf::I(1), s, pf::C('x')}, FEW);
        do_list("str", idx++, List{s, s}, FEW);
        if(T) { do_list("str", idx++, List{pf::Str("q"), s, pf::Sym("id")}, FEW); do_list("str", idx++, List{pf::Arr({s, s})}, FEW); }
    }
    if(!g_stop) g_fam_done += "str ";
    // ---- family "chr"
    idx = 0;
    for(auto &c : CHARS) { do_list("chr", idx++, List{c}); do_list("chr", idx++, List{pf::I(-1), c, pf::Str("s")}, FEW); }
    if(T) for(auto &a : CHARS) for(auto &b : CHARS) do_list("chr", idx++, List{a, b}, FEW);
    if(!g_stop) g_fam_done += "chr ";
    // ---- family "time"
    idx = 0;
    for(auto &t : TIMES) {
        do_list("time", idx++, List{t});
        for(auto &v : V) { do_list("time", idx++, List{t, v}, FEW); do_list("time", idx++, List{v, t}, FEW); }
        if(T) for(auto &u : TIMES) do_list("time", idx++, List{t, u}, FEW);
    }
    // time-tag fractions: every position of the leading bit (2^-1 .. 2^-32) x the mantissa shapes a float can hold exactly (1 bit, 2 adjacent
    // bits, leading + last bit of the 24-bit window, all 24 bits set, the 0.1f / 0.3f bit patterns shifted there), on two dates
    {
        std::vector<uint32_t> fracs;
        for(int p = 31; p >= 0; --p) {
            int lo = p - 23 < 0 ? 0 : p - 23;
            uint32_t top = 1u << p, win = (p == 31 ? 0xffffffffu : ((1u << (p + 1)) - 1)) & ~((1u << lo) - 1);
            for(uint32_t pat : {top, top | (top >> 1), top | (1u << lo), win, (0xCCCCCD00u >> (31 - p)) & win, (0x99999A00u >> (31 - p)) & win})
                if(pat && std::find(fracs.begin(), fracs.end(), pat) == fracs.end()) fracs.push_back(pat);
        }
        for(uint32_t f : fracs) for(int dsel = 0; dsel < 2; ++dsel) {
            PV t = dsel ? pf::Tt(pf::utc_secs(2016, 11, 16, 12, 34, 56), f) : pf::Tt(pf::utc_secs(1970, 1, 2, 0, 0, 0), f);
            do_list("time", idx++, List{t});
            do_list("time", idx++, List{pf::I(1), t, pf::Fl(0.5f)}, FEW);
        }
    }
    if(!g_stop) g_fam_done += "time ";
    // ---- family "flt": the float/double lattice
    idx = 0;
    {
        const int fstep = T ? 1 : 8, dstep = T ? 1 : 64;
        for(uint32_t sign = 0; sign < 2; ++sign) for(uint32_t e = 0; e < 255; e += fstep) {
            std::vector<uint32_t> mant = {0, 1, 0x7fffff}; for(int k = 1; k < 23; ++k) mant.push_back(1u << k);
            for(uint32_t m : mant) {
                PV f = pf::Fb((sign << 31) | (e << 23) | m);
                do_list("flt", idx++, List{f}, FEW);
                do_list("flt", idx++, List{f, pf::I(1)}, FEW);
                do_list("flt", idx++, List{pf::I(-1), f}, FEW);
            }
        }
        for(uint64_t sign = 0; sign < 2; ++sign) for(uint64_t e = 0; e < 2047; e += dstep) {
            for(uint64_t m : {(uint64_t)0, (uint64_t)1, (uint64_t)1 << 51, ((uint64_t)1 << 52) - 1}) {
                PV d = pf::Db((sign << 63) | (e << 52) | m);
                do_list("flt", idx++, List{d}, FEW);
                do_list("flt", idx++, List{d, pf::I(1)}, FEW);
                do_list("flt", idx++, List{pf::I(-1), d}, FEW);
            }
        }
    }
    if(!g_stop) g_fam_done += "flt ";
    return vp::finish();
}
