// C19 - AutomationMgr: automation output stays in range, MIDI-learn requests are served in order.
//
// BFS over operation histories replayed on a fresh real rtosc::AutomationMgr (placement-constructed in
// memory pre-filled with 0x00 / 0xFF because AutomationMgr::NRPN, impl and instance are never initialised).
// The first op of every history chooses the configuration (slots, per_slot, fill byte); main runs one
// engine per configuration so that small managers can be searched deeper (to a fixpoint if the frontier
// empties) than large ones.
//
// Reference model (written from the property statement and include/rtosc/automations.h only):
//   * binding table: per slot and sub-automation "unused" or (port, gain, offset)
//   * learn queue : FIFO of slots that asked for MIDI learn; position k in the FIFO <=> learning == k,
//                   not waiting <=> learning == -1, learn_queue_len == FIFO length
//   * controllers : controller (CC id / NRPN id) -> slot, set when an unbound controller arrives while
//                   the FIFO is non-empty (head is bound and only it), removed only by clearSlot
//   * values      : a slot value v drives every used sub-automation of the slot: one message per used sub,
//                   to its address, with its type, inside [min,max]; monotone in v for positive gain; at
//                   gain 100 / offset 0 and v in [0,1] equal to min + v*(max-min) (log scale: within 1e-5)
//
// Don't-care zones (the statement is silent, the model follows the object):
//   * which free sub-automation of a slot createBinding picks
//   * a learn request made by createBinding on a slot without a free sub-automation, or on a slot that is
//     already bound to a controller (queued or ignored, whatever the object does; if such a slot is served
//     the new controller replaces the old one of the same kind)
//   * order of the messages of one setSlot call (matched to the slot's bindings by address)
//   * the value sent on the very CC that gets learned, the return value of handleMidi
//   * the value a toggle takes at exactly v == 0.5, rounding direction of integer parameters at .5
//   * monotonicity for negative gain; exact values for gain/offset other than 100/0 (range only)
#include <cmath>
#include <deque>
#include <algorithm>
#include <functional>
#include <new>
#include <rtosc/ports.h>
#include <rtosc/port-sugar.h>
#include <rtosc/automations.h>
#include "bfs.h"
#include "refosc.h"

namespace { struct Synth { float foo; int vol; bool on; float freq; }; }
#define rObject Synth
static const rtosc::Ports g_ports = {
    rParamF(foo, rLinear(-1, 10), "linear float"),
    rParamI(vol, rLinear(0, 127), "linear int"),
    rToggle(on, "toggle"),
    rParamF(freq, rLog(0.1, 100), "log float"),
};
#undef rObject

// what the application declared (the oracle's knowledge of the ports; not read back from the object)
struct PInfo { const char *path; char type; double mn, mx; bool log; const char *cls; };
static const PInfo PORT[4] = {{"/foo", 'f', -1, 10, false, "linear-float"}, {"/vol", 'i', 0, 127, false, "linear-int"},
                              {"/on", 'T', 0, 1, false, "toggle"}, {"/freq", 'f', 0.1, 100, true, "log-float"}};
static const float GAIN[3] = {100.f, 50.f, -100.f};
static const float OFFS[2] = {0.f, 10.f};
static const int CCID[3] = {1, 2, 3};
static const int CCVAL[3] = {0, 64, 127};
static const int NRPN_ID[2][2] = {{1, 2}, {0, 5}};               // (parhi, parlo)
static const int NRPN_VAL[3][2] = {{0, 0}, {64, 0}, {127, 127}}; // (valhi, vallo)
static const float SWEEP[7] = {-0.5f, 0.f, 0.25f, 0.5f, 0.75f, 1.f, 1.5f};

struct Cfg { int S, P; unsigned char fill; int dq, dt; };   // depth after the configuration op: quick, thorough
static const Cfg CFG[] = {
    {2, 1, 0xFF, 6, 40}, {2, 1, 0x00, 5, 8}, {2, 2, 0xFF, 5, 6}, {2, 2, 0x00, 0, 5}, {3, 1, 0xFF, 5, 6}, {3, 1, 0x00, 0, 5},
    {3, 2, 0xFF, 0, 5}, {3, 2, 0x00, 0, 4}, {4, 1, 0xFF, 0, 5}, {4, 1, 0x00, 0, 4},
    {2, 3, 0xFF, 0, 4}, {3, 3, 0x00, 0, 3}, {5, 1, 0xFF, 0, 4}, {6, 1, 0x00, 0, 4}, {6, 3, 0xFF, 0, 3}};
enum { NCFG = sizeof(CFG) / sizeof(CFG[0]), MS = 6, MP = 3 };
static int g_only_cfg = -1;   // engine run restricted to one configuration (-1: all of the tier)

enum { OP_CFG = 0, OP_CREATE = 100, OP_CLEAR = 150, OP_CLRSUB = 160, OP_GAIN = 180, OP_OFFS = 240, OP_MIDI = 280, OP_NRPN = 290, OP_SWEEP = 300, OP_END = 306 };   // sized for MS slots x MP subs

struct Emit { bool ok; std::string addr, types; uint32_t u32; };

static std::string fstr(double v) { char b[40]; snprintf(b, sizeof b, "%.9g", v); return b; }

struct Sys {
    struct MSub { bool used = false; int port = 0, gain = 0, off = 0; };
    struct Inst {
        alignas(16) unsigned char mem[sizeof(rtosc::AutomationMgr)];
        rtosc::AutomationMgr *m = nullptr;
        int cfg = -1, S = 0, P = 0;
        std::vector<Emit> emitted;
        // ---- model
        MSub sub[MS][MP];
        std::deque<int> q;                 // learn FIFO (slots)
        int ccmap[3] = {-1, -1, -1};       // CC id index -> slot
        int nrpnmap[2] = {-1, -1};         // NRPN id index -> slot
        bool diverged = false;
        Inst() {}
        Inst(const Inst &) = delete;
        ~Inst() { if(m) m->~AutomationMgr(); }
        void configure(int c)
        {
            cfg = c; S = CFG[c].S; P = CFG[c].P;
            memset(mem, CFG[c].fill, sizeof mem);
            m = new(mem) rtosc::AutomationMgr(S, P, 16);
            m->set_ports(g_ports);
            m->backend = [this](const char *msg) {
                Emit e; e.ok = false; e.u32 = 0;
                size_t len = rtosc_message_length(msg, 256);
                ref::Decoded d = ref::decode((const uint8_t *)msg, len ? len : 256);
                if(d.ok && d.args.size() <= 1) { e.ok = true; e.addr = d.addr; e.types = d.types; e.u32 = d.args.empty() ? 0 : d.args[0].u32; }
                else e.addr = std::string(msg, strnlen(msg, 64));
                emitted.push_back(e);
            };
        }
        bool waiting(int s) const { for(int x : q) if(x == s) return true; return false; }
        bool cc_bound(int s) const { for(int x : ccmap) if(x == s) return true; return false; }
        bool nrpn_bound(int s) const { for(int x : nrpnmap) if(x == s) return true; return false; }
        int used_subs(int s) const { int n = 0; for(int i = 0; i < P; ++i) n += sub[s][i].used; return n; }
    };

    static bool probe(int op) { return op >= OP_SWEEP; }
    static std::string opname(int op)
    {
        char b[96];
        if(op < OP_CREATE) { const Cfg &c = CFG[op]; snprintf(b, sizeof b, "mgr(slots=%d,per_slot=%d,fill=%02x)", c.S, c.P, c.fill); }
        else if(op < OP_CLEAR) { int k = op - OP_CREATE; snprintf(b, sizeof b, "createBinding(%d,%s,%s)", k / 8, PORT[(k / 2) % 4].path, k % 2 ? "learn" : "nolearn"); }
        else if(op < OP_CLRSUB) snprintf(b, sizeof b, "clearSlot(%d)", op - OP_CLEAR);
        else if(op < OP_GAIN) snprintf(b, sizeof b, "clearSlotSub(%d,%d)", (op - OP_CLRSUB) / MP, (op - OP_CLRSUB) % MP);
        else if(op < OP_OFFS) { int k = op - OP_GAIN; snprintf(b, sizeof b, "gain(%d,%d,%g)", k / (3 * MP), (k / 3) % MP, GAIN[k % 3]); }
        else if(op < OP_MIDI) { int k = op - OP_OFFS; snprintf(b, sizeof b, "offset(%d,%d,%g)", k / (2 * MP), (k / 2) % MP, OFFS[k % 2]); }
        else if(op < OP_NRPN) { int k = op - OP_MIDI; snprintf(b, sizeof b, "cc(%d,%d)", CCID[k / 3], CCVAL[k % 3]); }
        else if(op < OP_SWEEP) { int k = op - OP_NRPN; snprintf(b, sizeof b, "nrpn(%d:%d,%d:%d)", NRPN_ID[k / 3][0], NRPN_ID[k / 3][1], NRPN_VAL[k % 3][0], NRPN_VAL[k % 3][1]); }
        else snprintf(b, sizeof b, "sweep(%d)", op - OP_SWEEP);
        return b;
    }

    static void ops(const Inst &I, std::vector<int> &out)
    {
        if(I.diverged) return;
        if(!I.m) {
            for(int c = 0; c < NCFG; ++c) {
                if(g_only_cfg >= 0 ? c != g_only_cfg : (vp::thorough() ? CFG[c].dt : CFG[c].dq) == 0) continue;
                out.push_back(OP_CFG + c);
            }
            return;
        }
        for(int s = 0; s < I.S; ++s) for(int k = 0; k < 8; ++k) out.push_back(OP_CREATE + s * 8 + k);
        for(int s = 0; s < I.S; ++s) out.push_back(OP_CLEAR + s);
        for(int s = 0; s < I.S; ++s) for(int i = 0; i < I.P; ++i) out.push_back(OP_CLRSUB + s * MP + i);
        // gain / offset of a sub-automation that is not bound: the statement says nothing about it -> not in the alphabet
        for(int s = 0; s < I.S; ++s) for(int i = 0; i < I.P; ++i) if(I.sub[s][i].used) for(int g = 0; g < 3; ++g) out.push_back(OP_GAIN + (s * MP + i) * 3 + g);
        for(int s = 0; s < I.S; ++s) for(int i = 0; i < I.P; ++i) if(I.sub[s][i].used) for(int o = 0; o < 2; ++o) out.push_back(OP_OFFS + (s * MP + i) * 2 + o);
        for(int k = 0; k < 9; ++k) out.push_back(OP_MIDI + k);
        for(int k = 0; k < 6; ++k) out.push_back(OP_NRPN + k);
        for(int s = 0; s < I.S; ++s) out.push_back(OP_SWEEP + s);
    }

    // ------------------------------------------------------------------ oracle helpers
    static void bad(Inst &I, bool check, const std::string &sig, const std::string &detail)
    {
        if(check) vp::violation(sig, vp::current_case(), detail);
        I.diverged = true;
    }

    // decoded value of a message as a number (toggle: 0/1); false if the type does not fit the port
    static bool value_of(const PInfo &p, const Emit &e, double &num)
    {
        if(!e.ok) return false;
        if(p.type == 'f') { if(e.types != "f") return false; float f; memcpy(&f, &e.u32, 4); num = f; return true; }
        if(p.type == 'i') { if(e.types != "i") return false; num = (double)(int32_t)e.u32; return true; }
        if(e.types == "T") { num = 1; return true; }
        if(e.types == "F") { num = 0; return true; }
        return false;
    }
    static bool in_range(const PInfo &p, double num)
    {
        if(!(num == num)) return false;
        if(p.type == 'T') return num == 0 || num == 1;
        if(p.log) return num >= p.mn * (1 - 1e-5) && num <= p.mx * (1 + 1e-5);
        return num >= p.mn && num <= p.mx;
    }
    // min + v*(max-min) at default gain/offset, v in [0,1]
    static bool default_map_ok(const PInfo &p, double v, double num, std::string &expect)
    {
        if(p.type == 'T') { expect = v > 0.5 ? "T" : v < 0.5 ? "F" : "T or F"; return v == 0.5 || num == (v > 0.5 ? 1 : 0); }
        if(p.log) { double e = p.mn * pow(p.mx / p.mn, v); expect = fstr(e) + " within 1e-5 relative"; return fabs(num - e) <= 1e-5 * e; }
        double e = p.mn + v * (p.mx - p.mn);
        if(p.type == 'i') { expect = fstr(e) + " rounded to an integer"; return fabs(num - e) <= 0.5 + 1e-4 && num == floor(num); }
        expect = fstr(e);
        double scale = std::max(fabs(p.mn), fabs(p.mx));
        return fabs(num - e) <= 2e-6 * scale;   // a few float ulps: v itself is a float
    }
    static std::string show_msg(const Emit &e)
    {
        if(!e.ok) return "undecodable '" + vp::show(e.addr) + "'";
        std::string s = e.addr + " ," + e.types;
        if(e.types == "f") { float f; memcpy(&f, &e.u32, 4); s += " " + fstr(f); }
        else if(e.types == "i") s += " " + std::to_string((int32_t)e.u32);
        return s;
    }
    static std::string show_msgs(const std::vector<Emit> &v) { std::string s = "["; for(size_t i = 0; i < v.size(); ++i) s += (i ? "; " : "") + show_msg(v[i]); return s + "]"; }

    // Match the emitted messages to the used sub-automations of slot s (by address, first unmatched binding
    // with that address). all: every used sub must have produced exactly one message. Checks address, type
    // and range of every message. sub_of[k] = sub index of message k.
    static bool match_slot(Inst &I, bool check, int s, bool all, const char *site, std::vector<int> &sub_of)
    {
        bool taken[MP] = {false, false};
        sub_of.clear();
        for(const Emit &e : I.emitted) {
            int hit = -1;
            for(int i = 0; i < I.P && hit < 0; ++i) if(I.sub[s][i].used && !taken[i] && e.ok && e.addr == PORT[I.sub[s][i].port].path) hit = i;
            if(hit < 0) {
                bad(I, check, std::string("msg-address|") + site + "|not-a-binding-of-the-driven-slot",
                    "slot " + std::to_string(s) + " was driven; emitted " + show_msgs(I.emitted) + "; message '" + show_msg(e) + "' matches no (remaining) binding of that slot");
                return false;
            }
            taken[hit] = true; sub_of.push_back(hit);
            const PInfo &p = PORT[I.sub[s][hit].port];
            double num;
            if(!value_of(p, e, num)) { bad(I, check, std::string("msg-type|") + site + "|" + p.cls, "message '" + show_msg(e) + "' for a parameter of type " + std::string(1, p.type)); return false; }
            if(!in_range(p, num)) { bad(I, check, std::string("msg-range|") + site + "|" + p.cls, "message '" + show_msg(e) + "' outside [" + fstr(p.mn) + "," + fstr(p.mx) + "]"); return false; }
        }
        if(all) for(int i = 0; i < I.P; ++i) if(I.sub[s][i].used && !taken[i]) {
            bad(I, check, std::string("msg-count|") + site + "|binding-not-driven",
                "slot " + std::to_string(s) + " sub " + std::to_string(i) + " (" + PORT[I.sub[s][i].port].path + ") got no message; emitted " + show_msgs(I.emitted));
            return false;
        }
        return true;
    }
    // messages in an operation that drives no slot: none are expected by the model; if there are any, they must
    // at least be messages of some binding (address/type/range) - the statement forbids nothing more
    static bool no_drive(Inst &I, bool check, const char *site)
    {
        for(const Emit &e : I.emitted) {
            bool ok = false;
            for(int s = 0; s < I.S && !ok; ++s) for(int i = 0; i < I.P && !ok; ++i) {
                if(!I.sub[s][i].used) continue;
                const PInfo &p = PORT[I.sub[s][i].port]; double num;
                ok = e.ok && e.addr == p.path && value_of(p, e, num) && in_range(p, num);
            }
            if(!ok) { bad(I, check, std::string("msg-unexpected|") + site + "|no-slot-driven", "emitted " + show_msgs(I.emitted) + " although no slot is driven by this operation and '" + show_msg(e) + "' fits no binding"); return false; }
        }
        if(check && !I.emitted.empty()) vp::outcome(std::string("dontcare:messages-in-") + site);
        return true;
    }

    // learn state and binding table of the object against the model
    static bool verify_fields(Inst &I, bool check, const char *site, const std::string &shape)
    {
        const rtosc::AutomationMgr &m = *I.m;
        bool ok = m.learn_queue_len == (int)I.q.size(), ctrl_ok = true;
        int el[MS], ecc[MS], enr[MS], ncc[MS], nnr[MS];
        for(int s = 0; s < I.S; ++s) {
            el[s] = -1; for(size_t k = 0; k < I.q.size(); ++k) if(I.q[k] == s) el[s] = (int)k + 1;
            ecc[s] = -1; ncc[s] = 0; for(int c = 0; c < 3; ++c) if(I.ccmap[c] == s) { ecc[s] = CCID[c]; ++ncc[s]; }
            enr[s] = -1; nnr[s] = 0; for(int c = 0; c < 2; ++c) if(I.nrpnmap[c] == s) { enr[s] = NRPN_ID[c][0] * 128 + NRPN_ID[c][1]; ++nnr[s]; }
            if(m.slots[s].learning != el[s]) ok = false;
            if(ncc[s] > 1 || nnr[s] > 1 || m.slots[s].midi_cc != ecc[s] || m.slots[s].midi_nrpn != enr[s]) ok = ctrl_ok = false;
        }
        if(!ok) {
            std::string exp, got;
            for(int s = 0; s < I.S; ++s) {
                exp += "slot" + std::to_string(s) + "{learning=" + std::to_string(el[s]) + " cc=" + (ncc[s] > 1 ? "several" : std::to_string(ecc[s])) + " nrpn=" + (nnr[s] > 1 ? "several" : std::to_string(enr[s])) + "} ";
                got += "slot" + std::to_string(s) + "{learning=" + std::to_string(m.slots[s].learning) + " cc=" + std::to_string(m.slots[s].midi_cc) + " nrpn=" + std::to_string(m.slots[s].midi_nrpn) + "} ";
            }
            exp += "queue_len=" + std::to_string(I.q.size()); got += "queue_len=" + std::to_string(m.learn_queue_len);
            // shape class also says which part disagrees: the controller fields (midi_cc / midi_nrpn) or the queue (learning positions / length)
            bad(I, check, std::string("learn-state|") + site + "|" + shape + (ctrl_ok ? ",queue" : ",controller"), "after " + std::string(site) + ": object " + got + "; model " + exp);
            return false;
        }
        for(int s = 0; s < I.S; ++s) for(int i = 0; i < I.P; ++i) {
            const rtosc::Automation &a = m.slots[s].automations[i];
            bool same = a.used == I.sub[s][i].used && (!a.used || std::string(a.param_path, strnlen(a.param_path, sizeof a.param_path)) == PORT[I.sub[s][i].port].path);
            if(!same) {
                bad(I, check, std::string("binding-table|") + site + "|" + shape, "slot " + std::to_string(s) + " sub " + std::to_string(i) + ": object used=" + std::to_string(a.used) + " path='" +
                    vp::show(std::string(a.param_path, strnlen(a.param_path, sizeof a.param_path))) + "', model " + (I.sub[s][i].used ? PORT[I.sub[s][i].port].path : "unused"));
                return false;
            }
        }
        return true;
    }

    // a controller with value x (0..1) drove slot s: every used sub got its message; at default gain/offset the value is the linear image of x
    static void check_drive(Inst &I, bool check, int s, double x, const char *site)
    {
        std::vector<int> sub_of;
        if(!match_slot(I, check, s, true, site, sub_of)) return;
        for(size_t k = 0; k < I.emitted.size(); ++k) {
            const MSub &ms = I.sub[s][sub_of[k]];
            if(ms.gain != 0 || ms.off != 0) continue;
            const PInfo &p = PORT[ms.port]; double num; std::string expect;
            value_of(p, I.emitted[k], num);
            if(!default_map_ok(p, x, num, expect)) { bad(I, check, std::string("map-default|") + site + "|" + p.cls, "controller value " + fstr(x) + " on slot " + std::to_string(s) + ": got '" + show_msg(I.emitted[k]) + "', expected " + expect); return; }
        }
        float sv = I.m->getSlot(s);
        if(fabs(sv - x) > 1e-6) { bad(I, check, std::string("slot-value|") + site + "|bound-controller", "getSlot(" + std::to_string(s) + ")=" + fstr(sv) + " after the controller sent " + fstr(x)); return; }
    }

    // controller event (CC or complete NRPN sequence) already executed on the object; map = the model's controller table entry
    static void controller_event(Inst &I, bool check, int *map, int nmap, int c, double x, const char *site)
    {
        int &entry = map[c];
        std::string shape = std::string(entry >= 0 ? "bound-controller" : "unbound-controller") + (I.q.empty() ? ",queue-empty" : ",queue-nonempty");
        int driven = -1; bool learned = false;
        if(entry >= 0) driven = entry;
        else if(!I.q.empty()) {
            driven = I.q.front(); I.q.pop_front(); learned = true;
            // don't care: a slot that was already bound to a controller of this kind and was allowed to learn again
            // (see createBinding) is re-bound: the new controller replaces the old one
            for(int k = 0; k < nmap; ++k) if(map[k] == driven) { map[k] = -1; if(check) vp::outcome(std::string("dontcare:relearn-replaces-controller:") + site); }
            entry = driven;
        }
        if(!verify_fields(I, check, site, shape)) return;
        if(driven < 0) { no_drive(I, check, site); if(check) vp::outcome(std::string(site) + ":" + shape + ":ignored"); return; }
        if(learned) {
            // the value sent on the learning event itself is a don't care, but whatever is emitted belongs to the newly bound slot
            std::vector<int> sub_of;
            if(match_slot(I, check, driven, false, site, sub_of) && check) vp::outcome(std::string(site) + ":" + shape + ":learned:" + std::to_string(I.emitted.size()) + "msgs");
            return;
        }
        check_drive(I, check, driven, x, site);
        if(check && !I.diverged) vp::outcome(std::string(site) + ":" + shape + ":drove:" + std::to_string(I.emitted.size()) + "msgs");
    }

    static void sweep(Inst &I, int s)
    {
        rtosc::AutomationMgr &m = *I.m;
        const float keep = m.slots[s].current_state;
        double val[MP][7]; bool have[MP] = {false, false};
        for(int k = 0; k < 7 && !I.diverged; ++k) {
            I.emitted.clear();
            m.setSlot(s, SWEEP[k]);
            vp::transition();
            std::vector<int> sub_of;
            if(!match_slot(I, true, s, true, "setSlot", sub_of)) break;
            for(size_t j = 0; j < I.emitted.size(); ++j) { value_of(PORT[I.sub[s][sub_of[j]].port], I.emitted[j], val[sub_of[j]][k]); have[sub_of[j]] = true; }
        }
        m.slots[s].current_state = keep;
        if(I.diverged) return;
        for(int i = 0; i < I.P; ++i) {
            if(!have[i]) continue;
            const MSub &ms = I.sub[s][i]; const PInfo &p = PORT[ms.port];
            std::string row; for(int k = 0; k < 7; ++k) row += (k ? "," : "") + fstr(val[i][k]);
            std::string what = std::string(p.path) + " gain=" + fstr(GAIN[ms.gain]) + " offset=" + fstr(OFFS[ms.off]);
            if(GAIN[ms.gain] > 0) for(int k = 1; k < 7; ++k) {
                double tol = p.log ? 1e-5 * fabs(val[i][k - 1]) : 0;
                if(val[i][k] < val[i][k - 1] - tol) {
                    bad(I, true, std::string("map-monotone|setSlot|") + p.cls, what + ": values for v=-0.5,0,0.25,0.5,0.75,1,1.5 are " + row);
                    return;
                }
            }
            if(ms.gain == 0 && ms.off == 0) for(int k = 1; k <= 5; ++k) {
                std::string expect;
                if(!default_map_ok(p, SWEEP[k], val[i][k], expect)) {
                    bad(I, true, std::string("map-default|setSlot|") + p.cls, what + ": setSlot(" + std::to_string(s) + "," + fstr(SWEEP[k]) + ") sent " + fstr(val[i][k]) + ", expected " + expect + " (all: " + row + ")");
                    return;
                }
            }
            vp::outcome("sweep:" + what + " -> " + row);
        }
        if(I.used_subs(s) == 0) vp::outcome("sweep:unbound-slot -> no message");
    }

    // ------------------------------------------------------------------ transition
    // a C++ exception escaping from the library is a finding of the operation that raised it, not a harness crash
    static void apply(Inst &I, int op, bool check)
    {
        try { apply_op(I, op, check); }
        catch(const std::exception &e) { bad(I, check, "exception|" + opname(op).substr(0, opname(op).find('(')) + "|" + e.what(), std::string("the library threw ") + e.what()); }
    }
    static void apply_op(Inst &I, int op, bool check)
    {
        I.emitted.clear();
        if(op < OP_CREATE) { I.configure(op - OP_CFG); return; }
        rtosc::AutomationMgr &m = *I.m;
        if(op < OP_CLEAR) {
            int k = op - OP_CREATE, s = k / 8, p = (k / 2) % 4; bool learn = k % 2;
            if(s >= I.S) return;
            int nfree = I.P - I.used_subs(s);
            m.createBinding(s, PORT[p].path, learn);
            std::string shape = std::string(learn ? "learn" : "nolearn") + (nfree ? "" : ",slot-full");
            // which sub took the binding is the object's choice: exactly one previously unused sub if there was one
            std::vector<int> fresh;
            for(int i = 0; i < I.P; ++i) if(m.slots[s].automations[i].used && !I.sub[s][i].used) fresh.push_back(i);
            if((int)fresh.size() != (nfree ? 1 : 0)) {
                bad(I, check, "binding-table|createBinding|" + shape, std::to_string(fresh.size()) + " sub-automations of slot " + std::to_string(s) + " became used, " + std::to_string(nfree) + " were free");
                return;
            }
            if(nfree) { MSub &ms = I.sub[s][fresh[0]]; ms.used = true; ms.port = p; ms.gain = 0; ms.off = 0; }
            if(learn && !I.waiting(s)) {
                if(nfree == 0 || I.cc_bound(s) || I.nrpn_bound(s)) {
                    // don't care: the request may be queued or ignored, whatever the object does
                    bool queued = m.slots[s].learning == (int)I.q.size() + 1;
                    if(queued) I.q.push_back(s);
                    if(check) vp::outcome(std::string("dontcare:learn-request-on-") + (nfree == 0 ? "full-slot" : I.cc_bound(s) ? "cc-bound-slot" : "nrpn-bound-slot") + (queued ? ":queued" : ":ignored"));
                } else I.q.push_back(s);
            }
            if(!verify_fields(I, check, "createBinding", shape)) return;
            no_drive(I, check, "createBinding");
            return;
        }
        if(op < OP_CLRSUB) {
            int s = op - OP_CLEAR;
            if(s >= I.S) return;
            std::string shape = I.waiting(s) ? "cleared-slot-waiting" : "cleared-slot-not-waiting";
            m.clearSlot(s);
            for(auto it = I.q.begin(); it != I.q.end();) it = *it == s ? I.q.erase(it) : it + 1;
            for(int &x : I.ccmap) if(x == s) x = -1;
            for(int &x : I.nrpnmap) if(x == s) x = -1;
            for(int i = 0; i < I.P; ++i) I.sub[s][i] = MSub();
            if(!verify_fields(I, check, "clearSlot", shape)) return;
            no_drive(I, check, "clearSlot");
            return;
        }
        if(op < OP_GAIN) {
            int s = (op - OP_CLRSUB) / MP, i = (op - OP_CLRSUB) % MP;
            if(s >= I.S || i >= I.P) return;
            m.clearSlotSub(s, i);
            I.sub[s][i] = MSub();
            if(!verify_fields(I, check, "clearSlotSub", I.waiting(s) ? "slot-waiting" : "slot-not-waiting")) return;
            no_drive(I, check, "clearSlotSub");
            return;
        }
        if(op < OP_MIDI) {
            bool is_gain = op < OP_OFFS;
            int k = is_gain ? op - OP_GAIN : op - OP_OFFS, per = is_gain ? 3 : 2;
            int s = k / (MP * per), i = (k / per) % MP, v = k % per;
            if(s >= I.S || i >= I.P) return;
            if(is_gain) { m.setSlotSubGain(s, i, GAIN[v]); I.sub[s][i].gain = v; }
            else { m.setSlotSubOffset(s, i, OFFS[v]); I.sub[s][i].off = v; }
            m.updateMapping(s, i);
            if(!verify_fields(I, check, is_gain ? "setSlotSubGain" : "setSlotSubOffset", "-")) return;
            no_drive(I, check, is_gain ? "setSlotSubGain" : "setSlotSubOffset");
            return;
        }
        if(op < OP_NRPN) {
            int k = op - OP_MIDI, c = k / 3, v = CCVAL[k % 3];
            m.handleMidi(0, CCID[c], v);
            controller_event(I, check, I.ccmap, 3, c, v / 127.0, "handleMidi-cc");
            return;
        }
        if(op < OP_SWEEP) {
            int k = op - OP_NRPN, c = k / 3; const int *v = NRPN_VAL[k % 3];
            m.handleMidi(0, C_nrpnhi, NRPN_ID[c][0]);
            m.handleMidi(0, C_nrpnlo, NRPN_ID[c][1]);
            m.handleMidi(0, C_dataentryhi, v[0]);
            m.handleMidi(0, C_dataentrylo, v[1]);
            controller_event(I, check, I.nrpnmap, 2, c, (v[0] * 128 + v[1]) / 16383.0, "nrpn-sequence");
            return;
        }
        if(check && op - OP_SWEEP < I.S) sweep(I, op - OP_SWEEP);
    }

    // Canon: every field of the object that an operation of the alphabet reads, plus the model.
    // Left out on purpose: slot.current_state (written by setSlot, read only by getSlot, which the harness calls
    // right after the write), slot.name, impl/instance/p (pointers).
    // fast appenders (snprintf dominated the profile): hex digits of the two's complement value, blank terminated
    static void put(std::string &s, long v)
    {
        char b[20]; int n = 0; unsigned long u = (unsigned long)v & 0xffffffffUL;
        do { b[n++] = "0123456789abcdef"[u & 15]; u >>= 4; } while(u);
        b[n++] = ' ';
        s.append(b, n);
    }
    static void putf(std::string &s, float f) { uint32_t u; memcpy(&u, &f, 4); put(s, (long)u); }
    static std::string canon(const Inst &I)
    {
        if(!I.m) return "unconfigured";
        if(I.diverged) return "DIVERGED (reported; never expanded)";
        const rtosc::AutomationMgr &m = *I.m;
        std::string s; s.reserve(256 + 160 * I.S * I.P);
        s += "cfg "; put(s, I.cfg); put(s, m.nslots); put(s, m.per_slot); put(s, m.active_slot); put(s, m.learn_queue_len); put(s, m.damaged);
        for(int i = 0; i < I.S; ++i) {
            const rtosc::AutomationSlot &sl = m.slots[i];
            s += "\nS "; put(s, sl.active); put(s, sl.used); put(s, sl.learning); put(s, sl.midi_cc); put(s, sl.midi_nrpn);
            for(int j = 0; j < I.P; ++j) {
                const rtosc::Automation &a = sl.automations[j];
                s += "["; put(s, a.used); put(s, a.active); put(s, a.relative); putf(s, a.param_base_value);
                s += "'"; s.append(a.param_path, strnlen(a.param_path, sizeof a.param_path)); s += "' ";
                put(s, a.param_type); putf(s, a.param_min); putf(s, a.param_max); putf(s, a.param_step);
                put(s, a.map.control_scale); put(s, a.map.control_type); put(s, a.map.npoints); put(s, a.map.upoints); putf(s, a.map.gain); putf(s, a.map.offset);
                if(a.map.upoints >= 2) for(int k = 0; k < 4; ++k) putf(s, a.map.control_points[k]);
                s += "]";
            }
        }
        // the (N)RPN scratch registers: on the unchanged tree the first two messages of a sequence overwrite all four before
        // any is decisive, but a change to that code makes them state - they are part of the canon so that such a change
        // shows up as a violation and not as merged states
        s += "\nR "; put(s, m.NRPN.parhi); put(s, m.NRPN.parlo); put(s, m.NRPN.valhi); put(s, m.NRPN.vallo);
        s += "\nmodel q=";
        for(int x : I.q) put(s, x);
        s += "cc="; for(int x : I.ccmap) put(s, x);
        s += "nrpn="; for(int x : I.nrpnmap) put(s, x);
        s += "subs=";
        for(int i = 0; i < I.S; ++i) for(int j = 0; j < I.P; ++j) { const MSub &ms = I.sub[i][j]; if(ms.used) { put(s, ms.port); put(s, ms.gain); put(s, ms.off); } else s += "- "; }
        return s;
    }
};

// ---- enumerated families next to the state search (shard 0) -------------------------------------------------------------------
struct Got { std::string addr, types; uint32_t u32; };
static void capture(rtosc::AutomationMgr &m, std::vector<Got> &got)
{
    m.backend = [&got](const char *msg) {
        size_t len = rtosc_message_length(msg, 512);
        ref::Decoded d = ref::decode((const uint8_t *)msg, len ? len : 512);
        if(d.ok && d.args.size() <= 1) got.push_back({d.addr, d.types, d.args.empty() ? 0u : d.args[0].u32});
        else got.push_back({"<undecodable or empty message>", "", 0});
    };
}
static std::string show_got(const std::vector<Got> &g) { std::string s = std::to_string(g.size()) + " message(s)"; for(auto &x : g) { char b[24]; snprintf(b, sizeof b, " %08x", x.u32); s += " [" + x.addr + " " + x.types + b + "]"; } return s; }
static uint32_t fbits(float f) { uint32_t u; memcpy(&u, &f, 4); return u; }

// every ordinary controller number on three channels: learn order, "drives exactly its slot", no effect on an NRPN-bound slot
static void controller_sweep()
{
    if(vp::ctx().shard != 0) return;
    auto special = [](int c) { return c == 6 || c == 38 || c == 98 || c == 99; };
    for(int ch : {0, 9, 15}) for(int X = 0; X < 128; ++X) {
        if(special(X)) continue;
        std::string cid = "ccsweep|ch" + std::to_string(ch) + "|cc" + std::to_string(X);
        if(!vp::want(cid)) continue;
        vp::current_case() = cid; vp::state(); vp::eval(); vp::nontrivial(vp::fnv(cid));
        int Y = (X + 1) % 128; while(special(Y)) Y = (Y + 1) % 128;
        const std::string cls = "any-controller-number";
        {   // A: three learners, three controllers
            rtosc::AutomationMgr m(3, 1, 16); m.set_ports(g_ports);
            std::vector<Got> got; capture(m, got);
            m.createBinding(0, "/vol", true); m.createBinding(1, "/foo", true); m.createBinding(2, "/on", true);
            auto ev = [&](int c, int k, int v) { got.clear(); m.handleMidi(c, k, v); vp::transition(); };
            auto expect1 = [&](const char *what, const char *addr, const char *types, uint32_t v) {
                if(got.size() != 1 || got[0].addr != addr || got[0].types != types || (types[0] != 'T' && types[0] != 'F' && got[0].u32 != v)) {
                    vp::violation(std::string("bound-controller-drives-exactly-its-slot|handleMidi-cc|") + cls, cid, std::string(what) + " (channel " + std::to_string(ch) + ", controller " + std::to_string(X) + "): expected one message to " + addr + ", got " + show_got(got)); return false; }
                return true;
            };
            ev(ch, X, 64);                                             // learned by slot 0 (what the learning event itself emits is not specified)
            ev(ch, X, 127); bool ok = expect1("first learner /vol after its controller sent 127", "/vol", "i", 127);
            if(ok) { ev(ch, X, 0); ok = expect1("first learner /vol after its controller sent 0", "/vol", "i", 0); }
            if(ok) { ev(ch, Y, 127); ev(ch, Y, 0); ok = expect1("second learner /foo after the second controller sent 0", "/foo", "f", fbits(-1.0f)); }
            if(ok) { ev(ch, X, 127); ok = expect1("first controller again", "/vol", "i", 127); }
            if(ok) { int ch2 = (ch + 1) % 16; ev(ch2, X, 0); ev(ch2, X, 127); ok = expect1("third learner /on after the same controller number on another channel sent 127", "/on", "T", 0); }
        }
        {   // B: an NRPN-bound slot and one learner
            rtosc::AutomationMgr m(2, 1, 16); m.set_ports(g_ports);
            std::vector<Got> got; capture(m, got);
            m.createBinding(0, "/vol", true);
            m.handleMidi(0, 99, 1); m.handleMidi(0, 98, 2); m.handleMidi(0, 6, 64); m.handleMidi(0, 38, 0);     // complete NRPN sequence: learned by slot 0
            m.createBinding(1, "/foo", true);
            got.clear(); m.handleMidi(ch, X, 127); vp::transition(2);
            bool touched = false; for(auto &g : got) if(g.addr != "/foo") touched = true;
            if(touched) vp::violation("unrelated-controller-drives-bound-slot|handleMidi-cc|nrpn-bound-slot", cid, "ordinary controller " + std::to_string(X) + " on channel " + std::to_string(ch) + " arrived while slot 0 is bound to NRPN 1:2: " + show_got(got));
            else {
                got.clear(); m.handleMidi(ch, X, 0); vp::transition();
                if(got.size() != 1 || got[0].addr != "/foo" || got[0].types != "f" || got[0].u32 != fbits(-1.0f))
                    vp::violation("learners-bound-in-order|handleMidi-cc|behind-nrpn-bound-slot", cid, "controller " + std::to_string(X) + " on channel " + std::to_string(ch) + " should have been learned by /foo and now drive it to -1: " + show_got(got));
            }
        }
        vp::outcome("controller-sweep"); vp::trace();
    }
    vp::bound("controller_sweep", "every controller number 0..127 except 6,38,98,99 on channels 0,9,15: three learners bound in order by three controllers (same number on another channel is another controller), each drives exactly its parameter; an ordinary controller next to an NRPN-bound slot");
}

// bound parameter addresses of every length the slot can store (2..127 characters), int, float and toggle parameters
static void nop_cb(const char *, rtosc::RtData &) {}
static void long_paths()
{
    if(vp::ctx().shard != 0) return;
    for(int L = 2; L <= 127; ++L) for(int kind = 0; kind < 3; ++kind) {
        std::string cid = "longpath|L" + std::to_string(L) + "|k" + std::to_string(kind);
        if(!vp::want(cid)) continue;
        vp::current_case() = cid; vp::state(); vp::eval(); vp::nontrivial(vp::fnv(cid));
        std::string leaf(L - 1, 'n'); for(int k = 0; k < L - 1; k += 6) leaf[k] = (char)('a' + (k / 6) % 26);
        std::string pname = leaf + (kind == 0 ? "::i" : kind == 1 ? "::f" : "::T:F"), path = "/" + leaf;
        const char *meta = kind == 2 ? rProp(parameter) rDoc("t") : kind == 1 ? rProp(parameter) rLinear(-1, 10) rDoc("f") : rProp(parameter) rLinear(0, 127) rDoc("i");
        rtosc::Ports ports({rtosc::Port{pname.c_str(), meta, nullptr, nop_cb}});
        rtosc::AutomationMgr m(1, 1, 16); m.set_ports(ports);
        std::vector<Got> got; capture(m, got);
        m.createBinding(0, path.c_str(), false);
        const std::string cls = std::string(kind == 0 ? "linear-int" : kind == 1 ? "linear-float" : "toggle") + (L >= 120 ? ",address>=120" : L >= 64 ? ",address>=64" : ",address<64");
        struct Step { float v; uint32_t i, f; const char *t; };
        for(Step st : {Step{1.0f, 127, fbits(10.0f), "T"}, Step{0.0f, 0, fbits(-1.0f), "F"}}) {
            got.clear(); m.setSlot(0, st.v); vp::transition();
            bool ok = got.size() == 1 && got[0].addr == path;
            if(ok && kind == 0) ok = got[0].types == "i" && got[0].u32 == st.i;
            if(ok && kind == 1) ok = got[0].types == "f" && got[0].u32 == st.f;
            if(ok && kind == 2) ok = got[0].types == st.t;
            if(!ok) { vp::violation("message-to-bound-address|setSlot|" + cls, cid, "parameter address of " + std::to_string(L) + " characters, slot value " + fstr(st.v) + ": " + show_got(got)); break; }
        }
        vp::outcome("long-path:" + cls); vp::trace();
    }
    vp::bound("long_paths", "a bound parameter address of every length 2..127 (what a slot stores), int / float / toggle parameter, slot values 1 and 0");
}

// integer parameters with wide ranges (up to 2^24-1, where a float still holds every integer): the slot values 0, 1 and beyond map onto the
// bounds exactly, everything stays inside [min,max] and monotone
static void wide_int_ranges()
{
    if(vp::ctx().shard != 0) return;
    struct R { const char *meta; double mn, mx; };
    static const R RS[] = {
        {rProp(parameter) rLinear(0, 1000) rDoc("i"), 0, 1000}, {rProp(parameter) rLinear(0, 65535) rDoc("i"), 0, 65535}, {rProp(parameter) rLinear(-32768, 32767) rDoc("i"), -32768, 32767},
        {rProp(parameter) rLinear(0, 8388607) rDoc("i"), 0, 8388607}, {rProp(parameter) rLinear(0, 8388609) rDoc("i"), 0, 8388609}, {rProp(parameter) rLinear(0, 16777215) rDoc("i"), 0, 16777215},
        {rProp(parameter) rLinear(-16777215, 0) rDoc("i"), -16777215, 0}, {rProp(parameter) rLinear(1, 12345677) rDoc("i"), 1, 12345677}, {rProp(parameter) rLinear(-9999999, 9999999) rDoc("i"), -9999999, 9999999}};
    int k = 0;
    for(const R &r : RS) {
        std::string cid = "widerange|" + std::to_string(k++);
        if(!vp::want(cid)) continue;
        vp::current_case() = cid; vp::state(); vp::eval(); vp::nontrivial(vp::fnv(cid));
        rtosc::Ports ports({rtosc::Port{"wide::i", r.meta, nullptr, nop_cb}});
        rtosc::AutomationMgr m(1, 1, 16); m.set_ports(ports);
        std::vector<Got> got; capture(m, got);
        m.createBinding(0, "/wide", false);
        double prev = -1e300; bool ok = true;
        const std::string cls = std::string("linear-int,range-") + (r.mx - r.mn > 8388608 ? "above-2^23" : "up-to-2^23");
        for(float v : {-0.5f, 0.f, 1e-7f, 0.25f, 0.5f, 0.75f, 0.9999999f, 1.f, 1.5f}) {
            got.clear(); m.setSlot(0, v); vp::transition();
            if(got.size() != 1 || got[0].addr != "/wide" || got[0].types != "i") { vp::violation("message-to-bound-address|setSlot|" + cls, cid, "range [" + fstr(r.mn) + "," + fstr(r.mx) + "], slot value " + fstr(v) + ": " + show_got(got)); ok = false; break; }
            double num = (double)(int32_t)got[0].u32;
            if(num < r.mn || num > r.mx) { vp::violation("value-outside-range|setSlot|" + cls, cid, "range [" + fstr(r.mn) + "," + fstr(r.mx) + "], slot value " + fstr(v) + " produced " + fstr(num)); ok = false; break; }
            if(num < prev) { vp::violation("not-monotone|setSlot|" + cls, cid, "range [" + fstr(r.mn) + "," + fstr(r.mx) + "], slot value " + fstr(v) + " produced " + fstr(num) + " after " + fstr(prev)); ok = false; break; }
            if((v == 0.f && num != r.mn) || (v == 1.f && num != r.mx)) { vp::violation("default-map|setSlot|" + cls, cid, "range [" + fstr(r.mn) + "," + fstr(r.mx) + "], slot value " + fstr(v) + " produced " + fstr(num)); ok = false; break; }
            prev = num;
        }
        vp::outcome(std::string("wide-range:") + (ok ? "ok" : "BAD")); vp::trace();
    }
    vp::bound("wide_int_ranges", "9 integer ranges up to 2^24-1 wide (incl. odd bounds above 2^23, negative, symmetric) x slot values -0.5, 0, 1e-7, .25, .5, .75, 0.9999999, 1, 1.5");
}

// managers built with every number of mapping control points the constructor takes (4 = the two points of a linear map ... 64): default map,
// then gain 50 / offset 10, on the four parameter kinds
static void control_point_counts()
{
    if(vp::ctx().shard != 0) return;
    for(int cp : {4, 5, 6, 8, 16, 64}) for(int pi = 0; pi < 4; ++pi) {
        std::string cid = "ctrlpoints|" + std::to_string(cp) + "|" + std::to_string(pi);
        if(!vp::want(cid)) continue;
        vp::current_case() = cid; vp::state(); vp::eval(); vp::nontrivial(vp::fnv(cid));
        const PInfo &p = PORT[pi];
        rtosc::AutomationMgr m(2, 1, cp); m.set_ports(g_ports);
        std::vector<Got> got; capture(m, got);
        m.createBinding(1, p.path, false);
        const std::string cls = std::string(p.cls) + ",control-points=" + std::to_string(cp);
        bool ok = true; double prev = -1e300;
        for(float v : {-0.5f, 0.f, 0.25f, 0.5f, 0.75f, 1.f, 1.5f}) {
            got.clear(); m.setSlot(1, v); vp::transition();
            Emit e; e.ok = got.size() == 1; if(e.ok) { e.addr = got[0].addr; e.types = got[0].types; e.u32 = got[0].u32; }
            double num = 0; std::string expect;
            if(got.size() != 1 || got[0].addr != p.path || !Sys::value_of(p, e, num)) { vp::violation("message-to-bound-address|setSlot|" + cls, cid, std::string(p.path) + ", slot value " + fstr(v) + ": " + show_got(got)); ok = false; break; }
            if(!Sys::in_range(p, num)) { vp::violation("value-outside-range|setSlot|" + cls, cid, std::string(p.path) + ", slot value " + fstr(v) + " produced " + fstr(num)); ok = false; break; }
            if(num < prev) { vp::violation("not-monotone|setSlot|" + cls, cid, std::string(p.path) + ", slot value " + fstr(v) + " produced " + fstr(num) + " after " + fstr(prev)); ok = false; break; }
            if(v >= 0.f && v <= 1.f && !Sys::default_map_ok(p, v, num, expect)) { vp::violation("default-map|setSlot|" + cls, cid, std::string(p.path) + ", slot value " + fstr(v) + " produced " + fstr(num) + ", expected " + expect); ok = false; break; }
            prev = num;
        }
        if(ok) {   // a changed gain must take effect and keep the values in range and monotone
            m.setSlotSubGain(1, 0, 50.f); m.updateMapping(1, 0);
            double lo = 0, hi = 0; bool have = false; prev = -1e300;
            for(float v : {0.f, 0.5f, 1.f}) {
                got.clear(); m.setSlot(1, v); vp::transition();
                Emit e; e.ok = got.size() == 1; if(e.ok) { e.addr = got[0].addr; e.types = got[0].types; e.u32 = got[0].u32; }
                double num = 0;
                if(got.size() != 1 || !Sys::value_of(p, e, num) || !Sys::in_range(p, num) || num < prev) { vp::violation("gain|setSlot|" + cls, cid, std::string(p.path) + " with gain 50, slot value " + fstr(v) + ": " + show_got(got)); ok = false; break; }
                if(!have) { lo = num; have = true; } hi = num; prev = num;
            }
            if(ok && p.type != 'T' && !p.log && !(hi - lo < (p.mx - p.mn) * 0.75)) vp::violation("gain|setSlot|" + cls, cid, std::string(p.path) + ": gain 50 spans " + fstr(lo) + ".." + fstr(hi) + ", the full range is " + fstr(p.mn) + ".." + fstr(p.mx));
        }
        vp::outcome(std::string("control-points:") + (ok ? "ok" : "BAD")); vp::trace();
    }
    vp::bound("control_point_counts", "managers with 4,5,6,8,16,64 mapping control points x 4 parameter kinds: slot values -0.5..1.5 at the default map, then gain 50");
}

int main(int argc, char **argv)
{
    vp::init(argc, argv, "C19");
    const bool T = vp::thorough();
    vp::bound("ports", "/foo f linear [-1,10]; /vol i linear [0,127]; /on toggle; /freq f log [0.1,100]");
    vp::bound("alphabet", "createBinding(slot,4 paths,learn|nolearn); clearSlot(slot); clearSlotSub(slot,sub); gain{100,50,-100}+updateMapping and offset{0,10}+updateMapping on bound subs; "
                          "handleMidi(ch0, cc{1,2,3}, val{0,64,127}); complete NRPN sequence 99,98,6,38 for ids {1:2,0:5} with values {0,8192,16383}; "
                          "probe in every state: setSlot(slot, v) for v in {-0.5,0,0.25,0.5,0.75,1,1.5} on every slot");
    if(!vp::replaying() || vp::ctx().replay.compare(0, 8, "ccsweep|") == 0) controller_sweep();
    if(!vp::replaying() || vp::ctx().replay.compare(0, 9, "longpath|") == 0) long_paths();
    if(!vp::replaying() || vp::ctx().replay.compare(0, 10, "widerange|") == 0) wide_int_ranges();
    if(!vp::replaying() || vp::ctx().replay.compare(0, 11, "ctrlpoints|") == 0) control_point_counts();
    if(vp::replaying() && (vp::ctx().replay.compare(0, 11, "ctrlpoints|") == 0 || vp::ctx().replay.compare(0, 10, "widerange|") == 0 || vp::ctx().replay.compare(0, 8, "ccsweep|") == 0 || vp::ctx().replay.compare(0, 9, "longpath|") == 0)) return vp::finish();
    if(vp::replaying()) { bfs::Engine<Sys> E; E.run(); return vp::finish(); }
    const std::string out0 = vp::ctx().out;
    const std::string stem = out0.size() > 5 ? out0.substr(0, out0.size() - 5) : std::string("C19");
    // order: the configurations with a small depth first, the (2,1) manager that is run to its fixpoint in the thorough tier last,
    // so that a deadline cuts the deepest exploration and not the breadth over configurations
    std::vector<int> order; for(int c = 1; c < NCFG; ++c) order.push_back(c); order.push_back(0);
    std::stable_sort(order.begin(), order.end(), [&](int a, int b) { return (T ? CFG[a].dt : CFG[a].dq) < (T ? CFG[b].dt : CFG[b].dq); });
    for(int c : order) {
        int d = T ? CFG[c].dt : CFG[c].dq;
        if(d == 0) continue;
        if(const char *only = getenv("C19_ONLY_CFG")) { if(atoi(only) != c) continue; vp::cap("development filter C19_ONLY_CFG set: other configurations skipped"); }
        if(const char *dd = getenv("C19_DEPTH")) d = atoi(dd);
        char name[64]; snprintf(name, sizeof name, "config(slots=%d,per_slot=%d,fill=%02x)", CFG[c].S, CFG[c].P, CFG[c].fill);
        if(vp::deadline_passed()) { vp::cap(std::string("deadline before ") + name); break; }
        g_only_cfg = c;
        vp::ctx().out = stem + "_c" + std::to_string(c) + ".json";   // the engine derives its worker file names from this
        bfs::Engine<Sys> E;
        E.max_depth = 1 + d;
        E.run();
        vp::bound(name, "states=" + std::to_string((unsigned long long)E.n_states) + " completed_depth=" + std::to_string(E.completed_depth) + " (1 configuration op + " + std::to_string(E.completed_depth - 1) +
                            ") of max " + std::to_string(E.max_depth) + " fixpoint=" + (E.fixpoint ? "true" : "false"));
    }
    vp::ctx().out = out0;
    return vp::finish();
}
