// C15 - UndoHistory: BFS over record/seek/advance-clock histories on the real object with an owned clock.
// Reference model: a plain vector of events, written from the property statement.
#include <functional>
#include <rtosc/rtosc.h>
#include <rtosc/undo-history.h>
#include "bfs.h"
#include "refosc.h"

namespace vp { extern time_t g_now; }

static const char *ADDR[3] = {"/a", "/b/long/address", "/c"};
static const char TYPE[3] = {'i', 'f', 'c'};
// value cycles per address (bit patterns); 3 values each so that histories stay finite-state
static const uint32_t VAL[3][3] = {{0u, 0xffffff85u /* -123 */, 0x7fffffffu},
                                   {0x00000000u, 0x3f000000u /* 0.5f */, 0xc2f6e979u /* -123.456 */},
                                   {'a', 'z', '\\'}};
static const int SEEK[6] = {-1, +1, -2, +3, -25, +25};
static const int TICK[2] = {1, 3};
enum { OP_REC = 0, OP_SEEK = 3, OP_TICK = 9, OP_END = 11 };

struct Ev { int a; uint32_t oldv, newv; time_t t; };
struct Emit { std::string addr; std::string types; uint32_t v; bool decoded; };

struct Sys {
    struct Inst {
        rtosc::UndoHistory h;
        std::vector<Emit> emitted;
        // model
        std::vector<Ev> ev; size_t pos = 0; time_t now = 1000000;
        bool diverged = false;   // model and object disagree: reported once, not explored further
        int cur[3] = {0, 0, 0};     // index into VAL of the current value of each parameter (model of the application)
        Inst()
        {
            vp::g_now = now;
            h.setCallback([this](const char *m) {
                Emit e; e.decoded = false;
                size_t len = rtosc_message_length(m, 256);
                ref::Decoded d = ref::decode((const uint8_t *)m, len ? len : 256);
                if(d.ok && d.args.size() == 1) { e.decoded = true; e.addr = d.addr; e.types = d.types; e.v = d.args[0].u32; }
                else { e.addr = std::string(m, strnlen(m, 64)); }
                emitted.push_back(e);
            });
        }
        Inst(const Inst &) = delete;
    };

    static void ops(const Inst &I, std::vector<int> &out) { if(!I.diverged) for(int o = 0; o < OP_END; ++o) out.push_back(o); }
    static bool probe(int) { return false; }
    static std::string opname(int op)
    {
        if(op < OP_SEEK) return std::string("rec(") + ADDR[op] + ")";
        if(op < OP_TICK) return "seek(" + std::to_string(SEEK[op - OP_SEEK]) + ")";
        return "tick(" + std::to_string(TICK[op - OP_TICK]) + "s)";
    }

    static int val_index(int a, uint32_t v) { for(int k = 0; k < 3; ++k) if(VAL[a][k] == v) return k; return -1; }

    static void fail(const std::string &sig, const std::string &detail) { vp::violation(sig, vp::current_case(), detail); }

    static void apply(Inst &I, int op, bool check)
    {
        vp::g_now = I.now;
        I.emitted.clear();
        if(op < OP_SEEK) {
            int a = op;
            uint32_t oldv = VAL[a][I.cur[a]], newv = VAL[a][(I.cur[a] + 1) % 3];
            char msg[512]; char types[4] = {'s', TYPE[a], TYPE[a], 0};
            rtosc_arg_t args[3]; args[0].s = ADDR[a]; memcpy(&args[1].i, &oldv, 4); memcpy(&args[2].i, &newv, 4);
            rtosc_amessage(msg, sizeof msg, "/undo_change", types, args);
            I.h.recordEvent(msg);
            // ---- model: discard undone tail, merge with the latest event of the same address if it is
            // at most two seconds old, else append; keep the 20 newest
            I.ev.resize(I.pos);
            int latest = -1;
            for(int i = (int)I.ev.size() - 1; i >= 0; --i) if(I.ev[i].a == a) { latest = i; break; }
            bool merge = latest >= 0 && I.now - I.ev[latest].t <= 2;
            bool older_between = false; // an event of another address, older than 2 s, stands behind the merge candidate
            if(merge) for(size_t i = latest + 1; i < I.ev.size(); ++i) if(I.now - I.ev[i].t > 2) older_between = true;
            bool impl_merged = I.h.size() == I.ev.size() && I.h.getPos() == I.pos;
            bool follow_impl = merge && older_between && !impl_merged; // recorded below; the model then follows the object
            if(merge && !follow_impl) { I.ev[latest].newv = newv; I.ev[latest].t = I.now; }
            else {
                I.ev.push_back(Ev{a, oldv, newv, I.now}); I.pos++;
                if(I.ev.size() > 20) { I.ev.erase(I.ev.begin()); I.pos--; }
            }
            I.cur[a] = (I.cur[a] + 1) % 3;
            if(check) {
                if(!I.emitted.empty()) fail("record-emits-message", "recordEvent invoked the callback");
                if(follow_impl)
                    fail("record|merge-missed|older-other-address-event-behind-candidate", "same-address event " + std::to_string((long)(I.now - I.ev[latest].t)) +
                         " s old was not merged: an event of another address older than 2 s stands behind it");
            }
            if(I.h.size() != I.ev.size() || I.h.getPos() != I.pos) {
                if(check) {
                    std::string why = merge ? "merge-missed" : (I.h.size() < I.ev.size() ? "merged-or-dropped-unexpectedly" : "size-or-pos-after-record");
                    fail("record|" + why, "after record: size=" + std::to_string(I.h.size()) + " pos=" + std::to_string(I.h.getPos()) +
                         ", model size=" + std::to_string(I.ev.size()) + " pos=" + std::to_string(I.pos));
                }
                I.diverged = true;
            }
            return;
        }
        if(op < OP_TICK) {
            int k = SEEK[op - OP_SEEK];
            I.h.seekHistory(k);
            // ---- model
            std::vector<Emit> exp;
            long dest = (long)I.pos + k;
            if(dest < 0) dest = 0;
            if(dest > (long)I.ev.size()) dest = (long)I.ev.size();
            while((long)I.pos > dest) { const Ev &e = I.ev[--I.pos]; exp.push_back(Emit{ADDR[e.a], std::string(1, TYPE[e.a]), e.oldv, true}); I.cur[e.a] = val_index(e.a, e.oldv); }
            while((long)I.pos < dest) { const Ev &e = I.ev[I.pos++]; exp.push_back(Emit{ADDR[e.a], std::string(1, TYPE[e.a]), e.newv, true}); I.cur[e.a] = val_index(e.a, e.newv); }
            if(check) {
                std::string dir = k < 0 ? "undo" : "redo";
                if(I.emitted.size() != exp.size())
                    fail("seek-" + dir + "|message-count", "seek(" + std::to_string(k) + ") emitted " + std::to_string(I.emitted.size()) + " messages, expected " + std::to_string(exp.size()));
                else for(size_t i = 0; i < exp.size(); ++i) {
                    const Emit &g = I.emitted[i], &e = exp[i];
                    if(!g.decoded || g.addr != e.addr || g.types != e.types || g.v != e.v) {
                        char b[256]; snprintf(b, sizeof b, "message %zu of seek(%d): got %s '%s' %08x, expected %s '%s' %08x", i, k, g.addr.c_str(), g.types.c_str(), g.v, e.addr.c_str(), e.types.c_str(), e.v);
                        fail("seek-" + dir + "|message-content", b);
                        break;
                    }
                }
                if(I.h.getPos() != I.pos || I.h.size() != I.ev.size())
                    fail("seek-" + dir + "|position", "getPos=" + std::to_string(I.h.getPos()) + " size=" + std::to_string(I.h.size()) + ", model pos=" + std::to_string(I.pos) + " size=" + std::to_string(I.ev.size()));
                vp::outcome(dir + ":" + std::to_string(exp.size()) + "msgs");
            }
            if(I.h.getPos() != I.pos || I.h.size() != I.ev.size() || I.emitted.size() != exp.size()) I.diverged = true;
            return;
        }
        I.now += TICK[op - OP_TICK];
        vp::g_now = I.now;
    }

    static std::string canon(const Inst &I)
    {
        // real object, read through its private implementation; timestamps relative to now, capped at 3 s
        // (difftime(now, t) > 2 is the only use of a timestamp, and the clock only moves forward)
        std::string s = "pos=" + std::to_string(I.h.getPos()) + " n=" + std::to_string(I.h.size()) + " [";
        for(size_t i = 0; i < I.h.size(); ++i) {
            const char *m = I.h.getHistory((int)i);
            size_t len = rtosc_message_length(m, 256);
            s += vp::hex(m, len) + "@";
        }
        s += "] model:";
        for(auto &e : I.ev) { long dt = (long)(I.now - e.t); s += std::to_string(e.a) + "," + std::to_string(dt > 3 ? 3 : dt) + ";"; }
        s += " cur=" + std::to_string(I.cur[0]) + std::to_string(I.cur[1]) + std::to_string(I.cur[2]);
        s += " mpos=" + std::to_string(I.pos) + (I.diverged ? " DIVERGED" : "");
        return s;
    }
};

// private access to the recorded timestamps (harness TU is compiled with -fno-access-control,
// but UndoHistoryImpl is local to the library's TU; the model's timestamps stand in for them:
// the canon contains the model's relative ages, and any disagreement between model and object
// shows up as a size/pos/content violation at the record that observes it).

// ---- long addresses: one fixed scenario (merge, no merge, merge across an event of another address, undo all, redo all) for an
// address of every length 1..247 (the longest whose undo message fits the library's 256-byte message buffer)
static void long_addresses()
{
    if(vp::ctx().shard != 0) return;
    for(int A = 1; A <= 247; ++A) {
        std::string cid = "long|A" + std::to_string(A);
        if(!vp::want(cid)) continue;
        vp::current_case() = cid; vp::state(); vp::eval(); vp::nontrivial(vp::fnv(cid));
        std::string addr(A, 'p'); addr[0] = '/'; for(int k = 1; k < A; k += 9) addr[k] = (char)('a' + (k / 9) % 26);
        rtosc::UndoHistory h;
        std::vector<std::pair<std::string, int>> got;
        h.setCallback([&](const char *m) { ref::Decoded d = ref::decode((const uint8_t *)m, rtosc_message_length(m, 512)); if(d.ok && d.args.size() == 1 && d.types == "i") got.push_back({d.addr, (int)d.args[0].u32}); else got.push_back({"<undecodable>", 0}); });
        time_t now = 2000000; vp::g_now = now;
        auto rec = [&](const std::string &a, int o, int n) { char msg[512]; rtosc_message(msg, sizeof msg, "/undo_change", "sii", a.c_str(), o, n); vp::g_now = now; h.recordEvent(msg); vp::transition(); };
        const std::string cls = A >= 200 ? "address>=200" : A >= 100 ? "address>=100" : "address<100";
        auto expect_size = [&](size_t n, size_t pos, const char *step) { if(h.size() != n || h.getPos() != pos) { vp::violation(std::string("record|") + step + "|" + cls, cid, std::string(step) + " with an address of " + std::to_string(A) + " characters: size=" + std::to_string(h.size()) + " pos=" + std::to_string(h.getPos()) + ", expected " + std::to_string(n) + "/" + std::to_string(pos)); return false; } return true; };
        bool ok = true;
        rec(addr, 0, 1); ok = ok && expect_size(1, 1, "first-record");
        now += 1; rec(addr, 1, 2); ok = ok && expect_size(1, 1, "merge-missed");
        now += 3; rec(addr, 2, 3); ok = ok && expect_size(2, 2, "merged-or-dropped-unexpectedly");
        rec("/z", 5, 6); ok = ok && expect_size(3, 3, "other-address");
        now += 1; rec(addr, 3, 4); ok = ok && expect_size(3, 3, "merge-missed");
        if(ok) {
            got.clear(); vp::g_now = now; h.seekHistory(-3); vp::transition();
            std::vector<std::pair<std::string, int>> want = {{"/z", 5}, {addr, 2}, {addr, 0}};
            if(got != want) vp::violation("seek-undo|message-content|" + cls, cid, "undo of 3 events with an address of " + std::to_string(A) + " characters emitted " + std::to_string(got.size()) + " messages" + (got.size() == 3 ? " with values " + std::to_string(got[0].second) + "," + std::to_string(got[1].second) + "," + std::to_string(got[2].second) + " (expected 5,2,0)" : ""));
            got.clear(); h.seekHistory(+3); vp::transition();
            want = {{addr, 2}, {addr, 4}, {"/z", 6}};
            if(got != want) vp::violation("seek-redo|message-content|" + cls, cid, "redo of 3 events with an address of " + std::to_string(A) + " characters emitted " + std::to_string(got.size()) + " messages");
        }
        vp::outcome("long-address:" + cls);
        vp::trace();
    }
    vp::bound("long_addresses", "address of every length 1..247: record, merge within 1 s, no merge after 3 s, merge across an event of another address, undo 3, redo 3");
}

// ---- a full history undone and redone by ONE seek: 20 (and 25: the cap) events on distinct addresses of length A, event message spelled
// "/undo_change" (what the library's ports emit) and "undo_change" (what example/complex records); different addresses recorded within the
// same second must not merge
static void full_seeks()
{
    if(vp::ctx().shard != 0) return;
    for(int A : {3, 10, 24, 40, 42, 43, 44, 48, 60, 100, 150, 200, 240}) for(int n : {5, 20, 25}) for(int spell = 0; spell < 2; ++spell) {
        std::string cid = "full|A" + std::to_string(A) + "|n" + std::to_string(n) + "|s" + std::to_string(spell);
        if(!vp::want(cid)) continue;
        vp::current_case() = cid; vp::state(); vp::eval(); vp::nontrivial(vp::fnv(cid));
        const char *evname = spell ? "undo_change" : "/undo_change";
        rtosc::UndoHistory h;
        std::vector<std::pair<std::string, int>> got;
        h.setCallback([&](const char *m) { ref::Decoded d = ref::decode((const uint8_t *)m, rtosc_message_length(m, 512)); if(d.ok && d.args.size() == 1 && d.types == "i") got.push_back({d.addr, (int)d.args[0].u32}); else got.push_back({"<undecodable>", 0}); });
        vp::g_now = 3000000;
        std::vector<std::string> addrs;
        for(int k = 0; k < n; ++k) { std::string a(A, 'r'); a[0] = '/'; a[1] = (char)('a' + k); if(A > 2) a[A - 1] = (char)('A' + k); addrs.push_back(a); }
        for(int k = 0; k < n; ++k) { char msg[512]; rtosc_message(msg, sizeof msg, evname, "sii", addrs[k].c_str(), 100 + k, 200 + k); h.recordEvent(msg); vp::transition(); }
        const int kept = n > 20 ? 20 : n, first = n - kept;
        const std::string cls = std::string(spell ? "event-named-undo_change" : "event-named-/undo_change") + (A * kept > 600 ? ",long-seek" : ",short-seek");
        bool ok = true;
        if((int)h.size() != kept || (int)h.getPos() != kept) { vp::violation("record|size-or-pos-after-record|" + cls, cid, std::to_string(n) + " events on distinct addresses of " + std::to_string(A) + " characters: size=" + std::to_string(h.size()) + " pos=" + std::to_string(h.getPos()) + ", expected " + std::to_string(kept)); ok = false; }
        if(ok) {
            got.clear(); h.seekHistory(-n - 3); vp::transition();
            std::vector<std::pair<std::string, int>> want; for(int k = n - 1; k >= first; --k) want.push_back({addrs[k], 100 + k});
            if(got != want) { vp::violation("seek-undo|message-count|" + cls, cid, "one seek back over " + std::to_string(kept) + " events with addresses of " + std::to_string(A) + " characters emitted " + std::to_string(got.size()) + " messages" + (got.size() == want.size() ? " with wrong content" : "")); ok = false; }
        }
        if(ok) {
            got.clear(); h.seekHistory(+n + 3); vp::transition();
            std::vector<std::pair<std::string, int>> want; for(int k = first; k < n; ++k) want.push_back({addrs[k], 200 + k});
            if(got != want) vp::violation("seek-redo|message-count|" + cls, cid, "one seek forward over " + std::to_string(kept) + " events with addresses of " + std::to_string(A) + " characters emitted " + std::to_string(got.size()) + " messages" + (got.size() == want.size() ? " with wrong content" : ""));
        }
        vp::outcome("full-seek:" + cls); vp::trace();
    }
    vp::bound("full_seeks", "5, 20 and 25 events on distinct addresses of 3..240 characters recorded in one second, undone and redone by a single seek; event message spelled /undo_change and undo_change");
}

// ---- the cap of 20 events and merging together: one address X is changed again and again (every record merges into its one event, whose stamp
// moves) while n changes of other addresses are recorded around it, so that X's event is the OLDEST retained one when the history is full; then
// further X records at gaps of 1..3 s. Plain list model: merge into the latest event of the address if its stamp is <= 2 s old, else append, keep 20.
static void cap_and_merge()
{
    if(vp::ctx().shard != 0) return;
    struct MEv { int a; int oldv, newv; time_t t; };
    for(int n = 17; n <= 23; ++n) for(int refresh = 0; refresh < 2; ++refresh) for(int tailgap = 1; tailgap <= 3; ++tailgap) for(int ntail = 1; ntail <= 2; ++ntail) {
        std::string cid = "capmerge|n" + std::to_string(n) + "|r" + std::to_string(refresh) + "|g" + std::to_string(tailgap) + "|t" + std::to_string(ntail);
        if(!vp::want(cid)) continue;
        vp::current_case() = cid; vp::state(); vp::eval(); vp::nontrivial(vp::fnv(cid));
        rtosc::UndoHistory h;
        std::vector<std::pair<std::string, int>> got;
        h.setCallback([&](const char *m) { ref::Decoded d = ref::decode((const uint8_t *)m, rtosc_message_length(m, 512)); if(d.ok && d.args.size() == 1 && d.types == "i") got.push_back({d.addr, (int)d.args[0].u32}); else got.push_back({"<undecodable>", 0}); });
        std::vector<MEv> model; time_t now = 5000000; int xv = 100;
        auto name = [](int a) { return a == 0 ? std::string("/x") : "/other" + std::to_string(a); };
        auto rec = [&](int a, int o, int nv) {
            char msg[256]; rtosc_message(msg, sizeof msg, "/undo_change", "sii", name(a).c_str(), o, nv); vp::g_now = now; h.recordEvent(msg); vp::transition();
            int latest = -1; for(int i = (int)model.size() - 1; i >= 0; --i) if(model[i].a == a) { latest = i; break; }
            if(latest >= 0 && now - model[latest].t <= 2) { model[latest].newv = nv; model[latest].t = now; }
            else { model.push_back({a, o, nv, now}); if(model.size() > 20) model.erase(model.begin()); }
        };
        rec(0, xv, xv + 1); ++xv;
        for(int k = 1; k <= n; ++k) {
            if(refresh) { now += 1; rec(0, xv, xv + 1); ++xv; }      // X dragged on: its event stays fresh (refresh=0: X ages out)
            rec(k, 0, k);
        }
        for(int k = 0; k < ntail; ++k) { now += tailgap; rec(0, xv, xv + 1); ++xv; }
        const std::string cls = std::string(refresh ? "dragged-address-is-oldest-event" : "aged-address") + ",n=" + (n < 19 ? "below-cap" : n == 19 ? "at-cap" : "above-cap");
        bool ok = true;
        if(h.size() != model.size() || h.getPos() != model.size()) { vp::violation("record|size-or-pos-after-record|" + cls, cid, "size=" + std::to_string(h.size()) + " pos=" + std::to_string(h.getPos()) + ", the list model has " + std::to_string(model.size()) + " events"); ok = false; }
        if(ok) {
            got.clear(); vp::g_now = now; h.seekHistory(-30); vp::transition();
            std::vector<std::pair<std::string, int>> want; for(size_t i = model.size(); i-- > 0;) want.push_back({name(model[i].a), model[i].oldv});
            if(got != want) {
                std::string d = "undo of everything emitted " + std::to_string(got.size()) + " messages, the model " + std::to_string(want.size());
                for(size_t i = 0; i < got.size() && i < want.size(); ++i) if(got[i] != want[i]) { d += "; message " + std::to_string(i) + ": " + got[i].first + "=" + std::to_string(got[i].second) + ", expected " + want[i].first + "=" + std::to_string(want[i].second); break; }
                vp::violation("seek-undo|message-content|" + cls, cid, d);
            }
        }
        vp::outcome("cap-and-merge:" + cls); vp::trace();
    }
    vp::bound("cap_and_merge", "one address re-recorded (merged) around 17..23 changes of other addresses, dragged on every second or left to age, then 1..2 more records of it at gaps of 1..3 s; size, position and a full undo against a list model");
}

int main(int argc, char **argv)
{
    vp::init(argc, argv, "C15");
    long_addresses();
    full_seeks();
    cap_and_merge();
    bfs::Engine<Sys> E;
    const bool T = vp::thorough();
    E.max_depth = T ? 8 : 5;
    // start from non-initial states: k non-mergeable records, then seek back j steps
    int root_depth = T ? 5 : 3;
    for(int k : {17, 19, 20, 21}) {
        bfs::Hist base;
        for(int i = 0; i < k; ++i) { base.push_back((uint16_t)(OP_REC + i % 3)); base.push_back((uint16_t)(OP_TICK + 1)); }
        for(int j = 0; j <= k && j <= 20; ++j) {
            bfs::Hist h = base;
            for(int q = 0; q < j; ++q) h.push_back((uint16_t)(OP_SEEK + 0));
            E.roots.push_back(h);
        }
    }
    // prepared states in which a merged (re-stamped) event stands in front of an older event of another address
    for(int x = 0; x < 3; ++x) for(int y = 0; y < 3; ++y) if(x != y) {
        bfs::Hist h = {(uint16_t)(OP_REC + x), (uint16_t)(OP_REC + y), (uint16_t)OP_TICK, (uint16_t)OP_TICK, (uint16_t)(OP_REC + x)};
        E.roots.push_back(h);
        h.push_back((uint16_t)(OP_SEEK + 0)); E.roots.push_back(h);      // and with the older event undone
    }
    // long drags: one address re-recorded every 2 s (every 1 s) 16..30 times - each record merges into the same event, whose stamp
    // keeps moving - next to an event of another address that was recorded once at the start and grows old
    int n_drag = 0;
    for(int x = 0; x < 3; ++x) for(int y = 0; y < 3; ++y) if(x != y) for(int n : {16, 17, 30}) for(int gap = 1; gap <= 2; ++gap) {
        if((n == 30) != (gap == 1) && n != 17) continue;      // 16x2s, 17x1s, 17x2s, 30x1s
        bfs::Hist h = {(uint16_t)(OP_REC + x), (uint16_t)(OP_REC + y)};
        for(int k = 0; k < n; ++k) { for(int g = 0; g < gap; ++g) h.push_back((uint16_t)OP_TICK); h.push_back((uint16_t)(OP_REC + x)); }
        E.roots.push_back(h); ++n_drag;
    }
    vp::bound("drag_roots", std::to_string(n_drag) + " states: rec(x) rec(y) then 16..30 x (tick 1-2 s, rec(x)) for every pair of addresses");
    vp::bound("alphabet", "rec(/a:i | /b/long/address:f | /c:c) with old=current value, new=next of a 3-cycle; seek(-1,+1,-2,+3,-25,+25); tick(1s,3s)");
    vp::bound("roots", "initial + " + std::to_string(E.roots.size()) + " states: k in {17,19,20,21} unmergeable records then 0..k undo steps; 12 states with a merged (re-stamped) event in front of an older event of another address");
    (void)root_depth;
    E.run();
    return vp::finish();
}
