// C16 - three-way comparison of argument lists is a coherent order that agrees with the equality test
// and is blind to range compression (`N x v`, arithmetic ranges with delta).
// Exhaustive enumeration of small-scope families; the oracle is written from the property statement:
//   P  all pairs of lists (length <= 2 over the full value alphabet; thorough: length <= 3 over a sub-alphabet):
//      reflexive, sgn cmp(a,b) = -sgn cmp(b,a), cmp == 0 <=> eq, eq symmetric, same-type ordering
//   T  all triples over smaller list sets: transitivity (on a precomputed sign matrix)
//   R  every list of length 1..L over {0,1,2,4,T,F} per numeric type x every segmentation of its constant and
//      arithmetic runs into ranges: iterator yields the expansion, eq/cmp against the expanded list and against
//      neighbouring third lists, rtosc_avmessage bytes, the same inside an array
//   A  constant runs of array values (`N x [..]`)
// Don't-care zones (statement silent): relative order of different types, order of lists of different length,
// order of m/r/T/F/N/I/array values among themselves (only coherence), NaN, what a float tolerance means (phase O checks only
// that cmp and eq agree under it),
// NULL string pointers, infinite ranges, delta ranges over booleans.
#include <algorithm>
#include <functional>
#include <rtosc/rtosc.h>
#include <rtosc/arg-ext.h>
#include <rtosc/arg-val.h>
#include <rtosc/arg-val-cmp.h>
#include <rtosc/arg-val-itr.h>
#include <sys/wait.h>
#include <unistd.h>
#include "common.h"
#include "refosc.h"

typedef rtosc_arg_val_t AV;

static int sgn(long long v) { return v < 0 ? -1 : v > 0 ? 1 : 0; }
static char sgnc(int s) { return s < 0 ? '<' : s > 0 ? '>' : '='; }

// ---- replay id parsing: "<phase>|n|n|..." -------------------------------------------------------------
struct Rp { bool on = false; std::string phase; std::vector<std::string> f; };
static Rp g_rp;
static void rp_init()
{
    g_rp.on = vp::replaying();
    if(!g_rp.on) return;
    std::string s = vp::ctx().replay, cur;
    std::vector<std::string> parts;
    for(char ch : s) { if(ch == '|') { parts.push_back(cur); cur.clear(); } else cur += ch; }
    parts.push_back(cur);
    g_rp.phase = parts[0];
    g_rp.f.assign(parts.begin() + 1, parts.end());
}
static bool rp_phase(const char *p) { return !g_rp.on || g_rp.phase == p; }
static bool rp_is(size_t k, const std::string &v) { return !g_rp.on || (k < g_rp.f.size() && g_rp.f[k] == v); }
static bool rp_is(size_t k, long long v) { return !g_rp.on || (k < g_rp.f.size() && g_rp.f[k] == std::to_string(v)); }

// ---- argument value construction ----------------------------------------------------------------------
static AV av0(char t) { AV a; memset(&a, 0, sizeof a); a.type = t; return a; }
static AV av_i(char t, int32_t v) { AV a = av0(t); a.val.i = v; return a; }
static AV av_h(int64_t v) { AV a = av0('h'); a.val.h = v; return a; }
static AV av_f(float v) { AV a = av0('f'); a.val.f = v; return a; }
static AV av_d(double v) { AV a = av0('d'); a.val.d = v; return a; }
static AV av_t(uint64_t v) { AV a = av0('t'); a.val.t = v; return a; }
static AV av_s(char t, const std::string &s) { AV a = av0(t); char *p = (char *)malloc(s.size() + 1); memcpy(p, s.c_str(), s.size() + 1); a.val.s = p; return a; }
static AV av_b(const std::vector<uint8_t> &b)
{
    AV a = av0('b'); a.val.b.len = (int32_t)b.size();
    uint8_t *p = (uint8_t *)malloc(b.size() ? b.size() : 1); if(!b.empty()) memcpy(p, b.data(), b.size());
    a.val.b.data = p; return a;
}
static AV av_bool(bool v) { AV a = av0(v ? 'T' : 'F'); a.val.T = v ? 1 : 0; return a; }
static AV av_m(uint8_t last) { AV a = av0('m'); a.val.m[3] = last; return a; }
static AV av_arr(char type, int32_t len) { AV a = av0('a'); rtosc_av_arr_type_set(&a, type); rtosc_av_arr_len_set(&a, len); return a; }
static AV av_rep(int32_t num, int has_delta) { AV a = av0('-'); rtosc_av_rep_num_set(&a, num); rtosc_av_rep_has_delta_set(&a, has_delta); return a; }

// ---- the value alphabet of phases P and T -------------------------------------------------------------
struct Value {
    std::string name, cls;
    std::vector<AV> s[2];      // two copies with independent string/blob storage (left and right operand)
    char type = 0;             // scalar tag, 'a' for arrays
    int canon = -1;            // index of the first alphabet entry that denotes the same value (boolean arrays exist in two typing conventions)
    // reference semantics for the same-type ordering clause
    long long iv = 0; double dv = 0; uint64_t tv = 0; std::string sv; std::vector<uint8_t> bv;
};
static std::vector<Value> V;

static void add_scalar(const std::string &name, const std::function<AV()> &mk, const std::function<void(Value &)> &sem)
{
    Value v; v.name = name;
    v.s[0].push_back(mk()); v.s[1].push_back(mk());
    v.type = v.s[0][0].type; v.cls = std::string(1, v.type);
    sem(v);
    V.push_back(v);
}
static void add_array(const std::string &name, char arrtype, const std::vector<std::function<AV()>> &els)
{
    Value v; v.name = name; v.type = 'a';
    for(int c = 0; c < 2; ++c) { v.s[c].push_back(av_arr(arrtype, (int32_t)els.size())); for(auto &e : els) v.s[c].push_back(e()); }
    if(els.empty()) v.cls = "a[]";
    else if(arrtype == 'T' || arrtype == 'F') v.cls = "a[B]";
    else v.cls = std::string("a[") + arrtype + "]";
    V.push_back(v);
}

static std::string gfmt(double v) { char b[32]; snprintf(b, sizeof b, "%g", v); return b; }
static void build_alphabet()
{
    auto none = [](Value &) {};
    for(int x : {-1, 0, 1}) add_scalar("i" + std::to_string(x), [=] { return av_i('i', x); }, [=](Value &v) { v.iv = x; });
    for(float x : {-1.0f, 0.0f, 0.5f}) add_scalar("f" + gfmt(x), [=] { return av_f(x); }, [=](Value &v) { v.dv = x; });
    for(double x : {0.5, 1.0}) add_scalar("d" + gfmt(x), [=] { return av_d(x); }, [=](Value &v) { v.dv = x; });
    for(long long x : {-1LL, 1LL, 4294967296LL}) add_scalar("h" + std::to_string(x), [=] { return av_h(x); }, [=](Value &v) { v.iv = x; });
    for(char x : {'a', 'b'}) add_scalar(std::string("c'") + x + "'", [=] { return av_i('c', x); }, [=](Value &v) { v.iv = x; });
    for(const char *x : {"", "a", "ab", "b"}) { std::string s = x; add_scalar("\"" + s + "\"", [=] { return av_s('s', s); }, [=](Value &v) { v.sv = s; }); }
    for(const char *x : {"a", "b"}) { std::string s = x; add_scalar(s + "S", [=] { return av_s('S', s); }, [=](Value &v) { v.sv = s; }); }
    for(std::vector<uint8_t> b : {std::vector<uint8_t>{}, {1}, {1, 0}, {1, 2}, {2}}) {
        std::string n = "b["; for(size_t k = 0; k < b.size(); ++k) n += (k ? " " : "") + std::to_string(b[k]); n += "]";
        add_scalar(n, [=] { return av_b(b); }, [=](Value &v) { v.bv = b; });
    }
    // the empty blob in its other representation: length 0 and no data pointer (a zero-initialised blob, what a port hands out for "no data")
    add_scalar("b[](null-data)", [] { AV a = av0('b'); a.val.b.len = 0; a.val.b.data = nullptr; return a; }, [](Value &v) { v.bv.clear(); });
    for(uint64_t x : {1ULL, 0ULL, 2ULL, 3ULL, 0x8000000000000000ULL})
        add_scalar(x == 1 ? "t:immediately" : "t" + std::to_string(x), [=] { return av_t(x); }, [=](Value &v) { v.tv = x; });
    add_scalar("T", [] { return av_bool(true); }, none);
    add_scalar("F", [] { return av_bool(false); }, none);
    add_scalar("N", [] { return av0('N'); }, none);
    add_scalar("I", [] { return av0('I'); }, none);
    add_scalar("m0", [] { return av_m(0); }, none);
    add_scalar("m1", [] { return av_m(1); }, none);
    add_scalar("r1", [] { return av_i('r', 1); }, none);
    add_scalar("r2", [] { return av_i('r', 2); }, none);
    // arrays: header ('a', element type, number of slots) followed by the elements.
    // The scanner types an array by its last element, savefile.cpp by its first; both conventions are generated
    // for the mixed boolean arrays. The empty array carries type ' ' (scanner).
    typedef std::function<AV()> F;
    F i0 = [] { return av_i('i', 0); }, i1 = [] { return av_i('i', 1); }, t = [] { return av_bool(true); }, f = [] { return av_bool(false); };
    add_array("[]", ' ', {});
    add_array("[i0]", 'i', {i0});
    add_array("[i0 i1]", 'i', {i0, i1});
    add_array("[i0 i1 i0]", 'i', {i0, i1, i0});
    add_array("[i1]", 'i', {i1});
    add_array("[T]", 'T', {t});
    add_array("[F]", 'F', {f});
    add_array("[T F]:F", 'F', {t, f});
    add_array("[T F]:T", 'T', {t, f});
    add_array("[F T]:T", 'T', {f, t});
    add_array("[F T]:F", 'F', {f, t});
    add_array("[T F T]", 'T', {t, f, t});
    add_array("[\"a\"]", 's', {[] { return av_s('s', "a"); }});
    add_array("[\"a\" \"b\"]", 's', {[] { return av_s('s', "a"); }, [] { return av_s('s', "b"); }});
    add_array("[aS]", 'S', {[] { return av_s('S', "a"); }});
    add_array("[N]", 'N', {[] { return av0('N'); }});
    add_array("[I]", 'I', {[] { return av0('I'); }});
    add_array("[f0.5]", 'f', {[] { return av_f(0.5f); }});
    add_array("[b[1]]", 'b', {[] { return av_b({1}); }});
    add_array("[t:immediately]", 't', {[] { return av_t(1); }});
    add_array("[h1]", 'h', {[] { return av_h(1); }});
}

static void set_canon()
{
    for(size_t k = 0; k < V.size(); ++k) {
        auto base_of = [](const std::string &n) { std::string b = n.substr(0, n.find("]:")); size_t q = b.find("(null-data)"); return q == std::string::npos ? b : b.substr(0, q); };
        std::string base = base_of(V[k].name);
        V[k].canon = (int)k;
        for(size_t j = 0; j < k; ++j) if(base_of(V[j].name) == base) { V[k].canon = (int)j; break; }
    }
}
static bool same_value(int x, int y) { return V[x].canon == V[y].canon; }
static int vindex(const std::string &name)
{
    for(size_t k = 0; k < V.size(); ++k) if(V[k].name == name) return (int)k;
    fprintf(stderr, "no value named %s\n", name.c_str()); exit(3);
}

// reference order of two values of the same type; spec=false where the statement is silent
static int ref_order(const Value &x, const Value &y, bool &spec)
{
    spec = false;
    if(x.type != y.type) return 0;
    switch(x.type) {
    case 'i': case 'c': case 'h': spec = true; return x.iv < y.iv ? -1 : x.iv > y.iv ? 1 : 0;              // numbers numerically
    case 'f': case 'd': spec = true; return x.dv < y.dv ? -1 : x.dv > y.dv ? 1 : 0;
    case 's': case 'S': spec = true; return sgn(strcmp(x.sv.c_str(), y.sv.c_str()));                          // strings lexicographically
    case 'b': {                                                                                                   // bytewise, a proper prefix first
        spec = true;
        size_t n = std::min(x.bv.size(), y.bv.size());
        for(size_t k = 0; k < n; ++k) if(x.bv[k] != y.bv[k]) return x.bv[k] < y.bv[k] ? -1 : 1;
        return x.bv.size() < y.bv.size() ? -1 : x.bv.size() > y.bv.size() ? 1 : 0; }
    case 't':                                                                                                     // 'immediately' before every other tag
        spec = true;
        if(x.tv == 1 || y.tv == 1) return x.tv == y.tv ? 0 : x.tv == 1 ? -1 : 1;
        return x.tv < y.tv ? -1 : x.tv > y.tv ? 1 : 0;
    }
    return 0;
}

struct List { std::vector<int> vi; std::vector<AV> s[2]; };
static List make_list(const std::vector<int> &vi)
{
    List l; l.vi = vi;
    for(int c = 0; c < 2; ++c) { for(int k : vi) l.s[c].insert(l.s[c].end(), V[k].s[c].begin(), V[k].s[c].end()); if(l.s[c].empty()) l.s[c].push_back(av0('N')); }
    return l;
}
static size_t nslots(const List &l) { size_t n = 0; for(int k : l.vi) n += V[k].s[0].size(); return n; }
static std::string show_list(const List &l) { std::string o = "("; for(size_t k = 0; k < l.vi.size(); ++k) o += (k ? " " : "") + V[l.vi[k]].name; return o + ")"; }

// all lists of length 0..maxlen over the value indices in `alpha`, shortest first
static std::vector<List> all_lists(const std::vector<int> &alpha, int maxlen)
{
    std::vector<List> out;
    std::vector<std::vector<int>> level{{}};
    for(int len = 0; len <= maxlen; ++len) {
        for(auto &v : level) out.push_back(make_list(v));
        std::vector<std::vector<int>> next;
        for(auto &v : level) for(int a : alpha) { auto w = v; w.push_back(a); next.push_back(w); }
        level.swap(next);
    }
    return out;
}

// class of a pair of lists = what stands at the first position where they differ
static std::string pair_class(const List &a, const List &b)
{
    size_t k = 0;
    while(k < a.vi.size() && k < b.vi.size() && same_value(a.vi[k], b.vi[k])) ++k;
    if(k == a.vi.size() && k == b.vi.size()) return "same";
    if(k == a.vi.size() || k == b.vi.size()) return "length";
    const Value *x = &V[a.vi[k]], *y = &V[b.vi[k]];
    if(y->cls < x->cls) std::swap(x, y);
    std::string rel;
    if(x->type == y->type && x->type == 'b') {
        const auto &p = x->bv.size() <= y->bv.size() ? x->bv : y->bv, &q = x->bv.size() <= y->bv.size() ? y->bv : x->bv;
        if(p.size() < q.size() && std::equal(p.begin(), p.end(), q.begin())) rel = q[p.size()] == 0 ? ":zero-extended-prefix" : ":prefix";
        else rel = ":diverge";
    } else if(x->type == y->type && (x->type == 's' || x->type == 'S')) {
        const auto &p = x->sv.size() <= y->sv.size() ? x->sv : y->sv, &q = x->sv.size() <= y->sv.size() ? y->sv : x->sv;
        rel = (p.size() < q.size() && q.compare(0, p.size(), p) == 0) ? ":prefix" : ":diverge";
    } else if(x->type == y->type && x->type == 't') {
        rel = (x->tv == 1 || y->tv == 1) ? ":immediately" : ":plain";
    }
    return x->cls + "/" + y->cls + rel;
}
static bool first_diff_same_type(const List &a, const List &b)
{
    size_t k = 0;
    while(k < a.vi.size() && k < b.vi.size() && same_value(a.vi[k], b.vi[k])) ++k;
    if(k == a.vi.size() || k == b.vi.size()) return true;
    return V[a.vi[k]].type == V[b.vi[k]].type;
}

static int lib_cmp(const std::vector<AV> &l, size_t ln, const std::vector<AV> &r, size_t rn) { vp::transition(); return rtosc_arg_vals_cmp(l.data(), r.data(), ln, rn, nullptr); }
static int lib_eq(const std::vector<AV> &l, size_t ln, const std::vector<AV> &r, size_t rn) { vp::transition(); return rtosc_arg_vals_eq(l.data(), r.data(), ln, rn, nullptr); }

// single-value pairs that break a pair law by themselves: a longer pair of lists that contains one of them at a
// differing position is not evaluated again (the defect is reported once, at the value level; no cascade)
static std::vector<char> g_badv;
static void compute_badv()
{
    const size_t n = V.size();
    g_badv.assign(n * n, 0);
    uint64_t before = vp::ctx().transitions;
    for(size_t x = 0; x < n; ++x) for(size_t y = 0; y < n; ++y) {
        int c_ab = lib_cmp(V[x].s[0], V[x].s[0].size(), V[y].s[1], V[y].s[1].size()), c_ba = lib_cmp(V[y].s[0], V[y].s[0].size(), V[x].s[1], V[x].s[1].size());
        int e_ab = lib_eq(V[x].s[0], V[x].s[0].size(), V[y].s[1], V[y].s[1].size()), e_ba = lib_eq(V[y].s[0], V[y].s[0].size(), V[x].s[1], V[x].s[1].size());
        bool bad = sgn(c_ab) != -sgn(c_ba) || (c_ab == 0) != (e_ab != 0) || (c_ba == 0) != (e_ba != 0) || (x == y && (c_ab != 0 || !e_ab));
        bool spec; int want = ref_order(V[x], V[y], spec);
        if(spec && sgn(c_ab) != want) bad = true;
        g_badv[x * n + y] = bad;
    }
    vp::ctx().transitions = before;
}
static bool shadowed(const List &a, const List &b)
{
    if(a.vi.size() < 2 && b.vi.size() < 2) return false;
    for(size_t k = 0; k < a.vi.size() && k < b.vi.size(); ++k)
        if(a.vi[k] != b.vi[k] && (g_badv[a.vi[k] * V.size() + b.vi[k]] || g_badv[b.vi[k] * V.size() + a.vi[k]])) return true;
    return false;
}

// ---- phase P: pair laws -------------------------------------------------------------------------------
// returns false if the pair breaks a pair law (such pairs are kept out of the transitivity phase)
static bool eval_pair(const List &a, const List &b, bool same, int c_ab, int c_ba, int e_ab, int e_ba, const char *set, size_t i, size_t j)
{
    bool ok = true;
    const std::string cid = std::string("P|") + set + "|" + std::to_string(i) + "|" + std::to_string(j);
    const std::string cls = pair_class(a, b);
    auto detail = [&] {
        return show_list(a) + " vs " + show_list(b) + ": cmp=" + std::to_string(c_ab) + " reverse cmp=" + std::to_string(c_ba) +
               " eq=" + std::to_string(e_ab) + " reverse eq=" + std::to_string(e_ba);
    };
    if(same) {
        if(c_ab != 0) { ok = false; vp::violation("reflexive|rtosc_arg_vals_cmp|" + cls, cid, detail()); }
        if(e_ab != 1) { ok = false; vp::violation("reflexive|rtosc_arg_vals_eq|" + cls, cid, detail()); }
    }
    if(sgn(c_ab) != -sgn(c_ba)) { ok = false; vp::violation("antisymmetry|rtosc_arg_vals_cmp|" + cls, cid, detail()); }
    if((e_ab != 0) != (e_ba != 0)) { ok = false; vp::violation("eq-symmetric|rtosc_arg_vals_eq|" + cls, cid, detail()); }
    if((c_ab == 0) != (e_ab != 0) || (c_ba == 0) != (e_ba != 0)) { ok = false; vp::violation("cmp0-iff-eq|cmp+eq|" + cls, cid, detail()); }
    // same-type ordering: lists of equal length that differ in exactly one position, by two values of one type
    if(!same && a.vi.size() == b.vi.size()) {
        int ndiff = 0; size_t p = 0;
        for(size_t k = 0; k < a.vi.size(); ++k) if(!same_value(a.vi[k], b.vi[k])) { ++ndiff; p = k; }
        if(ndiff == 1) {
            bool spec; int want = ref_order(V[a.vi[p]], V[b.vi[p]], spec);
            if(spec && (sgn(c_ab) != want || sgn(c_ba) != -want)) {
                ok = false;
                vp::violation(std::string("order-") + V[a.vi[p]].type + "|rtosc_arg_vals_cmp|" + cls, cid, detail() + "; the statement orders them '" + sgnc(want) + "'");
            }
        }
    }
    return ok;
}

static void phase_pairs(const char *set, const std::vector<List> &L)
{
    if(!rp_phase("P") || !rp_is(0, set)) return;
    std::vector<size_t> ns; for(auto &l : L) ns.push_back(nslots(l));
    for(size_t i = 0; i < L.size(); ++i) {
        if(!vp::mine(i) || !rp_is(1, (long long)i)) continue;
        if(vp::deadline_passed()) { vp::cap(std::string("deadline: pairs over set ") + set + " stopped at list " + std::to_string(i) + " of " + std::to_string(L.size())); return; }
        for(size_t j = i; j < L.size(); ++j) {
            if(!rp_is(2, (long long)j)) continue;
            if(g_rp.on && !vp::want(std::string("P|") + set + "|" + std::to_string(i) + "|" + std::to_string(j))) continue;
            const List &a = L[i], &b = L[j];
            if(shadowed(a, b)) { vp::outcome("pair-long:not-evaluated-contains-a-value-pair-that-breaks-a-pair-law"); continue; }
            int c_ab = lib_cmp(a.s[0], ns[i], b.s[1], ns[j]);
            int c_ba = lib_cmp(b.s[0], ns[j], a.s[1], ns[i]);
            int e_ab = lib_eq(a.s[0], ns[i], b.s[1], ns[j]);
            int e_ba = lib_eq(b.s[0], ns[j], a.s[1], ns[i]);
            vp::eval(); vp::state();
            bool ok = eval_pair(a, b, i == j, c_ab, c_ba, e_ab, e_ba, set, i, j);
            if(first_diff_same_type(a, b)) vp::nontrivial(vp::fnv(std::string(set) + ":" + std::to_string(i) + ":" + std::to_string(j)));
            if(a.vi.size() <= 1 && b.vi.size() <= 1)
                vp::outcome(std::string("pair:") + pair_class(a, b) + ":" + sgnc(sgn(c_ab)) + (e_ab ? "eq" : "") + (ok ? "" : ":BAD"));
            else
                vp::outcome(std::string("pair-long:") + sgnc(sgn(c_ab)) + (e_ab ? "eq" : "") + (ok ? "" : ":BAD"));
            if(i % 499 == 7 && j == i + 3) vp::sample("pair " + show_list(a) + " vs " + show_list(b) + ": cmp=" + std::to_string(c_ab) + " eq=" + std::to_string(e_ab));
        }
    }
}

// ---- phase T: transitivity ----------------------------------------------------------------------------
static void phase_triples(const char *set, const std::vector<List> &L)
{
    if(!rp_phase("T") || !rp_is(0, set)) return;
    const size_t n = L.size();
    std::vector<size_t> ns; for(auto &l : L) ns.push_back(nslots(l));
    std::vector<signed char> M(n * n), E(n * n), bad(n * n);
    for(size_t i = 0; i < n; ++i) {
        uint64_t before = vp::ctx().transitions;
        for(size_t j = 0; j < n; ++j) {
            M[i * n + j] = (signed char)sgn(lib_cmp(L[i].s[0], ns[i], L[j].s[1], ns[j]));
            E[i * n + j] = (signed char)(lib_eq(L[i].s[0], ns[i], L[j].s[1], ns[j]) != 0);
        }
        if(!vp::mine(i) || g_rp.on) vp::ctx().transitions = before;   // every shard fills the whole matrix; count each call once
    }
    for(size_t i = 0; i < n; ++i) for(size_t j = 0; j < n; ++j)
        bad[i * n + j] = M[i * n + j] != -M[j * n + i] || (M[i * n + j] == 0) != (E[i * n + j] != 0) || (i == j && M[i * n + j] != 0);
    uint64_t skipped = 0, hist[27] = {0};
    for(size_t i = 0; i < n; ++i) {
        if(!vp::mine(i) || !rp_is(1, (long long)i)) continue;
        if(vp::deadline_passed()) { vp::cap(std::string("deadline: triples over set ") + set + " stopped at list " + std::to_string(i) + " of " + std::to_string(n)); break; }
        for(size_t j = 0; j < n; ++j) {
            if(!rp_is(2, (long long)j)) continue;
            const int s1 = M[i * n + j];
            for(size_t k = 0; k < n; ++k) {
                if(!rp_is(3, (long long)k)) continue;
                if(g_rp.on && !vp::want(std::string("T|") + set + "|" + std::to_string(i) + "|" + std::to_string(j) + "|" + std::to_string(k))) continue;
                if(bad[i * n + j] | bad[j * n + k] | bad[i * n + k]) { ++skipped; continue; }   // reported by the pair laws; no cascade
                const int s2 = M[j * n + k], s3 = M[i * n + k];
                ++hist[(s1 + 1) * 9 + (s2 + 1) * 3 + (s3 + 1)];
                bool viol = false;
                if(s1 <= 0 && s2 <= 0) viol = (s1 < 0 || s2 < 0) ? !(s3 < 0) : !(s3 == 0);
                else if(s1 >= 0 && s2 >= 0) viol = !(s3 > 0);
                // equality must also be transitive through the equality test
                if(!viol && E[i * n + j] && E[j * n + k] && !E[i * n + k]) viol = true;
                if(viol) {
                    std::string cid = std::string("T|") + set + "|" + std::to_string(i) + "|" + std::to_string(j) + "|" + std::to_string(k);
                    vp::violation("transitive|rtosc_arg_vals_cmp|" + pair_class(L[i], L[j]) + ";" + pair_class(L[j], L[k]) + ";" + pair_class(L[i], L[k]), cid,
                                  show_list(L[i]) + " " + sgnc(s1) + " " + show_list(L[j]) + " " + sgnc(s2) + " " + show_list(L[k]) + " but first vs third is '" + sgnc(s3) + "'");
                }
            }
        }
        vp::eval(n * n); vp::state(n * n);
    }
    for(int h = 0; h < 27; ++h) if(hist[h])
        vp::ctx().outcomes[std::string("triple:") + set + ":" + sgnc(h / 9 - 1) + sgnc(h / 3 % 3 - 1) + "=>" + sgnc(h % 3 - 1)] += hist[h];
    if(skipped) vp::ctx().outcomes[std::string("triple:") + set + ":skipped-contains-a-pair-that-breaks-a-pair-law"] += skipped;
}

// ---- phase R: range compression -----------------------------------------------------------------------
struct El { char type; double v; };
static bool el_same(const El &a, const El &b) { return a.type == b.type && a.v == b.v; }
static bool el_numeric(const El &a) { return a.type != 'T' && a.type != 'F'; }
static AV el_av(char type, double v)
{
    switch(type) {
    case 'i': case 'c': return av_i(type, (int32_t)v);
    case 'h': return av_h((int64_t)v);
    case 'f': return av_f((float)v);
    case 'd': return av_d(v);
    case 'T': return av_bool(true);
    case 'F': return av_bool(false);
    }
    abort();
}
static std::string el_show(const El &e)
{
    if(!el_numeric(e)) return std::string(1, e.type);
    char b[32]; snprintf(b, sizeof b, "%c%g", e.type, e.v); return b;
}
static std::string els_show(const std::vector<El> &x) { std::string o; for(size_t k = 0; k < x.size(); ++k) o += (k ? " " : "") + el_show(x[k]); return o; }

struct Seg { int start, n, kind; };   // kind 0: literal, 1: `N x v`, 2: arithmetic range with delta
static bool run_const(const std::vector<El> &x, int p, int n) { for(int k = 1; k < n; ++k) if(!el_same(x[p], x[p + k])) return false; return true; }
static bool run_arith(const std::vector<El> &x, int p, int n)
{
    if(n < 2 || !el_numeric(x[p])) return false;
    for(int k = 1; k < n; ++k) if(x[p + k].type != x[p].type) return false;
    double d = x[p + 1].v - x[p].v;
    if(d == 0) return false;
    // the delta is stored as a value of the run's own type: it has to fit
    if((x[p].type == 'i' && (d > 2147483647.0 || d < -2147483648.0)) || (x[p].type == 'c' && (d > 127 || d < -128))) return false;
    for(int k = 1; k < n; ++k) if(x[p + k].v - x[p + k - 1].v != d) return false;
    return true;
}
static void all_segmentations(const std::vector<El> &x, int p, std::vector<Seg> &cur, std::vector<std::vector<Seg>> &out)
{
    if(p == (int)x.size()) { out.push_back(cur); return; }
    for(int n = 1; p + n <= (int)x.size(); ++n) {
        if(n == 1) {
            cur.push_back({p, 1, 0}); all_segmentations(x, p + 1, cur, out); cur.pop_back();
            cur.push_back({p, 1, 1}); all_segmentations(x, p + 1, cur, out); cur.pop_back();
        } else {
            if(run_const(x, p, n)) { cur.push_back({p, n, 1}); all_segmentations(x, p + n, cur, out); cur.pop_back(); }
            if(run_arith(x, p, n)) { cur.push_back({p, n, 2}); all_segmentations(x, p + n, cur, out); cur.pop_back(); }
        }
    }
}
static std::vector<Seg> greedy(const std::vector<El> &x)
{
    std::vector<Seg> out;
    for(int p = 0; p < (int)x.size();) {
        int best = 1, kind = 0;
        for(int n = 2; p + n <= (int)x.size(); ++n) { if(run_const(x, p, n)) { best = n; kind = 1; } else if(run_arith(x, p, n)) { best = n; kind = 2; } }
        out.push_back({p, best, kind}); p += best;
    }
    return out;
}
static std::vector<AV> slots_of(const std::vector<El> &x, const std::vector<Seg> &segs)
{
    std::vector<AV> s;
    for(const Seg &g : segs) {
        const El &e = x[g.start];
        if(g.kind == 0) s.push_back(el_av(e.type, e.v));
        else if(g.kind == 1) { s.push_back(av_rep(g.n, 0)); s.push_back(el_av(e.type, e.v)); }
        else { s.push_back(av_rep(g.n, 1)); s.push_back(el_av(e.type, x[g.start + 1].v - e.v)); s.push_back(el_av(e.type, e.v)); }
    }
    if(s.empty()) s.push_back(av0('N'));
    return s;
}
static std::vector<AV> plain_slots(const std::vector<El> &x)
{
    std::vector<AV> s; for(auto &e : x) s.push_back(el_av(e.type, e.v));
    if(s.empty()) s.push_back(av0('N'));
    return s;
}
static std::string segs_show(const std::vector<El> &x, const std::vector<Seg> &segs)
{
    std::string o;
    for(const Seg &g : segs) {
        if(!o.empty()) o += " ";
        if(g.kind == 0) o += el_show(x[g.start]);
        else if(g.kind == 1) o += std::to_string(g.n) + "x" + el_show(x[g.start]);
        else o += el_show(x[g.start]) + " ... " + el_show(x[g.start + g.n - 1]);
    }
    return o;
}
static std::string seg_class(const std::vector<El> &x, const std::vector<Seg> &segs)
{
    // shape class of a compressed list: which kinds of range it contains (and for which type)
    bool one = false, nx = false, delta = false, nxb = false;
    for(const Seg &g : segs) {
        if(g.kind == 1 && g.n == 1) one = true;
        else if(g.kind == 1 && !el_numeric(x[g.start])) nxb = true;
        else if(g.kind == 1) nx = true;
        else if(g.kind == 2) delta = true;
    }
    std::string o;
    if(one) o += "+1x"; if(nx) o += "+Nx"; if(nxb) o += "+NxBool"; if(delta) o += "+delta";
    return o.empty() ? "literal" : o.substr(1);
}
static bool same_av(const AV &got, const El &want)
{
    if(got.type != want.type) return false;
    switch(want.type) {
    case 'i': case 'c': return got.val.i == (int32_t)want.v;
    case 'h': return got.val.h == (int64_t)want.v;
    case 'f': return got.val.f == (float)want.v;
    case 'd': return got.val.d == want.v;
    case 'T': return got.val.T == 1;
    case 'F': return got.val.T == 0;
    }
    return false;
}
static std::string ref_message(const std::vector<El> &x)
{
    std::string types; std::vector<ref::Arg> args;
    for(auto &e : x) {
        types += e.type;
        ref::Arg a; a.type = e.type;
        switch(e.type) {
        case 'i': case 'c': a.u32 = (uint32_t)(int32_t)e.v; args.push_back(a); break;
        case 'h': a.u64 = (uint64_t)(int64_t)e.v; args.push_back(a); break;
        case 'f': { float f = (float)e.v; memcpy(&a.u32, &f, 4); args.push_back(a); break; }
        case 'd': { double d = e.v; memcpy(&a.u64, &d, 8); args.push_back(a); break; }
        }
    }
    return ref::encode("/x", types, args);
}

struct Third { std::vector<AV> s; size_t n; int c_fwd, c_rev, e_fwd; std::string text; };

static void range_case(char t, const std::vector<El> &x, const std::vector<Seg> &segs, const std::vector<AV> &plain,
                       std::vector<Third> &thirds, const std::string &refmsg, const std::string &cid)
{
    vp::eval(); vp::state();
    const std::string cls = std::string(1, t) + ":" + seg_class(x, segs);
    const size_t n = x.size();
    std::vector<AV> c = slots_of(x, segs);
    size_t cn = 0; for(const Seg &g : segs) cn += g.kind == 0 ? 1 : g.kind == 1 ? 2 : 3;
    int nranges = 0; for(const Seg &g : segs) if(g.kind) ++nranges;
    if(nranges) vp::nontrivial(vp::fnv(cid));
    auto text = [&] { return "compressed (" + segs_show(x, segs) + ") of expanded (" + els_show(x) + ")"; };

    // 1. what iteration yields
    {
        rtosc_arg_val_itr it; rtosc_arg_val_itr_init(&it, c.data());
        size_t k = 0; bool ok = true; std::string why;
        while(it.i < cn && k < n + 2) {
            AV buf = av0(0);
            const AV *got = rtosc_arg_val_itr_get(&it, &buf);
            vp::transition();
            if(!got) { ok = false; why = "value " + std::to_string(k) + ": NULL"; break; }
            if(k < n && !same_av(*got, x[k])) { ok = false; why = "value " + std::to_string(k) + " is type '" + std::string(1, got->type) + "' i=" + std::to_string(got->val.i) + ", expansion has " + el_show(x[k]); break; }
            rtosc_arg_val_itr_next(&it); vp::transition();
            ++k;
        }
        if(ok && k != n) { ok = false; why = "iterator yields " + std::to_string(k) + " values, expansion has " + std::to_string(n); }
        if(ok && it.i != cn) { ok = false; why = "iterator ends at slot " + std::to_string(it.i) + " of " + std::to_string(cn); }
        if(!ok) vp::violation("iteration-yields-expansion|rtosc_arg_val_itr|" + cls, cid, text() + ": " + why);
        vp::trace();
    }
    // 2. equal to / compares 0 with the expanded list
    {
        int e1 = lib_eq(c, cn, plain, n), e2 = lib_eq(plain, n, c, cn), c1 = lib_cmp(c, cn, plain, n), c2 = lib_cmp(plain, n, c, cn);
        if(!e1 || !e2) vp::violation("compressed-eq-expanded|rtosc_arg_vals_eq|" + cls, cid, text() + ": eq=" + std::to_string(e1) + " reverse " + std::to_string(e2));
        if(c1 || c2) vp::violation("compressed-cmp0-expanded|rtosc_arg_vals_cmp|" + cls, cid, text() + ": cmp=" + std::to_string(c1) + " reverse " + std::to_string(c2));
        int e0 = lib_eq(c, cn, c, cn), c0 = lib_cmp(c, cn, c, cn);
        if(!e0 || c0) vp::violation("reflexive|cmp+eq|" + cls, cid, text() + " against itself: eq=" + std::to_string(e0) + " cmp=" + std::to_string(c0));
    }
    // 3. same verdict as the expanded list against every third list
    for(Third &th : thirds) {
        int cf = sgn(lib_cmp(c, cn, th.s, th.n)), cr = sgn(lib_cmp(th.s, th.n, c, cn)), ef = lib_eq(c, cn, th.s, th.n) != 0;
        if(cf != th.c_fwd || cr != th.c_rev)
            vp::violation("same-order-vs-third|rtosc_arg_vals_cmp|" + cls, cid, text() + " against (" + th.text + "): cmp " + sgnc(cf) + "/" + sgnc(cr) +
                          ", the expanded list gives " + sgnc(th.c_fwd) + "/" + sgnc(th.c_rev));
        if(ef != th.e_fwd)
            vp::violation("same-eq-vs-third|rtosc_arg_vals_eq|" + cls, cid, text() + " against (" + th.text + "): eq " + std::to_string(ef) + ", the expanded list gives " + std::to_string(th.e_fwd));
    }
    // 4. the message built from it
    {
        static char buf[512];
        memset(buf, 0xA5, sizeof buf);
        size_t r = rtosc_avmessage(buf, sizeof buf, "/x", cn, c.data());
        vp::transition();
        if(r != refmsg.size() || memcmp(buf, refmsg.data(), r))
            vp::violation("message-bytes|rtosc_avmessage|" + cls, cid, text() + ": " + std::to_string(r) + " bytes " + vp::hex(buf, r < 64 ? r : 64) + ", reference encoding of the expansion has " +
                          std::to_string(refmsg.size()) + " bytes " + vp::hex(refmsg.data(), refmsg.size()));
    }
    // 5. the same inside an array (arrays are homogeneous; booleans may mix)
    {
        bool homog = true;
        for(auto &e : x) if(el_numeric(e) != el_numeric(x[0]) || (el_numeric(e) && e.type != x[0].type)) homog = false;
        if(homog) {
            std::vector<AV> ac, ae;
            ac.push_back(av_arr(x.back().type, (int32_t)cn)); ac.insert(ac.end(), c.begin(), c.begin() + cn);
            ae.push_back(av_arr(x.back().type, (int32_t)n)); ae.insert(ae.end(), plain.begin(), plain.begin() + n);
            int e1 = lib_eq(ac, cn + 1, ae, n + 1), e2 = lib_eq(ae, n + 1, ac, cn + 1), c1 = lib_cmp(ac, cn + 1, ae, n + 1), c2 = lib_cmp(ae, n + 1, ac, cn + 1);
            if(!e1 || !e2 || c1 || c2)
                vp::violation("compressed-eq-expanded|inside-array|" + cls, cid, "[" + segs_show(x, segs) + "] against [" + els_show(x) + "]: eq=" + std::to_string(e1) + "/" + std::to_string(e2) +
                              " cmp=" + std::to_string(c1) + "/" + std::to_string(c2));
        }
    }
    vp::outcome("range:" + cls + ":n=" + std::to_string(n) + ":slots=" + std::to_string(cn));
}

static void ranges_of_list(char t, const std::vector<El> &x, const std::vector<El> &alpha, const std::string &idtag, bool sample)
{
    const int n = (int)x.size();
    std::vector<std::vector<Seg>> segs; { std::vector<Seg> cur; all_segmentations(x, 0, cur, segs); }
    std::vector<AV> plain = plain_slots(x);
    // third lists: the neighbours of x (one shorter, one longer, one value replaced), plain and compressed
    std::vector<Third> thirds;
    auto add_third = [&](const std::vector<El> &y) {
        std::vector<std::vector<Seg>> forms; forms.push_back({}); for(int k = 0; k < (int)y.size(); ++k) forms[0].push_back({k, 1, 0});
        std::vector<Seg> g = greedy(y); if(g.size() != y.size()) forms.push_back(g);
        for(auto &f : forms) {
            Third th; th.s = slots_of(y, f); th.n = 0; for(const Seg &s : f) th.n += s.kind == 0 ? 1 : s.kind == 1 ? 2 : 3;
            th.text = segs_show(y, f);
            th.c_fwd = sgn(lib_cmp(plain, n, th.s, th.n)); th.c_rev = sgn(lib_cmp(th.s, th.n, plain, n)); th.e_fwd = lib_eq(plain, n, th.s, th.n) != 0;
            thirds.push_back(th);
        }
    };
    {
        { std::vector<El> y(x.begin(), x.end() - 1); add_third(y); }
        for(auto &a : alpha) { std::vector<El> y = x; y.push_back(a); add_third(y); }
        for(int p = 0; p < n; ++p) for(auto &a : alpha) if(!el_same(a, x[p])) { std::vector<El> y = x; y[p] = a; add_third(y); }
    }
    std::string refmsg = ref_message(x);
    for(size_t si = 0; si < segs.size(); ++si) {
        std::string cid = idtag + "|" + std::to_string(si);
        if(!vp::want(cid)) continue;
        range_case(t, x, segs[si], plain, thirds, refmsg, cid);
        if(sample && si == segs.size() / 2) vp::sample("ranges: expanded (" + els_show(x) + ") compressed (" + segs_show(x, segs[si]) + "), " + std::to_string(thirds.size()) + " third lists");
    }
}

static void phase_ranges(int maxlen)
{
    if(!rp_phase("R")) return;
    uint64_t top = 0;
    for(char t : {'i', 'c', 'h', 'f', 'd'}) {
        std::vector<El> alpha;
        if(t == 'f' || t == 'd') for(double v : {0.0, 0.5, 1.0, 2.0}) alpha.push_back({t, v});
        else for(double v : {0.0, 1.0, 2.0, 4.0}) alpha.push_back({t, v});
        alpha.push_back({'T', 0}); alpha.push_back({'F', 0});
        const size_t A = alpha.size();
        for(int n = 1; n <= maxlen; ++n) {
            size_t total = 1; for(int k = 0; k < n; ++k) total *= A;
            for(size_t idx = 0; idx < total; ++idx, ++top) {
                if(!vp::mine(top)) continue;
                if(!rp_is(0, std::string(1, t)) || !rp_is(1, n) || !rp_is(2, (long long)idx)) continue;
                if(vp::deadline_passed()) { vp::cap(std::string("deadline: ranges stopped at type ") + t + " length " + std::to_string(n) + " list " + std::to_string(idx)); return; }
                std::vector<El> x(n); { size_t r = idx; for(int k = n - 1; k >= 0; --k) { x[k] = alpha[r % A]; r /= A; } }
                ranges_of_list(t, x, alpha, std::string("R|") + t + "|" + std::to_string(n) + "|" + std::to_string(idx), idx % 1237 == 11);
            }
        }
    }
    // wide runs: arithmetic runs whose members all fit the type while k*delta or last-first does not (32 bit), steps beyond 32 bits and
    // congruent to +-1 modulo 2^32 (64 bit), runs next to the ends of the type's range; each alone, with a leading and a trailing extra value
    {
        struct W { char t; double start, step; int n; };
        const double P32 = 4294967296.0;
        static const W WIDE[] = {
            {'i', -2000000000.0, 800000000.0, 5}, {'i', 2000000000.0, -800000000.0, 5}, {'i', -2147483647.0, 2147483647.0, 3}, {'i', -2147483648.0, 1073741824.0, 4},
            {'i', 2147483647.0, -1073741824.0, 4}, {'i', 2147483643.0, 1.0, 5}, {'i', -2147483644.0, -1.0, 5}, {'i', -16777217.0, 8388609.0, 5}, {'i', -1500000000.0, 1000000000.0, 4},
            {'h', 0.0, P32 + 1, 4}, {'h', 0.0, P32 - 1, 4}, {'h', 3.0, -(P32 + 1), 4}, {'h', -3.0, -(P32 - 1), 4}, {'h', 0.0, P32, 4}, {'h', -7.0, 5000000000.0, 4}, {'h', -2000000000.0, 800000000.0, 5},
            {'h', -4503599627370496.0, 2251799813685248.0, 5}, {'h', 0.0, 2147483648.0, 4}, {'h', 1.0, -2147483648.0, 4}};
        vp::bound("wide_runs", "19 arithmetic runs (32 bit: span above 2^31 across zero, ends of the range, step 2^23+1; 64 bit: steps 2^32+-1, +-2^32, 5e9, +-2^31, 2^51) x {alone, extra value in front, extra value behind}, every segmentation");
        size_t wi = 0;
        for(const W &w : WIDE) for(int ctx = 0; ctx < 3; ++ctx, ++wi, ++top) {
            if(!vp::mine(top)) continue;
            if(!rp_is(0, "W") || !rp_is(1, (long long)wi)) continue;
            std::vector<El> x; if(ctx == 1) x.push_back({w.t, 5.0});
            for(int k = 0; k < w.n; ++k) x.push_back({w.t, w.start + k * w.step});
            if(ctx == 2) x.push_back({w.t, -9.0});
            std::vector<El> alpha = {{w.t, 0.0}, {w.t, w.start}, {w.t, w.start + w.step}, {w.t, w.start + (w.n - 1) * w.step}, {'T', 0}};
            ranges_of_list(w.t, x, alpha, "R|W|" + std::to_string(wi), ctx == 0);
        }
    }
}

// ---- phase A: constant runs of arrays (`N x [..]`) ----------------------------------------------------
// The comparison may leave the buffers here, so eq/cmp run in a forked child that reports through a pipe.
static bool forked_cmp_eq(const std::vector<AV> &l, size_t ln, const std::vector<AV> &r, size_t rn, int res[4], std::string &how)
{
    int fd[2]; if(pipe(fd)) { perror("pipe"); exit(3); }
    fflush(nullptr);
    pid_t pid = fork();
    if(pid < 0) { perror("fork"); exit(3); }
    if(pid == 0) {
        close(fd[0]);
        alarm(10);
        int out[4];
        out[0] = rtosc_arg_vals_eq(l.data(), r.data(), ln, rn, nullptr);
        out[1] = rtosc_arg_vals_eq(r.data(), l.data(), rn, ln, nullptr);
        out[2] = rtosc_arg_vals_cmp(l.data(), r.data(), ln, rn, nullptr);
        out[3] = rtosc_arg_vals_cmp(r.data(), l.data(), rn, ln, nullptr);
        if(write(fd[1], out, sizeof out) != (ssize_t)sizeof out) _exit(99);
        _exit(0);
    }
    close(fd[1]);
    ssize_t got = read(fd[0], res, 4 * sizeof(int));
    close(fd[0]);
    int st = 0; waitpid(pid, &st, 0);
    vp::transition(4);
    if(got == (ssize_t)(4 * sizeof(int)) && WIFEXITED(st) && WEXITSTATUS(st) == 0) return true;
    if(WIFSIGNALED(st)) how = "killed by signal " + std::to_string(WTERMSIG(st));
    else how = "process exit(" + std::to_string(WEXITSTATUS(st)) + ") inside the comparison";
    return false;
}

static void phase_array_runs()
{
    if(!rp_phase("A")) return;
    std::vector<int> arrs; for(size_t k = 0; k < V.size(); ++k) if(V[k].type == 'a') arrs.push_back((int)k);
    uint64_t top = 0;
    for(int vi : arrs) for(int n = 1; n <= 3; ++n, ++top) {
        if(!vp::mine(top)) continue;
        std::string cid = "A|" + std::to_string(vi) + "|" + std::to_string(n);
        if(!vp::want(cid)) continue;
        vp::eval(); vp::state(); vp::nontrivial(vp::fnv(cid));
        const Value &v = V[vi];
        const std::string cls = std::string(v.s[0].size() == 1 ? "Nx-empty-array" : "Nx-array");
        std::vector<AV> c, e;
        c.push_back(av_rep(n, 0)); c.insert(c.end(), v.s[0].begin(), v.s[0].end());
        for(int k = 0; k < n; ++k) e.insert(e.end(), v.s[1].begin(), v.s[1].end());
        const std::string text = std::to_string(n) + "x" + v.name;
        // iteration: every yielded value must be the array, with its elements behind the header it returns
        {
            rtosc_arg_val_itr it; rtosc_arg_val_itr_init(&it, c.data());
            int k = 0; std::string why;
            while(it.i < c.size() && k < n + 2) {
                AV buf[2]; buf[0] = av0(0); buf[1] = av0(0);
                const AV *got = rtosc_arg_val_itr_get(&it, buf);
                vp::transition();
                if(!got || got->type != 'a' || rtosc_av_arr_len(got) != rtosc_av_arr_len(&v.s[0][0]) || rtosc_av_arr_type(got) != rtosc_av_arr_type(&v.s[0][0])) { why = "value " + std::to_string(k) + " is not the array header"; break; }
                if(rtosc_av_arr_len(got) > 0 && got == buf) { why = "value " + std::to_string(k) + ": only the array header is copied into the caller's one-element buffer, the elements are not behind it"; break; }
                rtosc_arg_val_itr_next(&it); vp::transition();
                ++k;
            }
            if(why.empty() && k != n) why = "iterator yields " + std::to_string(k) + " arrays, expansion has " + std::to_string(n);
            if(!why.empty()) vp::violation("iteration-yields-expansion|rtosc_arg_val_itr|" + cls, cid, text + ": " + why);
            vp::trace();
        }
        int res[4]; std::string how;
        if(!forked_cmp_eq(c, c.size(), e, e.size(), res, how))
            vp::violation("crash|cmp+eq|" + cls, cid, text + " against its expansion: " + how);
        else if(!res[0] || !res[1] || res[2] || res[3])
            vp::violation("compressed-eq-expanded|cmp+eq|" + cls, cid, text + " against its expansion: eq=" + std::to_string(res[0]) + "/" + std::to_string(res[1]) + " cmp=" + std::to_string(res[2]) + "/" + std::to_string(res[3]));
        vp::outcome("array-run:" + cls + ":n=" + std::to_string(n));
    }
}

// ---- phase O: a non-default float tolerance ---------------------------------------------------------------
// With a tolerance the relation is no order any more (not transitive), and the statement does not say what the tolerance
// means; what it does say independently of options: cmp returns 0 exactly when eq reports equal, and the two directions agree.
static void phase_tolerance()
{
    if(!rp_phase("O")) return;
    std::vector<double> vals, tols;
    for(int k = -20; k <= 20; ++k) vals.push_back(k / 10.0);
    for(double v : {16777216.0, 16777217.0, -16777216.0, 1e30, -1e30, 3.0e-39, 0.30000001192092896}) vals.push_back(v);
    for(int m = 1; m <= 20; ++m) tols.push_back(m / 10.0);
    for(double t : {0.25, 0.75, 1e-3, 1e-9, 16777216.0, 16777217.0, 1e30}) tols.push_back(t);
    vp::bound("tolerance_grid", "values k/10 (k=-20..20) + 2^24, 2^24+1, -2^24, +-1e30, a denormal, 0.3f as float and as double; tolerances m/10 (m=1..20), 0.25, 0.75, 1e-3, 1e-9, 2^24, 2^24+1, 1e30; shapes: one value, behind an equal int, `3 x a` against `b b b`");
    uint64_t top = 0;
    for(char t : {'f', 'd'}) for(size_t ti = 0; ti < tols.size(); ++ti) for(size_t ai = 0; ai < vals.size(); ++ai, ++top) {
        if(!vp::mine(top)) continue;
        if(!rp_is(0, std::string(1, t)) || !rp_is(1, (long long)ti) || !rp_is(2, (long long)ai)) continue;
        rtosc_cmp_options o; o.float_tolerance = tols[ti];
        for(size_t bi = 0; bi < vals.size(); ++bi) for(int shape = 0; shape < 3; ++shape) {
            std::string cid = std::string("O|") + t + "|" + std::to_string(ti) + "|" + std::to_string(ai) + "|" + std::to_string(bi) + "|" + std::to_string(shape);
            if(!vp::want(cid)) continue;
            vp::eval(); vp::state(); if(ai != bi) vp::nontrivial(vp::fnv(cid));
            AV a = t == 'f' ? av_f((float)vals[ai]) : av_d(vals[ai]), b = t == 'f' ? av_f((float)vals[bi]) : av_d(vals[bi]);
            std::vector<AV> l, r;
            if(shape == 0) { l = {a}; r = {b}; }
            else if(shape == 1) { l = {av_i('i', 7), a}; r = {av_i('i', 7), b}; }
            else { l = {av_rep(3, 0), a}; r = {b, b, b}; }
            int e1 = rtosc_arg_vals_eq(l.data(), r.data(), l.size(), r.size(), &o), e2 = rtosc_arg_vals_eq(r.data(), l.data(), r.size(), l.size(), &o);
            int c1 = rtosc_arg_vals_cmp(l.data(), r.data(), l.size(), r.size(), &o), c2 = rtosc_arg_vals_cmp(r.data(), l.data(), r.size(), l.size(), &o);
            vp::transition(4);
            char d[200]; snprintf(d, sizeof d, "%c %.9g vs %.9g, tolerance %.9g, shape %d: eq=%d/%d cmp=%d/%d", t, vals[ai], vals[bi], tols[ti], shape, e1, e2, c1, c2);
            const std::string cls = std::string(shape == 2 ? "Nxv-vs-expanded" : shape == 1 ? "behind-prefix" : "single") + "," + t;
            if((e1 != 0) != (c1 == 0) || (e2 != 0) != (c2 == 0)) vp::violation("cmp0-iff-eq|float-tolerance|" + cls, cid, d);
            else if((e1 != 0) != (e2 != 0)) vp::violation("eq-symmetric|float-tolerance|" + cls, cid, d);
            else if(sgn(c1) != -sgn(c2)) vp::violation("antisymmetric|float-tolerance|" + cls, cid, d);
            vp::outcome(std::string("tolerance:") + (e1 ? "equal" : c1 < 0 ? "less" : "greater"));
        }
        vp::trace();
    }
}

// ---- phase B: blobs that are views of one shared buffer (same data pointer, different lengths; different offsets of one buffer)
static void phase_blob_views()
{
    if(!rp_phase("B")) return;
    static uint8_t store[6] = {1, 0, 2, 1, 0, 2};
    for(int oa = 0; oa <= 3; oa += 3) for(int la = 0; la <= 3; ++la) for(int ob = 0; ob <= 3; ob += 3) for(int lb = 0; lb <= 3; ++lb) {
        std::string cid = "B|" + std::to_string(oa) + "|" + std::to_string(la) + "|" + std::to_string(ob) + "|" + std::to_string(lb);
        if(vp::ctx().shard != 0 || !vp::want(cid)) continue;
        vp::eval(); vp::state(); vp::nontrivial(vp::fnv(cid));
        AV a = av0('b'), b = av0('b'); a.val.b.len = la; a.val.b.data = store + oa; b.val.b.len = lb; b.val.b.data = store + ob;
        int e1 = rtosc_arg_vals_eq(&a, &b, 1, 1, nullptr), e2 = rtosc_arg_vals_eq(&b, &a, 1, 1, nullptr), c1 = rtosc_arg_vals_cmp(&a, &b, 1, 1, nullptr), c2 = rtosc_arg_vals_cmp(&b, &a, 1, 1, nullptr);
        vp::transition(4);
        // content: the first la / lb bytes of {1,0,2}: equal iff la == lb; the shorter one is a proper prefix and comes first
        int want = la < lb ? -1 : la > lb ? 1 : 0;
        char d[160]; snprintf(d, sizeof d, "blob views of one buffer: (offset %d, len %d) vs (offset %d, len %d): eq=%d/%d cmp=%d/%d", oa, la, ob, lb, e1, e2, c1, c2);
        const std::string cls = oa == ob ? "same-data-pointer" : "same-buffer-other-offset";
        if((e1 != 0) != (want == 0) || (e2 != 0) != (want == 0)) vp::violation("eq-blob|shared-storage|" + cls, cid, d);
        else if(sgn(c1) != want || sgn(c2) != -want) vp::violation("order-blob|shared-storage|" + cls, cid, d);
        vp::outcome("blob-views:" + cls);
    }
    vp::bound("blob_views", "blobs of length 0..3 that are views of one buffer {1,0,2,1,0,2} at offsets 0 and 3: all pairs");
}

int main(int argc, char **argv)
{
    vp::init(argc, argv, "C16");
    rp_init();
    const bool T = vp::thorough();
    build_alphabet();
    set_canon();
    compute_badv();

    std::vector<int> full; for(size_t k = 0; k < V.size(); ++k) full.push_back((int)k);
    std::vector<int> sub10, sub16;
    for(const char *n : {"i0", "i1", "\"a\"", "\"ab\"", "b[1]", "b[1 0]", "t:immediately", "t0", "[T F]:F", "[aS]"}) sub10.push_back(vindex(n));
    sub16 = sub10;
    for(const char *n : {"f0.5", "h4294967296", "T", "[N]", "[i0]", "[i0 i1]"}) sub16.push_back(vindex(n));

    vp::bound("value_alphabet", (long long)V.size());
    vp::bound("pairs", T ? "all pairs of lists of length 0..2 over the full alphabet + of length 0..3 over the 10-value sub-alphabet"
                         : "all pairs of lists of length 0..2 over the full alphabet");
    vp::bound("triples", T ? "lists 0..1 full alphabet; lists 0..2 over 16 values; lists 0..3 over 10 values"
                           : "lists 0..1 full alphabet; lists 0..2 over 10 values");
    const int maxlen = T ? 6 : 5;
    vp::bound("range_lists", "types c i h f d: all lists of length 1.." + std::to_string(maxlen) + " over {0,1,2,4 | 0,0.5,1,2} + {T,F}, every segmentation into literals, `Nxv` (N>=1) and delta ranges (N>=2)");
    vp::bound("array_runs", "N x array for every array of the alphabet, N=1..3");

    {
        std::vector<List> full2 = all_lists(full, 2);
        vp::bound("lists_len0-2_full", (long long)full2.size());
        phase_pairs("full2", full2);
    }
    if(T) { std::vector<List> s = all_lists(sub10, 3); phase_pairs("sub10x3", s); }
    { std::vector<List> s = all_lists(full, 1); phase_triples("full1", s); }
    if(!T) { std::vector<List> s = all_lists(sub10, 2); phase_triples("sub10x2", s); }
    else {
        { std::vector<List> s = all_lists(sub16, 2); phase_triples("sub16x2", s); }
        { std::vector<List> s = all_lists(sub10, 3); phase_triples("sub10x3", s); }
    }
    phase_ranges(maxlen);
    phase_array_runs();
    phase_tolerance();
    phase_blob_views();
    return vp::finish();
}
