// C09 - walking a port tree enumerates exactly its dispatchable addresses.
// Static part: generated trees (depth 1..3, thorough 4) over leaf / sub-tree name shapes with #N at any
// level and multi-component names; oracle = reference expansion from the tree description + dispatch
// of every reported address. Runtime part: a macro-built application in ALL 256 states of its enabling
// toggles and pointers.
#include <map>
#include <set>
#include <rtosc/ports.h>
#include <rtosc/port-sugar.h>
#include "common.h"
#include "apps/gentree.h"
#include "apps/walk_app.h"

using namespace gt;

static const char *LEAF_SHAPES[] = {"x", "y:i", "z::i", "v#2", "w#3::i", "a#2/b", "d#2/e#2", "g#2/h:i", "r#2/7x"};
static const char *SUB_SHAPES[] = {"s/", "t#2/", "u#3/k#2/c/", "p/::i", "n#2/4b/"};       // the last of each: a component that starts with a digit behind an index
static const int NL = 9, NS = 5;

struct Walked { const rtosc::Port *port; std::string addr; };
static std::vector<Walked> g_walked;
static void on_port(const rtosc::Port *p, const char *name, const char *, const rtosc::Ports &, void *, void *) { g_walked.push_back(Walked{p, name}); }

// reference expansion
static void expand_path(const std::string &pat, std::vector<std::string> &out)
{
    size_t h = pat.find('#');
    if(h == std::string::npos) { out.push_back(pat); return; }
    size_t e = h + 1; while(e < pat.size() && isdigit((unsigned char)pat[e])) ++e;
    int N = atoi(pat.substr(h + 1, e - h - 1).c_str());
    for(int i = 0; i < N; ++i) expand_path(pat.substr(0, h) + std::to_string(i) + pat.substr(e), out);
}
struct ExpAddr { int port_id; std::string addr; std::string types; std::string shape; };
static void reference_walk(Node &n, const std::string &prefix, std::vector<ExpAddr> &out)
{
    for(auto &p : n.ports) {
        std::vector<std::string> sp; expand_path(p.pat.path, sp);
        int hashes = 0; for(char c : p.pat.path) if(c == '#') ++hashes;
        for(auto &s : sp) {
            if(p.child) reference_walk(*p.child, prefix + s, out);
            else out.push_back(ExpAddr{p.id, prefix + s, p.pat.has_types ? p.pat.alts[0] : "", hashes >= 2 ? "leaf-name-with-several-#" : hashes == 1 ? "leaf-name-with-one-#" : "plain-leaf-name"});
        }
    }
}

static void map_ports(Node &n, std::map<const rtosc::Port *, int> &m, std::map<int, std::string> &names)
{
    size_t k = 0;
    for(const rtosc::Port &rp : *n.built) { m[&rp] = n.ports[k].id; names[n.ports[k].id] = n.ports[k].name; if(n.ports[k].child) map_ports(*n.ports[k].child, m, names); ++k; }
}

static std::string tree_shape(Node &n, int depth = 1) { int d = depth; for(auto &p : n.ports) if(p.child) { std::string s = tree_shape(*p.child, depth + 1); d = std::max(d, atoi(s.c_str() + 5)); } return "depth" + std::to_string(d); }

static char g_msg[2048];
static char g_loc[2048];

static void run_tree(std::shared_ptr<Node> root, const std::string &tid)
{
    if(!vp::want(tid)) return;
    vp::current_case() = tid;
    int np = 0, nn = 0;
    build(*root, np, nn);
    vp::state(); vp::eval(); vp::nontrivial(vp::fnv(tid));
    std::map<const rtosc::Port *, int> ids; std::map<int, std::string> names; map_ports(*root, ids, names);
    std::vector<ExpAddr> exp; reference_walk(*root, "", exp);
    const std::string depth = tree_shape(*root);
    for(int variant = 0; variant < 2; ++variant) {
        const std::string prefix = variant == 0 ? "/" : "/pre/fix/";
        char buf[1024]; memset(buf, variant == 0 ? 0 : 0, sizeof buf);
        if(variant == 1) strcpy(buf, prefix.c_str());
        g_walked.clear();
        rtosc::walk_ports(root->built.get(), buf, sizeof buf, nullptr, on_port, true, nullptr, false);
        vp::transition();
        const std::string vshape = std::string(variant ? "nonempty-prefix" : "empty-buffer");
        if(std::string(buf) != prefix) vp::violation("name-buffer-not-restored|walk_ports|" + vshape, tid, "buffer holds '" + std::string(buf) + "' after the walk, started with '" + (variant ? prefix : std::string("")) + "'");
        // multiset comparison
        std::multiset<std::pair<int, std::string>> got, want;
        bool unknown_port = false;
        for(auto &w : g_walked) { auto it = ids.find(w.port); if(it == ids.end()) unknown_port = true; else got.insert({it->second, w.addr}); }
        if(unknown_port) vp::violation("reported-port-not-in-tree|walk_ports|" + vshape, tid, "walker was given a Port that is not part of the tree");
        std::map<int, std::string> shape_of;
        for(auto &e : exp) { want.insert({e.port_id, prefix + e.addr}); shape_of[e.port_id] = e.shape; }
        for(auto &w : want) if(got.count(w) != want.count(w)) {
            vp::violation(std::string(got.count(w) < want.count(w) ? "address-not-reported" : "address-reported-too-often") + "|walk_ports|" + shape_of[w.first] + "," + vshape, tid,
                          "port '" + names[w.first] + "' address '" + w.second + "' reported " + std::to_string(got.count(w)) + " times, expected " + std::to_string(want.count(w)));
            break;
        }
        for(auto &g : got) if(!want.count(g)) {
            vp::violation("unexpected-address-reported|walk_ports|" + shape_of[g.first] + "," + vshape, tid, "port '" + names[g.first] + "' reported under '" + g.second + "'");
            break;
        }
        vp::outcome(depth + "," + vshape + ":" + std::to_string(g_walked.size() > 9 ? 10 : g_walked.size()) + (g_walked.size() > 9 ? "+" : "") + " addresses");
        // every reported address, sent as a message, reaches the very port it was reported with
        if(variant == 0) for(auto &w : g_walked) {
            auto it = ids.find(w.port); if(it == ids.end()) continue;
            std::string types; { refmatch::Pattern rp = refmatch::split(names[it->second]); if(rp.has_types) types = rp.alts[0]; }
            memset(g_msg, 0, sizeof g_msg);
            if(w.addr.size() + 24 > sizeof g_msg) continue;
            memcpy(g_msg, w.addr.data(), w.addr.size());
            size_t off = w.addr.size() + (4 - w.addr.size() % 4);
            g_msg[off] = ','; strcpy(g_msg + off + 1, types.c_str());
            for(int mode = 0; mode < 2; ++mode) {
                Recorder &rec = R(); rec.rec.clear(); rec.msg_base = g_msg;
                rtosc::RtData d; d.obj = &root->obj_tag;
                if(mode) { memset(g_loc, 0, sizeof g_loc); d.loc = g_loc; d.loc_size = sizeof g_loc; }
                root->built->dispatch(g_msg, d, true);
                vp::transition();
                int hits = 0, others = 0;
                for(auto &r : rec.rec) if(r.kind == LEAF) { if(r.port_id == it->second) ++hits; else ++others; }
                if(hits != 1 || others) {
                    vp::violation("reported-address-not-dispatched-to-its-port|dispatch|" + shape_of[it->second] + (mode ? ",location-buffer" : ",no-location-buffer"), tid,
                                  "address '" + w.addr + "' types '" + types + "' reported for port '" + names[it->second] + "': that port ran " + std::to_string(hits) + " times, other leaves " + std::to_string(others));
                    break;
                }
            }
        }
    }
    vp::trace();
}

static bool is_sub(const std::string &nm) { return nm.back() == '/' || (nm.find(':') != std::string::npos && nm.find(':') > 0 && nm[nm.find(':') - 1] == '/'); }
static std::shared_ptr<Node> level(const std::vector<std::string> &names, const std::vector<std::shared_ptr<Node>> &children)
{
    auto n = std::make_shared<Node>(); size_t c = 0;
    for(auto &nm : names) { PortDesc p; p.name = nm; if(nm.back() == '/' || (nm.find(':') != std::string::npos && nm[nm.find(':') - 1] == '/')) p.child = children[c++ % children.size()]; n->ports.push_back(p); }
    return n;
}
// a fresh copy of a tree description (build() fills ids into the description, so trees are not shared)
static std::shared_ptr<Node> clone(const std::shared_ptr<Node> &n)
{
    auto c = std::make_shared<Node>();
    for(auto &p : n->ports) { PortDesc q; q.name = p.name; if(p.child) q.child = clone(p.child); c->ports.push_back(q); }
    return c;
}

// ---- runtime part --------------------------------------------------------------------------------
struct Cap : rtosc::RtData {
    std::vector<std::string> replies;
    void reply(const char *path, const char *, ...) override { replies.push_back(path); }
    void reply(const char *msg) override { replies.push_back(msg); }
    void broadcast(const char *path, const char *, ...) override { replies.push_back(std::string("B:") + path); }
    void broadcast(const char *msg) override { replies.push_back(std::string("B:") + msg); }
};

static void runtime_part()
{
    using walkapp::Root;
    for(unsigned bits = 0; bits < 256; ++bits) {
        if(!vp::mine(bits)) continue;
        std::string tid = "runtime|state" + std::to_string(bits);
        if(!vp::want(tid)) continue;
        vp::current_case() = tid;
        Root r; walkapp::set_state(r, bits);
        std::multiset<std::string> want; std::set<std::string> optional;
        auto leaf2 = [&](const std::string &pre) { want.insert(pre + "/x"); want.insert(pre + "/t"); };
        leaf2("/a"); want.insert("/a"); leaf2("/v0"); leaf2("/v1");
        if(bits & 1) leaf2("/p"); if(bits & 2) leaf2("/pp0"); if(bits & 4) leaf2("/pp1");
        want.insert("/e_on"); want.insert("/e"); if(bits & 8) leaf2("/e");
        want.insert("/q_on"); if((bits & 16) && (bits & 32)) leaf2("/q");
        want.insert("/s"); if(bits & 64) { want.insert("/s/self"); want.insert("/s/on"); want.insert("/s/y"); } else optional.insert("/s/on");
        want.insert("/cond"); want.insert("/f"); if(bits & 128) leaf2("/f");
        char buf[1024]; memset(buf, 0, sizeof buf);
        g_walked.clear();
        rtosc::walk_ports(&Root::ports, buf, sizeof buf, nullptr, on_port, true, &r, false);
        vp::state(); vp::eval(); vp::transition(); vp::nontrivial(vp::fnv(tid));
        std::multiset<std::string> got; for(auto &w : g_walked) got.insert(w.addr);
        auto cls = [&](const std::string &a) -> std::string {
            if(a.compare(0, 3, "/p/") == 0) return "rRecurp";
            if(a.compare(0, 3, "/pp") == 0) return "rRecursp";
            if(a.compare(0, 3, "/e/") == 0) return "rRecur+rEnabledBy";
            if(a.compare(0, 3, "/q/") == 0) return "rRecurp+rEnabledBy";
            if(a.compare(0, 3, "/s/") == 0) return "rSelf+rEnabledBy";
            if(a.compare(0, 3, "/f/") == 0) return "rRecur+rEnabledByCondition";
            if(a.compare(0, 2, "/v") == 0) return "rRecurs";
            if(a.compare(0, 3, "/a/") == 0) return "rRecur";
            return "top-level-leaf";
        };
        if(std::string(buf) != "/") vp::violation("name-buffer-not-restored|walk_ports|runtime", tid, "buffer holds '" + std::string(buf) + "'");
        for(auto &w : want) if(got.count(w) != 1) { vp::violation(std::string(got.count(w) ? "address-reported-too-often" : "enabled-subtree-or-leaf-not-visited") + "|walk_ports-runtime|" + cls(w), tid, "'" + w + "' reported " + std::to_string(got.count(w)) + " times in state " + std::to_string(bits)); break; }
        for(auto &g : got) if(!want.count(g) && !optional.count(g)) { vp::violation("disabled-or-null-subtree-visited|walk_ports-runtime|" + cls(g), tid, "'" + g + "' reported in state " + std::to_string(bits)); break; }
        vp::outcome("runtime:" + std::to_string(got.size()) + " addresses");
        // every reported address is dispatched to the port it was reported with: the macro callbacks answer a
        // query with a reply at their own address
        for(auto &w : g_walked) {
            memset(g_msg, 0, sizeof g_msg); memcpy(g_msg, w.addr.data(), w.addr.size());
            size_t off = w.addr.size() + (4 - w.addr.size() % 4); g_msg[off] = ',';
            Cap d; d.obj = &r; memset(g_loc, 0, sizeof g_loc); d.loc = g_loc; d.loc_size = sizeof g_loc;
            Root::ports.dispatch(g_msg, d, true);
            vp::transition();
            if(d.replies.size() != 1 || d.replies[0] != w.addr)
                vp::violation("reported-address-not-dispatched-to-its-port|dispatch-runtime|" + cls(w.addr), tid, "query to '" + w.addr + "' produced " + std::to_string(d.replies.size()) + " replies" + (d.replies.empty() ? "" : ", first at '" + d.replies[0] + "'"));
        }
        vp::trace();
    }
    vp::bound("runtime_part", "application with rRecur, rRecurs, rRecurp, rRecursp, rRecur/rRecurp+rEnabledBy, rSelf+rEnabledBy, rEnabledCondition: all 256 states of its 8 switches");
}

// ---- long addresses with a runtime object: the chain's name has every length 1..253 (the walker requires a sub-tree to start
// within the first 255 characters), below it an array of 16 pointers in 5 null patterns and an array of 12 objects
static void runtime_long(uint64_t &top)
{
    using namespace walkapp;
    static const unsigned PAT[5] = {0x0003, 0xfc00, 0x5555, 0xffff, 0x0000};
    for(int pad = 1; pad <= 253; ++pad) for(int pi = 0; pi < 5; ++pi, ++top) {
        if(!vp::mine(top)) continue;
        std::string tid = "runtime-long|pad" + std::to_string(pad) + "|pat" + std::to_string(pi);
        if(!vp::want(tid)) continue;
        vp::current_case() = tid;
        std::string chain(pad, 'q'); for(int k = 0; k < pad; k += 5) chain[k] = (char)('a' + (k / 5) % 26);
        std::string pname = chain + "/";
        std::unique_ptr<rtosc::Ports> ports(make_long_ports(pname.c_str()));
        LongRoot r; for(int i = 0; i < 16; ++i) r.rack.cells[i] = ((PAT[pi] >> i) & 1) ? &r.rack.pool[i] : nullptr;
        std::multiset<std::string> want;
        for(int i = 0; i < 16; ++i) if((PAT[pi] >> i) & 1) want.insert("/" + chain + "/cells" + std::to_string(i) + "/x");
        for(int j = 0; j < 12; ++j) { want.insert("/" + chain + "/v" + std::to_string(j) + "/x"); want.insert("/" + chain + "/v" + std::to_string(j) + "/t"); }
        char buf[1024]; memset(buf, 0, sizeof buf);
        g_walked.clear();
        rtosc::walk_ports(ports.get(), buf, sizeof buf, nullptr, on_port, true, &r, false);
        vp::state(); vp::eval(); vp::transition(); vp::nontrivial(vp::fnv(tid));
        std::multiset<std::string> got; for(auto &w : g_walked) got.insert(w.addr);
        const std::string cls = pad + 8 > 200 ? "long-address" : "short-address";
        if(std::string(buf) != "/") vp::violation("name-buffer-not-restored|walk_ports|runtime," + cls, tid, "buffer holds '" + std::string(buf) + "'");
        for(auto &w : want) if(got.count(w) != 1) { vp::violation(std::string(got.count(w) ? "address-reported-too-often" : "enabled-subtree-or-leaf-not-visited") + "|walk_ports-runtime|" + (w.find("/cells") != std::string::npos ? "rRecursp," : "rRecurs,") + cls, tid, "'" + w + "' reported " + std::to_string(got.count(w)) + " times"); break; }
        for(auto &g : got) if(!want.count(g)) { vp::violation("disabled-or-null-subtree-visited|walk_ports-runtime|" + std::string(g.find("/cells") != std::string::npos ? "rRecursp," : "rRecurs,") + cls, tid, "'" + g + "' reported although its pointer is null (or it does not exist)"); break; }
        vp::outcome("runtime-long:" + cls + ":" + std::to_string(got.size() > 30 ? 31 : got.size()));
        for(auto &w : g_walked) {
            if(w.addr.size() + 8 > sizeof g_msg) continue;
            memset(g_msg, 0, sizeof g_msg); memcpy(g_msg, w.addr.data(), w.addr.size());
            size_t off = w.addr.size() + (4 - w.addr.size() % 4); g_msg[off] = ',';
            Cap d; d.obj = &r; memset(g_loc, 0, sizeof g_loc); d.loc = g_loc; d.loc_size = sizeof g_loc;
            ports->dispatch(g_msg, d, true);
            vp::transition();
            if(d.replies.size() != 1 || d.replies[0] != w.addr) { vp::violation("reported-address-not-dispatched-to-its-port|dispatch-runtime|" + cls, tid, "query to '" + w.addr + "' produced " + std::to_string(d.replies.size()) + " replies" + (d.replies.empty() ? "" : ", first at '" + d.replies[0] + "'")); break; }
        }
        vp::trace();
    }
    vp::bound("runtime_long_addresses", "chain name of every length 1..253 above cells#16/ (pointers, 5 null patterns) and v#12/ (objects)");
}

int main(int argc, char **argv)
{
    vp::init(argc, argv, "C09");
    const bool T = vp::thorough();
    std::vector<std::string> L(LEAF_SHAPES, LEAF_SHAPES + NL), S(SUB_SHAPES, SUB_SHAPES + NS), ALL = L; ALL.insert(ALL.end(), S.begin(), S.end());
    uint64_t top = 256; // runtime states own indices 0..255
    runtime_part();
    // depth 1: every ordered list of 1..3 distinct leaf shapes
    std::vector<std::shared_ptr<Node>> d1; std::vector<std::string> d1id;
    for(int a = 0; a < NL; ++a) { d1.push_back(level({L[a]}, {})); d1id.push_back("d1|" + std::to_string(a));
        for(int b = 0; b < NL; ++b) if(b != a) { d1.push_back(level({L[a], L[b]}, {})); d1id.push_back("d1|" + std::to_string(a) + "." + std::to_string(b));
            for(int c = 0; c < NL; ++c) if(c != a && c != b) { d1.push_back(level({L[a], L[b], L[c]}, {})); d1id.push_back("d1|" + std::to_string(a) + "." + std::to_string(b) + "." + std::to_string(c)); } } }
    for(size_t i = 0; i < d1.size(); ++i, ++top) if(vp::mine(top)) run_tree(clone(d1[i]), d1id[i]);
    // thorough: every ordered list of 4 distinct leaf shapes, and every ordered list of 3 shapes (leaf or sub-tree) with each sub-tree holding
    // each representative child
    if(T) {
        for(int a = 0; a < NL; ++a) for(int b = 0; b < NL; ++b) for(int c = 0; c < NL; ++c) for(int d = 0; d < NL; ++d, ++top) {
            if(a == b || a == c || a == d || b == c || b == d || c == d || !vp::mine(top)) continue;
            run_tree(level({L[a], L[b], L[c], L[d]}, {}), "d1x4|" + std::to_string(a) + "." + std::to_string(b) + "." + std::to_string(c) + "." + std::to_string(d));
        }
    }
    // representatives used as children
    std::vector<std::shared_ptr<Node>> reps = {level({"x"}, {}), level({"y:i", "v#2"}, {}), level({"a#2/b"}, {}), level({"w#3::i", "x", "z::i"}, {}), level({"d#2/e#2"}, {}), level({"x", "v#2", "g#2/h:i"}, {})};
    // depth 2: every ordered list of 1..2 shapes with at least one sub-tree; each sub-tree x each representative child
    size_t n2 = 0;
    for(size_t a = 0; a < ALL.size(); ++a) for(int b = -1; b < (int)ALL.size(); ++b) {
        if(b == (int)a) continue;
        std::vector<std::string> names = {ALL[a]}; if(b >= 0) names.push_back(ALL[b]);
        int nsub = 0; for(auto &n : names) if(is_sub(n)) ++nsub;
        if(!nsub) continue;
        size_t combos = nsub == 1 ? reps.size() : reps.size() * reps.size();
        for(size_t c = 0; c < combos; ++c, ++top) {
            if(!vp::mine(top)) continue;
            std::vector<std::shared_ptr<Node>> ch = {clone(reps[c % reps.size()])}; if(nsub == 2) ch.push_back(clone(reps[c / reps.size()]));
            run_tree(level(names, ch), "d2|" + std::to_string(a) + "." + std::to_string(b) + "|c" + std::to_string(c));
            ++n2;
        }
    }
    if(T) {
        // three shapes with at least one sub-tree; all sub-trees of one table share the representative child (6 choices)
        for(size_t a = 0; a < ALL.size(); ++a) for(size_t b = 0; b < ALL.size(); ++b) for(size_t c = 0; c < ALL.size(); ++c) for(size_t r = 0; r < reps.size(); ++r, ++top) {
            if(a == b || a == c || b == c || !vp::mine(top)) continue;
            std::vector<std::string> names = {ALL[a], ALL[b], ALL[c]};
            int nsub = 0; for(auto &n : names) if(is_sub(n)) ++nsub;
            if(!nsub) continue;
            std::vector<std::shared_ptr<Node>> ch; for(int k = 0; k < nsub; ++k) ch.push_back(clone(reps[(r + k) % reps.size()]));
            run_tree(level(names, ch), "d2x3|" + std::to_string(a) + "." + std::to_string(b) + "." + std::to_string(c) + "|r" + std::to_string(r));
        }
    }
    // depth 3 (thorough: 4): chains of sub-trees with a sibling leaf on each level
    for(int s1 = 0; s1 < NS; ++s1) for(int s2 = 0; s2 < NS; ++s2) for(size_t r = 0; r < reps.size(); ++r) for(int sib = 0; sib < 3; ++sib, ++top) {
        if(!vp::mine(top)) continue;
        auto l3 = clone(reps[r]);
        auto l2 = level(sib == 0 ? std::vector<std::string>{S[s2]} : sib == 1 ? std::vector<std::string>{"x", S[s2]} : std::vector<std::string>{S[s2], "v#2"}, {l3});
        run_tree(level(sib == 2 ? std::vector<std::string>{"y:i", S[s1]} : std::vector<std::string>{S[s1]}, {l2}), "d3|" + std::to_string(s1) + "." + std::to_string(s2) + "|r" + std::to_string(r) + "|s" + std::to_string(sib));
    }
    if(T) for(int s1 = 0; s1 < NS; ++s1) for(int s2 = 0; s2 < NS; ++s2) for(int s3 = 0; s3 < NS; ++s3) for(size_t r = 0; r < reps.size(); ++r, ++top) {
        if(!vp::mine(top)) continue;
        auto l4 = clone(reps[r]); auto l3 = level({S[s3], "x"}, {l4}); auto l2 = level({S[s2]}, {l3});
        run_tree(level({S[s1], "z::i"}, {l2}), "d4|" + std::to_string(s1) + "." + std::to_string(s2) + "." + std::to_string(s3) + "|r" + std::to_string(r));
    }
    runtime_long(top);
    // large bundles and long names without a runtime: leaf and sub-tree bundles of every size 1..130; a chain name of every length 1..900
    {
        for(int n = 1; n <= 130; ++n) for(int sh = 0; sh < 5; ++sh, ++top) {
            if(!vp::mine(top)) continue;
            std::string N = std::to_string(n);
            std::shared_ptr<Node> t = sh == 0 ? level({"q#" + N}, {}) : sh == 1 ? level({"x", "m#" + N + "/b::i"}, {}) : sh == 2 ? level({"t#" + N + "/"}, {level({"x"}, {})}) : sh == 3 ? level({"s/"}, {level({"w#" + N + "::i", "x"}, {})}) : level({"kbd/"}, {level({"key#" + N + "/velocity"}, {})});
            run_tree(t, "big|n" + N + "|sh" + std::to_string(sh));
        }
        for(int pad = 1; pad <= 900; ++pad, ++top) {
            if(!vp::mine(top)) continue;
            std::string chain(pad, 'k'); for(int k = 0; k < pad; k += 5) chain[k] = (char)('a' + (k / 5) % 26);
            run_tree(level({chain + "/"}, {level({"x", "v#2", "t#2/"}, {level({"y:i"}, {})})}), "longname|pad" + std::to_string(pad));
        }
        // tables of 5..10 short and long literal names (mixer-like: names that differ late next to one- and two-letter names), at the root and
        // below an enumerated sub-tree: whatever lookup structure the library builds for them, every reported address must reach its port
        {
            static const char *MX[] = {"vol1", "vol2", "vol3", "vol4", "pan1", "l", "r", "on", "fm", "x"};
            for(uint32_t m = 0; m < 1024; ++m, ++top) {
                if(__builtin_popcount(m) < 5 || !vp::mine(top)) continue;
                std::vector<std::string> names; for(int i = 0; i < 10; ++i) if(m & (1u << i)) names.push_back(MX[i]);
                run_tree(level(names, {}), "mixer|m" + std::to_string(m));
                if(m % 7 == 0) run_tree(level({"ch#2/", "master"}, {level(names, {})}), "mixer|sub|m" + std::to_string(m));
            }
        }
        vp::bound("mixer_tables", "all subsets of 5..10 of {vol1 vol2 vol3 vol4 pan1 l r on fm x} as one table (every 7th also below ch#2/)");
        vp::bound("large_static_trees", "leaf bundles q#N, m#N/b::i, kbd/key#N/velocity and sub-tree bundles t#N/, s/w#N::i for every N=1..130; a sub-tree name of every length 1..900 above {x, v#2, t#2/y:i}");
    }
    vp::bound("static_trees", "depth 1: all ordered lists of 1..3 distinct leaf shapes {x y:i z::i v#2 w#3::i a#2/b d#2/e#2 g#2/h:i r#2/7x}; depth 2: all ordered lists of 1..2 shapes (leaf or sub-tree {s/ t#2/ u#3/k#2/c/ p/::i n#2/4b/}) with a sub-tree x 6 representative children; depth 3" + std::string(T ? " and 4" : "") + ": chains of sub-trees with sibling leaves");
    vp::bound("walk_variants", "empty name buffer and name buffer holding '/pre/fix/'; expand_bundles=true, no runtime");
    vp::sample("tree {a#2/b, s/ -> {y:i, v#2}}: expected /a0/b /a1/b /s/y /s/v0 /s/v1");
    return vp::finish();
}
