// C01 - OSC 1.0 wire format: every constructor produces the spec encoding, every accessor reads it back.
// Exhaustive enumeration of a small-scope input family; oracle = refosc.h (written from the spec).
#include <cstdarg>
#include <algorithm>
#include <rtosc/rtosc.h>
#include <rtosc/arg-val.h>
#include "common.h"
#include "oscgen.h"
#include "guard.h"
#include "varcall.h"


static const size_t BUFSZ = 3 * 4096 + 4096;
static char g_buf[BUFSZ + 64];

using namespace varcall;

static std::string case_id(const std::string &addr, const std::string &types, size_t vec)
{
    return "a" + std::to_string(addr.size()) + "|" + types + "|v" + std::to_string(vec);
}

static std::string shape(const std::string &types)
{
    // shape class used in signatures: where brackets stand
    if(types.empty()) return "empty";
    bool br = types.find('[') != std::string::npos || types.find(']') != std::string::npos;
    if(!br) return "no-brackets";
    if(types[0] == '[' || types[0] == ']') return "leading-bracket";
    return "inner-bracket";
}

static void check_bytes(const char *ctor, size_t ret, const std::string &expect, const std::string &cid, const std::string &types)
{
    vp::transition();
    if(ret != expect.size()) {
        vp::violation(std::string("encode-length|") + ctor + "|" + shape(types), cid,
                      "returned " + std::to_string(ret) + ", spec encoding has " + std::to_string(expect.size()) + " bytes");
        return;
    }
    if(memcmp(g_buf, expect.data(), expect.size())) {
        size_t k = 0; while(g_buf[k] == expect[k]) ++k;
        vp::violation(std::string("encode-bytes|") + ctor + "|" + shape(types), cid,
                      "first differing byte at offset " + std::to_string(k) + "; got " + vp::hex(g_buf, ret) + " expected " + vp::hex(expect.data(), expect.size()));
    }
}

static bool same_value(const ref::Arg &a, char t, const rtosc_arg_t &v, const char *msg, size_t len, std::string &why)
{
    switch(t) {
    case 'i': case 'c': case 'r': case 'f': { uint32_t u; memcpy(&u, &v.i, 4); if(u != a.u32) { why = "32-bit value differs"; return false; } return true; }
    case 'h': case 't': case 'd': { uint64_t u; memcpy(&u, &v.t, 8); if(u != a.u64) { why = "64-bit value differs"; return false; } return true; }
    case 'm': if(memcmp(v.m, a.m, 4)) { why = "midi bytes differ"; return false; } return true;
    case 's': case 'S':
        if(v.s < msg || v.s >= msg + len) { why = "string pointer outside message"; return false; }
        if(strnlen(v.s, msg + len - v.s) != a.s.size() || memcmp(v.s, a.s.data(), a.s.size())) { why = "string content differs"; return false; }
        return true;
    case 'b':
        if((uint32_t)v.b.len != a.b_len) { why = "blob length differs"; return false; }
        if((const char *)v.b.data < msg || (const char *)v.b.data + a.b_len > msg + len) { why = "blob pointer outside message"; return false; }
        for(uint32_t k = 0; k < a.b_len; ++k) if(v.b.data[k] != (a.b_null ? 0 : a.b[k])) { why = "blob content differs"; return false; }
        return true;
    case 'T': if(v.T != 1) { why = "T does not read as true"; return false; } return true;
    case 'F': if(v.T != 0) { why = "F does not read as false"; return false; } return true;
    }
    return true;
}

static const char *g_decode_base = nullptr;   // non-null: decode the message at this (unaligned) address instead of g_buf
static bool g_large = false;                  // g_decode_base points at a large heap buffer (label only)
static void check_decode(const std::string &types, const std::vector<ref::Arg> &args, size_t len, const std::string &cid)
{
    const char *msg = g_decode_base ? g_decode_base : g_buf;
    const std::string sh = shape(types) + (g_large ? ",large-payload" : g_decode_base ? ",unaligned-address" : "");
    // the value-carrying and valueless tags, in order (brackets are not arguments)
    std::string tags; for(char t : types) if(t != '[' && t != ']') tags += t;
    std::vector<const ref::Arg *> per_tag; { size_t k = 0; for(char t : tags) per_tag.push_back(ref::has_data(t) ? &args[k++] : nullptr); }

    // before anything else is asked about this message: its arguments by index in DESCENDING order (the buffer held another message a moment
    // ago, read in ascending order - nothing of that may linger), then one in the middle again
    for(size_t k = tags.size(); k-- > 0;) {
        vp::transition();
        rtosc_arg_t v = rtosc_argument(msg, (unsigned)k);
        std::string why;
        if(rtosc_type(msg, (unsigned)k) == tags[k] && !same_value(per_tag[k] ? *per_tag[k] : ref::Arg(), tags[k], v, msg, len, why)) { vp::violation("argument-by-index|descending-order|" + sh, cid, "index " + std::to_string(k) + " read first/in descending order: " + why); break; }
    }
    vp::transition(4);
    if(types != rtosc_argument_string(msg))
        vp::violation("argument-string|" + sh, cid, std::string("got '") + rtosc_argument_string(msg) + "'");
    for(size_t extra : {size_t(0), size_t(8), (size_t)1 << 40, (size_t)-1 - len}) {      // the bound is an upper bound: also 2^40 and SIZE_MAX ("unknown")
        size_t ml = rtosc_message_length(msg, len + extra);
        if(ml != len)
            vp::violation("message-length|" + sh + (extra ? "|slack" : "|exact"), cid,
                          "rtosc_message_length(len" + std::string(extra ? "+8" : "") + ")=" + std::to_string(ml) + " for a message of " + std::to_string(len) + " bytes");
    }
    // iterator
    std::string seen; size_t it_n = 0; bool it_ok = true;
    rtosc_arg_itr_t itr = rtosc_itr_begin(msg);
    while(!rtosc_itr_end(itr) && it_n <= tags.size() + 2) {
        rtosc_arg_val_t av = rtosc_itr_next(&itr);
        vp::transition();
        std::string why;
        if(it_n < tags.size()) {
            if(av.type != tags[it_n]) { it_ok = false; vp::violation("iterator-type|" + sh, cid, "value " + std::to_string(it_n) + ": tag '" + std::string(1, av.type) + "'"); }
            else if(!same_value(per_tag[it_n] ? *per_tag[it_n] : ref::Arg(), av.type, av.val, msg, len, why))
                vp::violation("iterator-value|" + std::string(1, av.type) + "|" + sh, cid, "value " + std::to_string(it_n) + ": " + why);
        }
        ++it_n;
    }
    if(it_n != tags.size())
        vp::violation("iterator-count|" + sh, cid, "iterator yields " + std::to_string(it_n) + " values, message has " + std::to_string(tags.size()));
    unsigned na = rtosc_narguments(msg);
    vp::transition();
    if(na != it_n || na != tags.size())
        vp::violation("narguments|" + sh, cid, "rtosc_narguments=" + std::to_string(na) + ", iterator yields " + std::to_string(it_n) + ", arguments=" + std::to_string(tags.size()) + " types='" + types + "'");
    for(size_t i = 0; i < tags.size(); ++i) {
        vp::transition(2);
        char t = rtosc_type(msg, i);
        if(t != tags[i]) { vp::violation("type-by-index|" + sh, cid, "index " + std::to_string(i) + ": '" + std::string(1, t) + "' expected '" + std::string(1, tags[i]) + "'"); continue; }
        rtosc_arg_t v = rtosc_argument(msg, i);
        std::string why;
        if(!same_value(per_tag[i] ? *per_tag[i] : ref::Arg(), t, v, msg, len, why))
            vp::violation("argument-by-index|" + std::string(1, t) + "|" + sh, cid, "index " + std::to_string(i) + ": " + why);
    }
    (void)it_ok;
}

static void one_message(const std::string &addr, const std::string &types, const std::vector<ref::Arg> &args, size_t vec, bool all_ctors)
{
    std::string cid = case_id(addr, types, vec);
    if(!vp::want(cid)) return;
    std::string expect = ref::encode(addr, types, args);
    if(expect.size() > BUFSZ) return;
    vp::state();
    vp::eval();
    size_t ndata = args.size();
    if(ndata) vp::nontrivial(vp::fnv(expect));
    vp::outcome("len%4=" + std::to_string(addr.size() % 4) + ",ndata=" + std::to_string(ndata) + "," + shape(types));

    // rtosc_amessage
    std::vector<rtosc_arg_t> ra; for(auto &a : args) ra.push_back(gen::to_rtosc(a));
    memset(g_buf, 0xA5, sizeof g_buf);
    size_t r = rtosc_amessage(g_buf, BUFSZ, addr.c_str(), types.c_str(), ra.data());
    check_bytes("amessage", r, expect, cid, types);
    if(r == expect.size() && !memcmp(g_buf, expect.data(), r))
        check_decode(types, args, r, cid);
    else {
        // decode from the reference bytes so that the readers are still checked
        memset(g_buf, 0xA5, sizeof g_buf); memcpy(g_buf, expect.data(), expect.size());
        check_decode(types, args, expect.size(), cid);
    }
    // the same message at addresses that are not multiples of 4 (built there and read there): nothing may depend on where
    // the caller keeps the message
    {
        static char ubuf[BUFSZ + 64];
        std::string good(g_buf, expect.size());
        for(size_t k = 1; k <= 3; ++k) {
            char *u = ubuf + k;
            memset(ubuf, 0xA5, sizeof ubuf);
            size_t r2 = rtosc_amessage(u, BUFSZ, addr.c_str(), types.c_str(), ra.data());
            vp::transition();
            if(r2 != expect.size() || memcmp(u, expect.data(), r2)) { vp::violation("encode-bytes|amessage,unaligned-destination|" + shape(types), cid, "destination at offset " + std::to_string(k) + " from a 4-byte boundary"); break; }
            memcpy(g_buf, u, r2);              // check_decode reads g_buf: move the window instead of the data
            // decode in place at the unaligned address
            g_decode_base = u;
            check_decode(types, args, r2, cid + "|unaligned" + std::to_string(k));
            g_decode_base = nullptr;
        }
        memcpy(g_buf, good.data(), good.size());
    }
    vp::trace();
    if(!all_ctors) return;

    // varargs / va_list
    static CArg c[1024]; bool snan_f;
    int n = flatten(types, args, c, snan_f);
    if(!snan_f) {
        if(n <= 4) {
            memset(g_buf, 0xA5, sizeof g_buf);
            r = call_varargs(g_buf, BUFSZ, addr.c_str(), types.c_str(), c, n);
            check_bytes("message", r, expect, cid, types);
        }
        memset(g_buf, 0xA5, sizeof g_buf);
        r = call_valist(g_buf, BUFSZ, addr.c_str(), types.c_str(), c, n);
        check_bytes("vmessage", r, expect, cid, types);
    }
    // avmessage: no brackets in an argument-value list
    if(types.find('[') == std::string::npos && types.find(']') == std::string::npos) {
        std::vector<rtosc_arg_val_t> av; size_t k = 0;
        for(char t : types) { rtosc_arg_val_t x; memset(&x, 0, sizeof x); x.type = t; if(ref::has_data(t)) x.val = ra[k++]; else if(t == 'T') x.val.T = 1; av.push_back(x); }
        memset(g_buf, 0xA5, sizeof g_buf);
        // shape for avmessage: does a valueless tag (T F N I) stand before a value-carrying one?
        bool valueless_before_data = false; { bool seen = false; for(char t : types) { if(!ref::has_data(t)) seen = true; else if(seen) valueless_before_data = true; } }
        const char *ctor = valueless_before_data ? "avmessage:valueless-tag-before-data" : "avmessage";
        int sig = guard::guarded([&] { r = rtosc_avmessage(g_buf, BUFSZ, addr.c_str(), av.size(), av.data()); });
        if(sig) { vp::transition(); vp::violation(std::string("crash|") + ctor, cid, "signal " + std::to_string(sig) + " inside rtosc_avmessage, types='" + types + "'"); }
        else check_bytes(ctor, r, expect, cid, types);
    }
    // NULL buffer reports the size
    vp::transition();
    size_t need = rtosc_amessage(nullptr, 0, addr.c_str(), types.c_str(), ra.data());
    if(need != expect.size())
        vp::violation("null-buffer-size|amessage|" + shape(types), cid, "reports " + std::to_string(need) + " expected " + std::to_string(expect.size()));
}

// blobs and strings whose length lies around the multiples of 64 KiB (every length from 5 below to 5 above), with arguments in front and behind
static void large_payloads()
{
    static const size_t CENTRES[] = {65536, 131072, 196608, 262144, 393216, 1048576};
    static const char *SHAPES[] = {"bi", "ibh", "sbs", "si", "bb"};
    vp::bound("large_payloads", "blob / string lengths 64K, 128K, 192K, 256K, 384K, 1M, each -5..+5, in shapes bi ibh sbs si bb: built by rtosc_amessage, compared with the reference bytes, read back by index and by iterator");
    uint64_t top = 1u << 30;
    for(size_t c : CENTRES) for(int d = -5; d <= 5; ++d) for(const char *sh : SHAPES) {
        ++top; if(!vp::mine(top)) continue;
        const size_t L = c + d; const std::string ts = sh;
        std::string cid = "large|" + std::to_string(L) + "|" + ts;
        if(!vp::want(cid)) continue;
        vp::current_case() = cid; vp::state(); vp::eval(); vp::trace();
        std::vector<ref::Arg> args;
        bool big_used = false;
        for(char t : ts) {
            ref::Arg a; a.type = t;
            if(t == 'b') { size_t n = big_used ? 7 : L; big_used = true; a.b.resize(n); for(size_t k = 0; k < n; ++k) a.b[k] = (uint8_t)(k * 31 + 7); a.b_len = (uint32_t)n; }
            else if(t == 's') { size_t n = (ts[0] == 's' && !big_used && ts != "sbs") ? L : 3; if(n == L) big_used = true; a.s.assign(n, 'q'); for(size_t k = 0; k < n; k += 5) a.s[k] = (char)('a' + (k / 5) % 26); }
            else if(t == 'h') a.u64 = 0x1122334455667788ull; else a.u32 = 0x01020304u;
            args.push_back(a);
        }
        const std::string addr = "/big", expect = ref::encode(addr, ts, args);
        vp::nontrivial(vp::fnv(cid));
        std::vector<char> buf(expect.size() + 64, (char)0xA5);
        std::vector<rtosc_arg_t> ra; for(auto &a : args) ra.push_back(gen::to_rtosc(a));
        size_t r = rtosc_amessage(buf.data(), expect.size() + 32, addr.c_str(), ts.c_str(), ra.data());
        vp::transition();
        if(r != expect.size()) { vp::violation("length|amessage|" + shape(ts) + ",large-payload", cid, "returned " + std::to_string(r) + " expected " + std::to_string(expect.size())); continue; }
        if(memcmp(buf.data(), expect.data(), r)) { size_t k = 0; while(buf[k] == expect[k]) ++k; vp::violation("bytes|amessage|" + shape(ts) + ",large-payload", cid, "first differing byte at offset " + std::to_string(k)); continue; }
        memset(buf.data() + r, 0, buf.size() - r);
        g_decode_base = buf.data(); g_large = true;
        check_decode(ts, args, expect.size(), cid);
        g_decode_base = nullptr; g_large = false;
        vp::outcome("large-payload:" + ts);
    }
}

int main(int argc, char **argv)
{
    vp::init(argc, argv, "C01");
    const bool T = vp::thorough();
    std::vector<std::string> types;
    gen::type_strings(std::string(gen::VALUE_TAGS) + "[]", 0, 3, types);
    size_t n_full = types.size();
    gen::type_strings("ihsbTm[]", 4, T ? 6 : 5, types);
    {
        // long type strings (8, 16, 40 tags; thorough also 100 and 300): every rotation of the 15 value tags, plain and
        // wrapped in array brackets
        const std::string cyc = gen::VALUE_TAGS;
        std::vector<size_t> lens = {8, 16, 40}; if(T) { lens.push_back(100); lens.push_back(300); }
        for(size_t L : lens) for(size_t off = 0; off < cyc.size(); off += (T ? 1 : 4)) {
            std::string t; for(size_t k = 0; k < L; ++k) t += cyc[(off + k) % cyc.size()];
            types.push_back(t);
            std::string w = t; w[0] = '['; w[L / 2] = ']'; w[L / 2 + 1] = '['; w[L - 1] = ']'; types.push_back(w);
        }
    }
    {
        // several array groups in one message: every well-nested string of length 6..8 over {i [ ]} (adjacent delimiters "][", "]][", "[[" ...)
        std::vector<std::string> br; gen::type_strings("i[]", 6, 8, br);
        for(auto &t : br) if(t.find('i') != std::string::npos && std::find(types.begin(), types.end(), t) == types.end()) types.push_back(t);
    }
    if(T) {
        // all well-nested strings of length 4 and 5 over all 17 symbols
        gen::type_strings(std::string(gen::VALUE_TAGS) + "[]", 4, 5, types);
    }
    const size_t max_addr = T ? 64 : 9;
    vp::bound("type_strings_len0-3_all17symbols", (long long)n_full);
    vp::bound("type_strings_len4+", std::to_string(types.size() - n_full) + (T ? " (length 4..6 over {i h s b T m [ ]}, all of length 4..5 over the 17 symbols, all rotations of the 15 value tags at lengths 8/16/40/100/300 plain and bracketed)" : " (length 4..5 over {i h s b T m [ ]}, rotations of the 15 value tags at lengths 8/16/40 plain and bracketed)"));
    vp::bound("address_lengths", "1.." + std::to_string(max_addr));
    vp::bound("value_vectors", "full cross product for <=2 data tags, each-used + all-last beyond");

    for(size_t ti = 0; ti < types.size(); ++ti) {
        if(!vp::mine(ti)) continue;
        if(vp::deadline_passed()) { vp::cap("deadline: stopped at type string index " + std::to_string(ti) + " of " + std::to_string(types.size())); break; }
        const std::string &ts = types[ti];
        size_t ndata = 0; for(char t : ts) if(ref::has_data(t)) ++ndata;
        auto vecs = gen::value_vectors(ts, true);   // single-argument messages also get the 255/256/4095/4096-byte strings and blobs
        for(size_t v = 0; v < vecs.size(); ++v) {
            if(v == 0) {
                for(size_t al = 1; al <= max_addr; ++al) one_message(gen::address(al), ts, vecs[v], v, true);
                // printable addresses that begin like the bundle marker
                if(ti % 7 == 0) for(const char *a : {"#bundles", "#bundle/status", "#bundl", "#bundleX0", "#"}) one_message(a, ts, vecs[v], v, false);
            } else {
                // every value vector behind one address length per residue mod 4 (rotating start)
                for(size_t k = 0; k < (ndata <= 1 ? 4u : 1u); ++k)
                    one_message(gen::address(2 + (v + k) % 4), ts, vecs[v], v, true);
            }
        }
        if(ti % 97 == 0) vp::sample("address=" + gen::address(5) + " types='" + ts + "' value-vectors=" + std::to_string(vecs.size()));
    }
    large_payloads();
    return vp::finish();
}
