// C08 - bundles compose and decompose losslessly, including nesting.
// Exhaustive enumeration of element sequences; oracle = reference bundle encoder (refosc.h).
#include <rtosc/rtosc.h>
#include "common.h"
#include "bundlegen.h"
#include "varcall.h"
#include "guard.h"
#include "oscgen.h"

static const size_t BUFSZ = 8192;
static char g_buf[BUFSZ + 64];

// what follows an element inside its own allocation
static const unsigned char TAIL0[16] = {0};
static const unsigned char TAIL1[16] = {0, 0, 0, 8, 'g', 'a', 'r', 'b', 'a', 'g', 'e', '!', 0, 0, 0, 0};

struct Stored { std::vector<std::string> mem[2]; };

static void one(const std::vector<bgen::Elem> &alph, const Stored &st, const std::vector<int> &seq, int tti, int layout)
{
    std::string cid = "L" + std::to_string(layout) + "|t" + std::to_string(tti) + "|s";
    for(int i : seq) cid += std::to_string(i) + ".";
    if(!vp::want(cid)) return;
    vp::current_case() = cid;
    uint64_t tt = bgen::TIMETAGS[tti];
    std::vector<std::string> eb; std::vector<const char *> ptrs; int maxdepth = 0; bool has_nested = false;
    for(int i : seq) { eb.push_back(alph[i].bytes); ptrs.push_back(st.mem[layout][i].data()); if(alph[i].depth > 0) has_nested = true; if(alph[i].depth > maxdepth) maxdepth = alph[i].depth; }
    std::string expect = ref::bundle(tt, eb);
    if(expect.size() > BUFSZ) return;
    vp::state(); vp::eval();
    if(!seq.empty()) vp::nontrivial(vp::fnv(expect) ^ (uint64_t)layout);
    vp::outcome("n=" + std::to_string(seq.size()) + ",depth=" + std::to_string(maxdepth) + ",layout=" + std::to_string(layout));
    // shape class for signatures
    std::string shape = std::string(has_nested ? "nested-element" : "messages-only") + (layout ? ",tail=nonzero" : ",tail=zero");

    memset(g_buf, 0xA5, sizeof g_buf);
    size_t r = 0;
    int sig = guard::guarded([&] { r = varcall::call_bundle(g_buf, BUFSZ, tt, ptrs); });
    vp::transition();
    if(sig) { vp::violation("crash|rtosc_bundle|" + shape, cid, "signal " + std::to_string(sig)); return; }
    bool built_ok = true;
    if(r != expect.size()) { built_ok = false; vp::violation("bundle-length|rtosc_bundle|" + shape, cid, "returned " + std::to_string(r) + ", expected " + std::to_string(expect.size())); }
    else if(memcmp(g_buf, expect.data(), r)) {
        built_ok = false; size_t k = 0; while(g_buf[k] == expect[k]) ++k;
        vp::violation("bundle-bytes|rtosc_bundle|" + shape, cid, "first differing byte at offset " + std::to_string(k));
    }
    // the same into a destination of exactly the bundle's size (composition must not depend on spare room)
    if(built_ok) {
        static char exact[BUFSZ + 64];
        memset(exact, 0xA5, sizeof exact);
        size_t r2 = 0;
        int sig2 = guard::guarded([&] { r2 = varcall::call_bundle(exact, expect.size(), tt, ptrs); });
        vp::transition();
        if(sig2) vp::violation("crash|rtosc_bundle|exact-size-destination," + shape, cid, "signal " + std::to_string(sig2));
        else if(r2 != expect.size() || memcmp(exact, expect.data(), r2)) vp::violation("bundle-length|rtosc_bundle|exact-size-destination," + shape, cid, "destination of exactly " + std::to_string(expect.size()) + " bytes: returned " + std::to_string(r2));
        else if((unsigned char)exact[expect.size()] != 0xA5) vp::violation("write-outside|rtosc_bundle|exact-size-destination," + shape, cid, "byte behind the destination changed");
    }
    // too small a destination: every capacity below the bundle's size must be refused (0 returned) - a shortened bundle is not a bundle of
    // these elements (short sequences only; C02 does the same under guard pages for its own family)
    if(built_ok && seq.size() <= 2) {
        static char small[BUFSZ + 64];
        for(size_t cap = 0; cap < expect.size(); ++cap) {
            size_t r3 = 1;
            int sig3 = guard::guarded([&] { r3 = varcall::call_bundle(small, cap, tt, ptrs); });
            vp::transition();
            if(sig3) { vp::violation("crash|rtosc_bundle|too-small-destination," + shape, cid, "signal " + std::to_string(sig3) + " at capacity " + std::to_string(cap)); break; }
            if(r3 != 0) { vp::violation("bundle-length|rtosc_bundle|too-small-destination," + shape, cid, "destination of " + std::to_string(cap) + " bytes for a bundle of " + std::to_string(expect.size()) + ": returned " + std::to_string(r3)); break; }
        }
    }
    // decompose: from the library's output if it is right, else from the reference bytes (readers are checked regardless)
    if(!built_ok) { memset(g_buf, 0, sizeof g_buf); memcpy(g_buf, expect.data(), expect.size()); shape = std::string(has_nested ? "nested-element" : "messages-only") + ",reference-bytes"; }
    const size_t len = expect.size();
    vp::transition(4);
    if(!rtosc_bundle_p(g_buf)) vp::violation("bundle_p-false|rtosc_bundle_p|" + shape, cid, "a bundle is not recognised");
    if(rtosc_bundle_timetag(g_buf) != tt) vp::violation("timetag|rtosc_bundle_timetag|" + shape, cid, "time tag not preserved");
    size_t ne = rtosc_bundle_elements(g_buf, len);
    if(ne != seq.size()) vp::violation("element-count|rtosc_bundle_elements|" + shape, cid, "reports " + std::to_string(ne) + " elements, bundle has " + std::to_string(seq.size()));
    // "len: upper bound on the length of the bundle": any larger bound gives the same count (the destination was zero-filled
    // behind the bundle, so the walk ends at the zero size word)
    memset(g_buf + BUFSZ, 0, sizeof g_buf - BUFSZ);      // a bundle that fills the destination to its last word is followed by the zero word as well
    for(size_t ub : {len + 1, len + 4, BUFSZ, (size_t)0x7fffffff, (size_t)1 << 40, (size_t)-1}) {
        vp::transition();
        size_t ne2 = rtosc_bundle_elements(g_buf, ub);
        if(ne2 != seq.size()) { vp::violation("element-count|rtosc_bundle_elements|upper-bound," + shape, cid, "reports " + std::to_string(ne2) + " elements with upper bound " + std::to_string(ub) + ", bundle has " + std::to_string(seq.size())); break; }
    }
    for(size_t extra : {size_t(0), size_t(16)}) {
        // trailing bytes beyond len are zero here (rtosc_bundle zero-fills the destination)
        size_t ml = rtosc_message_length(g_buf, len + extra);
        if(ml != len) vp::violation(std::string("message-length|bundle|") + (extra ? "slack|" : "exact|") + shape, cid, "rtosc_message_length=" + std::to_string(ml) + " for a bundle of " + std::to_string(len) + " bytes");
    }
    // the same bundle lying in a two-segment ring (as a wrapped ring buffer hands it out): split at every offset into two separately
    // allocated segments, the second followed by two zero words; the ring length function must report the bundle's length
    if(len <= 600) {
        static std::vector<char> s0, s1;
        for(size_t k = 0; k <= len; ++k) {
            s0.assign(g_buf, g_buf + k); s1.assign(g_buf + k, g_buf + len); s1.insert(s1.end(), 8, '\0');
            ring_t ring[2] = {{s0.data(), s0.size()}, {s1.data(), s1.size()}};
            size_t rl = rtosc_message_ring_length(ring);
            vp::transition();
            if(rl != len) { vp::violation("ring-length|rtosc_message_ring_length|" + std::string(k % 4 ? "split-inside-a-word," : "split-at-word-boundary,") + shape, cid, "bundle of " + std::to_string(len) + " bytes split at offset " + std::to_string(k) + ": reports " + std::to_string(rl)); break; }
        }
    }
    size_t off = 16;
    for(size_t i = 0; i < seq.size(); ++i) {
        vp::transition(2);
        const char *p = rtosc_bundle_fetch(g_buf, (unsigned)i);
        size_t sz = rtosc_bundle_size(g_buf, (unsigned)i);
        if(p != g_buf + off + 4) vp::violation("fetch-offset|rtosc_bundle_fetch|" + shape, cid, "element " + std::to_string(i) + " at offset " + std::to_string(p ? p - g_buf : -1) + ", expected " + std::to_string(off + 4));
        else if(sz != eb[i].size()) vp::violation("element-size|rtosc_bundle_size|" + shape, cid, "element " + std::to_string(i) + " size " + std::to_string(sz) + ", expected " + std::to_string(eb[i].size()));
        else if(memcmp(p, eb[i].data(), sz)) vp::violation("element-bytes|rtosc_bundle_fetch|" + shape, cid, "element " + std::to_string(i) + " not byte-identical");
        else if(alph[seq[i]].depth > 0 && !rtosc_bundle_p(p)) vp::violation("bundle_p-false|nested|" + shape, cid, "nested element " + std::to_string(i) + " not recognised as bundle");
        else if(alph[seq[i]].depth == 0 && rtosc_bundle_p(p)) vp::violation("bundle_p-true|message-element|" + shape, cid, "message element " + std::to_string(i) + " taken for a bundle");
        off += 4 + eb[i].size();
    }
    vp::trace();
}

int main(int argc, char **argv)
{
    vp::init(argc, argv, "C08");
    const bool T = vp::thorough();
    const int maxdepth = T ? 4 : 2;
    auto alph = bgen::alphabet(maxdepth);
    Stored st;
    for(int l = 0; l < 2; ++l) for(auto &e : alph) { std::string m = e.bytes; m.append((const char *)(l ? TAIL1 : TAIL0), 16); st.mem[l].push_back(m); }
    std::vector<std::vector<int>> seqs;
    bgen::sequences(alph.size(), 0, T ? 5 : 3, seqs);
    size_t n_main = seqs.size();
    // long sequences over a 2-letter sub-alphabet (smallest message, smallest non-empty nested bundle), up to the API's 8 elements
    {
        std::vector<std::vector<int>> longs; bgen::sequences(2, T ? 6 : 4, 8, longs);
        int sub[2] = {0, (int)bgen::messages().size() + 1};
        for(auto &s : longs) { std::vector<int> t; for(int k : s) t.push_back(sub[k]); seqs.push_back(t); }
    }
    vp::bound("element_alphabet", (long long)alph.size());
    vp::bound("nesting_depth", "0.." + std::to_string(maxdepth));
    vp::bound("sequences", "all of length 0.." + std::to_string(T ? 5 : 3) + " over the alphabet (" + std::to_string(n_main) + ") + all of length " + std::to_string(T ? 5 : 4) + "..8 over {m8, one-element nested bundle}");
    vp::bound("timetags", "12 (0,1,2^32-1,2^32,2^63,2^64-1,0x0102030405060708 and five holding the bytes ',' '/' '#' / the text '#bundle'): all for sequences of length <= 2, rotating beyond");
    vp::bound("ring_splits", "every bundle of up to 600 bytes also as a two-segment ring split at every offset 0..len (segments in separate allocations)");
    vp::bound("layouts", "element followed by zero bytes / by bytes that look like one more size-prefixed element");
    for(auto &e : alph) vp::sample(e.name + " (" + std::to_string(e.bytes.size()) + " bytes)", 12);

    for(size_t si = 0; si < seqs.size(); ++si) {
        if(!vp::mine(si)) continue;
        if(vp::deadline_passed()) { vp::cap("deadline at sequence " + std::to_string(si) + " of " + std::to_string(seqs.size())); break; }
        const auto &s = seqs[si];
        for(int layout = 0; layout < 2; ++layout) {
            if(s.size() <= 2) for(int t = 0; t < bgen::N_TIMETAGS; ++t) one(alph, st, s, t, layout);
            else one(alph, st, s, (int)(si % bgen::N_TIMETAGS), layout);
        }
    }
    // ---- large elements: a message with a blob of 65508..1 MiB bytes as only / first / last element, and the resulting bundle
    // nested once more (composition measures a nested element through the length function with an unknown bound)
    {
        static const size_t BLOBS[] = {65508, 65512, 65516, 65536, 70000, 131072, 1048576};
        const size_t NB = sizeof BLOBS / sizeof *BLOBS;
        vp::bound("large_elements", "blob of 65508,65512,65516 (element of 65532,65536,65540 bytes),65536,70000,131072,1048576 bytes x position {only,first,last} x {flat, nested once more}");
        for(size_t bi = 0; bi < NB; ++bi) for(int pos = 0; pos < 3; ++pos) for(int nest = 0; nest < 2; ++nest) {
            if(!vp::mine(bi * 6 + pos * 2 + nest)) continue;
            std::string cid = "big|" + std::to_string(BLOBS[bi]) + "|p" + std::to_string(pos) + "|n" + std::to_string(nest);
            if(!vp::want(cid)) continue;
            vp::current_case() = cid; vp::state(); vp::eval(); vp::nontrivial(vp::fnv(cid));
            vp::outcome(std::string("large,") + (nest ? "nested" : "flat"));
            ref::Arg b; b.type = 'b'; b.b.resize(BLOBS[bi]); for(size_t k = 0; k < BLOBS[bi]; ++k) b.b[k] = (unsigned char)(k * 7 + 1); b.b_len = (uint32_t)BLOBS[bi];
            std::string big = ref::encode("/blob", "b", {b}), small = ref::encode("/a", "", {});
            std::vector<std::string> eb = pos == 0 ? std::vector<std::string>{big} : pos == 1 ? std::vector<std::string>{big, small} : std::vector<std::string>{small, big};
            std::string inner = ref::bundle(7, eb);
            std::string shape = std::string("large-element,") + (nest ? "nested" : "flat");
            std::vector<std::string> top = eb; uint64_t tt = 7;
            if(nest) { top = {inner, small}; tt = 9; }
            std::string expect = ref::bundle(tt, top);
            std::vector<std::string> mem; for(auto &e : top) { mem.push_back(e); mem.back().append(16, '\0'); }
            std::vector<const char *> ptrs; for(auto &m : mem) ptrs.push_back(m.data());
            std::vector<char> dst(expect.size() + 64, (char)0xA5);
            size_t r = 0;
            int sig = guard::guarded([&] { r = varcall::call_bundle(dst.data(), expect.size() + 32, tt, ptrs); });
            vp::transition();
            if(sig) { vp::violation("crash|rtosc_bundle|" + shape, cid, "signal " + std::to_string(sig)); continue; }
            if(r != expect.size()) vp::violation("bundle-length|rtosc_bundle|" + shape, cid, "returned " + std::to_string(r) + ", expected " + std::to_string(expect.size()));
            else if(memcmp(dst.data(), expect.data(), r)) vp::violation("bundle-bytes|rtosc_bundle|" + shape, cid, "bytes differ from the reference encoding");
            // decomposition from the reference bytes
            std::vector<char> rb(expect.begin(), expect.end()); rb.resize(expect.size() + 64, 0);
            vp::transition(5);
            size_t ne = rtosc_bundle_elements(rb.data(), expect.size());
            if(ne != top.size()) vp::violation("element-count|rtosc_bundle_elements|" + shape, cid, "reports " + std::to_string(ne) + " elements, bundle has " + std::to_string(top.size()));
            if(rtosc_bundle_elements(rb.data(), (size_t)-1) != top.size()) vp::violation("element-count|rtosc_bundle_elements|upper-bound," + shape, cid, "wrong count with upper bound SIZE_MAX");
            for(size_t extra : {size_t(0), size_t(16)}) {
                size_t ml = rtosc_message_length(rb.data(), expect.size() + extra);
                if(ml != expect.size()) vp::violation(std::string("message-length|bundle|") + (extra ? "slack|" : "exact|") + shape, cid, "rtosc_message_length=" + std::to_string(ml) + " for a bundle of " + std::to_string(expect.size()) + " bytes");
            }
            size_t off = 16;
            for(size_t i = 0; i < top.size(); ++i) {
                vp::transition(2);
                const char *q = rtosc_bundle_fetch(rb.data(), (unsigned)i); size_t sz = rtosc_bundle_size(rb.data(), (unsigned)i);
                if(q != rb.data() + off + 4) vp::violation("fetch-offset|rtosc_bundle_fetch|" + shape, cid, "element " + std::to_string(i) + " at the wrong offset");
                else if(sz != top[i].size()) vp::violation("element-size|rtosc_bundle_size|" + shape, cid, "element " + std::to_string(i) + " size " + std::to_string(sz) + ", expected " + std::to_string(top[i].size()));
                else if(memcmp(q, top[i].data(), sz)) vp::violation("element-bytes|rtosc_bundle_fetch|" + shape, cid, "element " + std::to_string(i) + " not byte-identical");
                off += 4 + top[i].size();
            }
            vp::trace();
        }
    }
    // a plain message is never mistaken for a bundle: every message of a C01-style family
    if(vp::mine(0) && !vp::replaying()) {
        std::vector<std::string> types; gen::type_strings(std::string(gen::VALUE_TAGS) + "[]", 0, 2, types);
        uint64_t n = 0;
        for(auto &ts : types) for(auto &vec : gen::value_vectors(ts, false)) for(size_t al = 1; al <= 9; ++al) {
            std::string m = ref::encode(gen::address(al), ts, vec);
            vp::transition(); ++n;
            if(rtosc_bundle_p(m.c_str())) vp::violation("bundle_p-true|plain-message", "msg|" + ts, "a plain message is taken for a bundle");
        }
        // addresses that share a prefix with "#bundle"
        for(const char *a : {"#bundl", "#bundle1", "#bundlE", "/#bundle", "#", ""}) {
            std::string m = ref::encode(a, "", {}); vp::transition();
            if(rtosc_bundle_p(m.c_str())) vp::violation("bundle_p-true|near-miss-address", std::string("addr|") + a, "not a bundle");
        }
        vp::bound("plain_messages_checked_not_bundle", (long long)n);
    }
    return vp::finish();
}
