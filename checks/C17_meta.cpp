// C17 - port metadata is read back exactly as written.
// Exhaustive enumeration of metadata blocks ":key\0[=value\0]...\0" (byte layout exactly as rMap/rProp concatenate),
// each placed in an exact-size heap allocation (AddressSanitizer sees any read outside the block), read through
// Port::meta(): range-for, operator[], find, length. Oracle = the list of entries the block was written from.
// Plus the blocks that the real port-sugar macros produce, with hand-written expectations.
#include <rtosc/ports.h>
#include <rtosc/port-sugar.h>
#include <set>
#include "common.h"

struct Entry { std::string key; bool has_value; std::string value; };

static std::string block_bytes(const std::vector<Entry> &es)
{
    std::string b;
    for(auto &e : es) {
        b += ':'; b += e.key; b += '\0';                       // rProp(key)  = ":" key "\0"
        if(e.has_value) { b += '='; b += e.value; b += '\0'; } // rMap(key,v) = ":" key "\0=" v "\0"
    }
    b += '\0';                                                 // the string literal's own terminator ends the block
    return b;
}
static std::string show_entries(const std::vector<Entry> &es)
{
    std::string o;
    for(auto &e : es) { o += "[" + e.key; if(e.has_value) o += "=>'" + e.value + "'"; o += "]"; }
    return o;
}

// shape class for signatures: the features of the block that the boundary scan depends on
static std::string shape(const std::vector<Entry> &es)
{
    bool rep = false, novalue = false, empty = false, colon = false, eq = false;
    for(size_t k = 0; k < es.size(); ++k) {
        const Entry &e = es[k];
        for(size_t j = 0; j < k; ++j) if(es[j].key == e.key) rep = true;
        if(!e.has_value) novalue = true;
        else if(e.value.empty()) empty = true;
        if(e.has_value && e.value.find(':') != std::string::npos) colon = true;
        if(e.has_value && e.value.find('=') != std::string::npos) eq = true;
    }
    std::string o;
    if(rep) o += "+repeated-key"; if(novalue) o += "+valueless"; if(empty) o += "+empty-value"; if(colon) o += "+colon-in-value"; if(eq) o += "+eq-in-value";
    const Entry &l = es.back();
    o += !l.has_value ? "/last-valueless" : l.value.empty() ? "/last-empty" : "/last-valued";
    return o[0] == '+' ? o.substr(1) : "plain" + o;
}

static const char *nz(const char *p) { return p ? p : "(null)"; }

// checks one block that lives at `meta` (n bytes long); `es` is what it was written from
// direct: the container is built from the metadata pointer itself, MetaContainer(port.metadata), as the library's own MIDI table and port
// checker do, instead of through Port::meta()
static void check_block_route(const char *meta, size_t n, const std::vector<Entry> &es, const std::string &cid, const std::string &sh, bool direct)
{
    rtosc::Port port{"x", meta, nullptr, nullptr};
    const rtosc::Port::MetaContainer mc = direct ? rtosc::Port::MetaContainer(port.metadata) : port.meta();

    // 1. iteration
    {
        size_t k = 0; std::string why;
        for(const auto it : mc) {
            vp::transition();
            if(k >= es.size()) { why = "yields more than " + std::to_string(es.size()) + " entries (extra title '" + std::string(nz(it.title)) + "')"; break; }
            const Entry &e = es[k];
            if(!it.title || it.title < meta || it.title >= meta + n) { why = "entry " + std::to_string(k) + ": title pointer outside the block"; break; }
            if(e.key != it.title) { why = "entry " + std::to_string(k) + ": title '" + it.title + "' expected '" + e.key + "'"; break; }
            if(e.has_value != (it.value != nullptr)) { why = "entry " + std::to_string(k) + " ('" + e.key + "'): value " + (it.value ? "'" + std::string(it.value) + "'" : "null") + " expected " + (e.has_value ? "'" + e.value + "'" : "null"); break; }
            if(e.has_value) {
                if(it.value < meta || it.value >= meta + n) { why = "entry " + std::to_string(k) + ": value pointer outside the block"; break; }
                if(e.value != it.value) { why = "entry " + std::to_string(k) + " ('" + e.key + "'): value '" + it.value + "' expected '" + e.value + "'"; break; }
            }
            ++k;
            if(k > es.size() + 2) break;
        }
        if(why.empty() && k != es.size()) why = "yields " + std::to_string(k) + " entries, block has " + std::to_string(es.size());
        if(!why.empty()) vp::violation("iteration|range-for|" + sh, cid, show_entries(es) + ": " + why);
        vp::trace();
    }
    // 2. lookups: every key of the block, a proper prefix and an extension of each, every value text, one absent key
    {
        static std::vector<std::string> probes;
        probes.clear();
        auto add = [&](const std::string &p) { for(auto &q : probes) if(q == p) return; probes.push_back(p); };
        for(auto &e : es) {
            add(e.key);
            add(e.key + "a");
            if(e.key.size() > 1) add(e.key.substr(0, e.key.size() - 1));
            if(e.has_value && !e.value.empty()) add(e.value);
        }
        add("zz");
        // the same key in the other case of its letters is another key
        { std::vector<std::string> more; for(auto &q : probes) { std::string t = q; bool ch = false; for(char &c : t) { if(islower((unsigned char)c)) { c = (char)toupper((unsigned char)c); ch = true; } else if(isupper((unsigned char)c)) { c = (char)tolower((unsigned char)c); ch = true; } } if(ch) more.push_back(t); } for(auto &t : more) add(t); }
        // lookups whose key string lies INSIDE the block (a title taken from an iteration, or any text that follows a ':' in the block): the
        // result depends on the characters of the key only, never on where they are stored
        for(size_t j = 1; j < n; ++j) if(meta[j - 1] == ':' && meta[j]) {
            const char *kp = meta + j; std::string key = kp;
            const Entry *first = nullptr; for(auto &e : es) if(e.key == key) { first = &e; break; }
            const char *got = mc[kp]; vp::transition();
            const bool want_value = first && first->has_value;
            if(want_value != (got != nullptr) || (want_value && first->value != got))
                vp::violation(std::string("lookup|operator[]|key-pointer-inside-the-block|") + sh, cid, show_entries(es) + ": ['" + key + "'] with the key string taken from the block itself = " + (got ? "'" + std::string(got) + "'" : "null") + " expected " + (want_value ? "'" + first->value + "'" : "null"));
            rtosc::Port::MetaIterator f = mc.find(kp); vp::transition();
            if((bool)f != (first != nullptr) || (first && (key != f.title || want_value != (f.value != nullptr) || (want_value && first->value != f.value))))
                vp::violation(std::string("entry|find|key-pointer-inside-the-block|") + sh, cid, show_entries(es) + ": find('" + key + "') with the key string taken from the block itself");
        }
        for(const std::string &p : probes) {
            const Entry *first = nullptr;
            for(auto &e : es) if(e.key == p) { first = &e; break; }
            const char *got = mc[p.c_str()];
            vp::transition();
            const bool want_value = first && first->has_value;
            const char *cls = !first ? "absent-key" : first->has_value ? "valued-key" : "valueless-key";
            if(want_value != (got != nullptr) || (want_value && first->value != got))
                vp::violation(std::string("lookup|operator[]|") + cls + "|" + sh, cid, show_entries(es) + ": ['" + p + "'] = " + (got ? "'" + std::string(got) + "'" : "null") +
                              " expected " + (want_value ? "'" + first->value + "'" : "null"));
            rtosc::Port::MetaIterator f = mc.find(p.c_str());
            vp::transition();
            const bool present = (bool)f, present2 = f != mc.end();
            if(present != (first != nullptr) || present2 != (first != nullptr))
                vp::violation(std::string("presence|find|") + cls + "|" + sh, cid, show_entries(es) + ": find('" + p + "') reports " + (present ? "present" : "absent") + "/" + (present2 ? "!=end" : "==end"));
            else if(first && (p != f.title || want_value != (f.value != nullptr) || (want_value && first->value != f.value)))
                vp::violation(std::string("entry|find|") + cls + "|" + sh, cid, show_entries(es) + ": find('" + p + "') -> title '" + nz(f.title) + "' value " + (f.value ? "'" + std::string(f.value) + "'" : "null"));
        }
    }
    // 3. length (of what Port::meta() hands out)
    if(!direct) {
        size_t len = mc.length();
        vp::transition();
        if(len != n)
            vp::violation("length|length()|" + sh, cid, show_entries(es) + ": length() = " + std::to_string(len) + ", the block has " + std::to_string(n) + " bytes including its terminator");
    }
    vp::outcome("n=" + std::to_string(es.size()) + ":" + sh);
}
static void check_block(const char *meta, size_t n, const std::vector<Entry> &es, const std::string &cid, const std::string &sh)
{
    check_block_route(meta, n, es, cid, sh, false);
    check_block_route(meta, n, es, cid, sh + "|direct-constructor", true);
}

static void generated_case(const std::vector<Entry> &es, const std::string &cid)
{
    vp::current_case() = cid;
    vp::eval(); vp::state();
    std::string b = block_bytes(es);
    char *buf = (char *)malloc(b.size());          // exact size: ASan reports any access outside [buf, buf+size)
    memcpy(buf, b.data(), b.size());
    const std::string sh = shape(es);
    check_block(buf, b.size(), es, cid, sh);
    // the library must not have written into the block
    if(memcmp(buf, b.data(), b.size())) vp::violation("block-modified|meta()|" + sh, cid, show_entries(es));
    free(buf);
    if((sh.compare(0, 5, "plain") != 0 || es.size() > 1)) vp::nontrivial(vp::fnv(b));
}

struct Family { const char *name; std::vector<std::string> keys; std::vector<Entry> vals; };   // vals: key unused

static std::vector<std::string> strings_upto(const std::string &alpha, int minlen, int maxlen)
{
    std::vector<std::string> out, level{""};
    for(int len = 0; len <= maxlen; ++len) {
        if(len >= minlen) out.insert(out.end(), level.begin(), level.end());
        std::vector<std::string> next; for(auto &s : level) for(char ch : alpha) next.push_back(s + ch);
        level.swap(next);
    }
    return out;
}
static Family make_family(const char *name, const std::vector<std::string> &keys, const std::vector<std::string> &values)
{
    Family f; f.name = name; f.keys = keys;
    f.vals.push_back({"", false, ""});
    for(auto &v : values) f.vals.push_back({"", true, v});
    return f;
}

static uint64_t g_top = 0;
static void run_family(const Family &f, int n)
{
    const uint64_t E = f.keys.size() * f.vals.size();
    uint64_t total = 1; for(int k = 0; k < n; ++k) total *= E;
    const bool rp = vp::replaying();
    std::string prefix = std::string(f.name) + "|" + std::to_string(n) + "|";
    if(rp && vp::ctx().replay.compare(0, prefix.size(), prefix) != 0) return;
    std::vector<Entry> es(n);
    uint64_t polls = 0;
    for(uint64_t idx = 0; idx < total; ++idx, ++g_top) {
        if(!vp::mine(g_top)) continue;
        if(rp) { if(!vp::want(prefix + std::to_string(idx))) continue; }
        if((++polls & 0xfff) == 0 && vp::deadline_passed()) { vp::cap("deadline: family " + std::string(f.name) + " with " + std::to_string(n) + " entries stopped at block " + std::to_string(idx) + " of " + std::to_string(total)); return; }
        uint64_t r = idx;
        for(int k = n - 1; k >= 0; --k) {
            uint64_t d = r % E; r /= E;
            es[k].key = f.keys[d / f.vals.size()];
            es[k].has_value = f.vals[d % f.vals.size()].has_value;
            es[k].value = f.vals[d % f.vals.size()].value;
        }
        std::string cid = prefix + std::to_string(idx);
        generated_case(es, cid);
        if(idx % 100003 == 77) vp::sample("block " + vp::show(block_bytes(es)) + " = " + show_entries(es));
    }
}

// ---- blocks produced by the real macros ----------------------------------------------------------------
#define VP_NUM_VOICES 16
#define VP_FLAG_NAME experimental
struct Obj { unsigned char pc; int pi; float pf; bool pt; int po; int arr[4]; char str[8]; void act() {} };
#define rObject Obj
static void nop(const char *, rtosc::RtData &) {}
static const rtosc::Ports macro_ports = {
    rParamI(pi, rLinear(0, 10), rShort("p.i"), rDefault(3), "doc: with = and : inside"),
    rParamF(pf, rLog(0.5, 20), rDefault(1.5), rMap(unit, Hz), "a float"),
    rToggle(pt, rDefault(true), "toggle"),
    rOption(po, rOptions(one, two, three), rDefault(two), "choice"),
    rArrayI(arr, 4, rLinear(-1, 1), rDefault([4x0]), "array"),
    rAction(act, "do it"),
    rString(str, 8, rDefault(""), "a string"),
    rParam(pc, rPresets(1, 2, 3), rDefaultDepends(po), rEnabledBy(pt), "presets"),
    {"plain1", rProp(internal), nullptr, nop},
    {"plain2", rProp(a) rProp(a) rMap(a, 1) rMap(b, :x=y:) rProp(c), nullptr, nop},
    {"plain3", rDepends(a, b) rDoc("") rMap(empty, ) rDefaultId(id) rNoDefaults rCentered rOpt(7, seven) rBlobType(f), nullptr, nop},
    {"plain4", rMap(min, 0) rMap(max, 127) rMap(scale, linear) rDoc("x"), nullptr, nop},
    {"plain5", rMap(max, VP_NUM_VOICES) rProp(VP_FLAG_NAME) rMap(VP_FLAG_NAME, VP_NUM_VOICES), nullptr, nop},   // arguments that are macros: expanded before they are spelled
};
#undef rObject

static std::vector<Entry> P(std::initializer_list<Entry> l) { return l; }
static Entry kv(const char *k, const char *v) { return {k, true, v}; }
static Entry k_(const char *k) { return {k, false, ""}; }

static void macro_blocks()
{
    const bool rp = vp::replaying();
    std::vector<std::vector<Entry>> want = {
        P({k_("parameter"), kv("min", "0"), kv("max", "10"), kv("scale", "linear"), kv("shortname", "p.i"), kv("default", "3"), kv("documentation", "doc: with = and : inside")}),
        P({k_("parameter"), kv("min", "0.5"), kv("max", "20"), kv("scale", "logarithmic"), kv("default", "1.5"), kv("unit", "Hz"), kv("documentation", "a float")}),
        P({k_("parameter"), kv("default", "true"), kv("documentation", "toggle")}),
        P({k_("parameter"), k_("enumerated"), kv("map 0", "one"), kv("map 1", "two"), kv("map 2", "three"), kv("default", "two"), kv("documentation", "choice")}),
        P({k_("parameter"), kv("min", "-1"), kv("max", "1"), kv("scale", "linear"), kv("default", "[4x0]"), kv("documentation", "array")}),
        P({kv("documentation", "do it")}),
        P({kv("length", "8"), k_("parameter"), kv("default", "\"\""), kv("documentation", "a string")}),
        P({k_("parameter"), kv("min", "0"), kv("max", "127"), kv("default 0", "1"), kv("default 1", "2"), kv("default 2", "3"), kv("default depends", "po"), kv("enabled by", "pt"), kv("documentation", "presets")}),
        P({k_("internal")}),
        P({k_("a"), k_("a"), kv("a", "1"), kv("b", ":x=y:"), k_("c")}),
        P({kv("depends", "a,b,"), kv("documentation", ""), kv("empty", ""), kv("default", "\"id\"S"), k_("no defaults"), k_("centered"), kv("map 7", "seven"), kv("blob type", "f")}),
        P({kv("min", "0"), kv("max", "127"), kv("scale", "linear"), kv("documentation", "x")}),
        P({kv("max", "16"), k_("experimental"), kv("experimental", "16")}),
    };
    if(want.size() != macro_ports.ports.size()) { fprintf(stderr, "macro table mismatch\n"); exit(3); }
    for(size_t k = 0; k < want.size(); ++k, ++g_top) {
        if(!vp::mine(g_top)) continue;
        std::string cid = "macro|" + std::to_string(k);
        if(rp && !vp::want(cid)) continue;
        vp::current_case() = cid;
        vp::eval(); vp::state();
        const rtosc::Port &p = macro_ports.ports[k];
        std::string b = block_bytes(want[k]);
        // the byte-wise construction used for the generated families is what the macros really concatenate
        if(memcmp(p.metadata, b.data(), b.size()))
            vp::violation("macro-layout|port-sugar|" + std::string(p.name), cid, "macro block " + vp::show(p.metadata, b.size()) + " differs from the byte-wise construction " + vp::show(b));
        check_block(p.metadata, b.size(), want[k], cid, shape(want[k]) + "|macro");
        char *buf = (char *)malloc(b.size()); memcpy(buf, p.metadata, b.size());
        check_block(buf, b.size(), want[k], cid, shape(want[k]) + "|macro-copy");
        free(buf);
        vp::nontrivial(vp::fnv(b));
        vp::sample(std::string("macro port '") + p.name + "': " + show_entries(want[k]), 8);
    }
}

// ---- long strings: every length 1..LMAX for a key, a key with a value, and a value; alone, first, last and in the middle of a block
static void long_strings(int LMAX)
{
    const bool rp = vp::replaying();
    for(int L = 1; L <= LMAX; ++L) for(int kind = 0; kind < 3; ++kind) for(int pos = 0; pos < 4; ++pos, ++g_top) {
        if(!vp::mine(g_top)) continue;
        std::string cid = "long|" + std::to_string(L) + "|" + std::to_string(kind) + "|" + std::to_string(pos);
        if(rp && !vp::want(cid)) continue;
        std::string big(L, 'x'); for(int k = 0; k < L; k += 7) big[k] = (char)('a' + (k / 7) % 26);
        Entry e = kind == 0 ? Entry{big, false, ""} : kind == 1 ? Entry{big, true, "v"} : Entry{"key", true, big};
        std::vector<Entry> es;
        if(pos == 2 || pos == 3) es.push_back(kv("min", "0"));
        es.push_back(e);
        if(pos == 1 || pos == 3) { es.push_back(kv("max", "127")); es.push_back(k_("last")); }
        generated_case(es, cid);
    }
}

int main(int argc, char **argv)
{
    vp::init(argc, argv, "C17");
    const bool T = vp::thorough();
    Family full = make_family("full", strings_upto("ab 1", 1, 2), strings_upto("a:= 1", 0, 2));
    Family wide = make_family("wide", strings_upto("ab 1", 1, 2), strings_upto("a:=", 0, 2));
    Family medium = make_family("medium", {"a", "b", "ab", "a ", "1", "b1"}, {"", "a", ":", "=", " ", "1", ":a", "a:", "=:", ":=", "a="});
    Family small = make_family("small", {"a", "b", "ab", " 1"}, {"", "a", ":", "=", ":a", "a:", "=:"});
    Family tiny = make_family("tiny", {"a", "ab"}, {"", ":", "a"});
    Family cased = make_family("case", {"a", "A", "ab", "Ab", "aB", "q", "Q"}, {"", "x", "X", "a", "A:a"});
    vp::bound("family_full", "20 keys (length 1..2 over {a,b,' ',1}) x 32 values (absent, length 0..2 over {a,':','=',' ',1}): all blocks of 1..2 entries");
    if(T) vp::bound("family_wide", "20 keys x 14 values (absent, length 0..2 over {a,':','='}): all blocks of 3 entries");
    vp::bound("family_case", "7 keys {a A ab Ab aB q Q} x 6 values: all blocks of 1..3 entries; every probe also with the case of its letters swapped");
    vp::bound("family_medium", "6 keys x 12 values: all blocks of 3 entries" + std::string(T ? " and of 4 entries" : ""));
    vp::bound("family_small", "4 keys x 8 values: all blocks of 4 entries" + std::string(T ? " and of 5 entries" : ""));
    vp::bound("family_tiny", "2 keys x 4 values: all blocks of 5.." + std::string(T ? "8" : "7") + " entries");
    vp::bound("macro_blocks", "12 ports written with rParamI rParamF rToggle rOption rArrayI rAction rString rParam rProp rMap rDoc rOptions rLinear rLog rPresets rDepends rDefaultId ...");

    vp::bound("long_strings", "a key (valueless / with value) or a value of every length 1.." + std::string(T ? "4100" : "1030") + ", alone, first, last and in the middle of a block");
    macro_blocks();
    long_strings(T ? 4100 : 1030);
    run_family(full, 1); run_family(full, 2);
    run_family(cased, 1); run_family(cased, 2); run_family(cased, 3);
    run_family(medium, 3);
    run_family(small, 4);
    for(int n = 5; n <= 7; ++n) run_family(tiny, n);
    if(T) {
        run_family(tiny, 8);
        run_family(small, 5);
        run_family(medium, 4);
        run_family(wide, 3);
    }
    return vp::finish();
}
