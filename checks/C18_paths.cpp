// C18 - path utilities: Ports::collapsePath, Ports::apropos, path_search.
//   A  collapsePath: every absolute path of 1..N components over {a, bb, .., c..} (with and without a trailing '/')
//      against a stack-based reference; result must lie inside the buffer; canaries on both sides, then once more
//      in an exact-size heap allocation (AddressSanitizer).
//   B  apropos: generated port trees (ordered selections from a name universe, sub-tables under every sub-tree) that
//      satisfy the side condition of the statement (no sibling's name is a prefix of another's); every (port, address)
//      that rtosc::walk_ports reports must be found again by apropos(address).
//   C  path_search: generated child tables (duplicate names, common prefixes, `name/` entries, metadata of many
//      lengths) x location x needle x option x reply_with_query, array form and message form, against a reference
//      child search written from the option semantics documented in ports.h; reply decoded with refosc.h.
// Don't-care zones: the empty result of collapsePath may be "" or "/"; a trailing '/' of the input may be kept or
// dropped; relative order of equal names after sorting; trees that violate the side condition; locations that need a
// lookup inside the generated table (only "", "/", a wrapper sub-tree, a leaf and an absent location are addressed).
#include <algorithm>
#include <rtosc/ports.h>
#include <rtosc/rtosc.h>
#include "common.h"
#include "refosc.h"

using rtosc::Port;
using rtosc::Ports;

static void nop_cb(const char *, rtosc::RtData &) {}
static uint64_t g_top = 0;

static bool replay_part(const char *p) { return !vp::replaying() || vp::ctx().replay.compare(0, strlen(p), p) == 0; }

// ================================================ A: collapsePath ===========================================
static std::string ref_collapse(const std::vector<std::string> &comps)
{
    std::vector<std::string> st;
    for(auto &c : comps) { if(c == "..") { if(!st.empty()) st.pop_back(); } else st.push_back(c); }
    std::string o; for(auto &c : st) o += "/" + c;
    return o;
}

static void part_collapse(int maxn)
{
    if(!replay_part("A|")) { return; }
    // component names of unequal lengths (a removed pair can be shorter or much longer than what has to move over it)
    static const char *alpha[6] = {"a", "bb", "..", "c..", "instrument", "a_component_of_32_characters_xyz"};
    const int NALPHA = 6;
    for(int n = 1; n <= maxn; ++n) {
        uint64_t total = 1; for(int k = 0; k < n; ++k) total *= NALPHA;
        for(uint64_t idx = 0; idx < total; ++idx, ++g_top) {
            if(!vp::mine(g_top)) continue;
            for(int trailing = 0; trailing < 2; ++trailing) {
                std::string cid = "A|" + std::to_string(n) + "|" + std::to_string(idx) + "|" + std::to_string(trailing);
                if(!vp::want(cid)) continue;
                vp::current_case() = cid;
                std::vector<std::string> comps(n); { uint64_t r = idx; for(int k = n - 1; k >= 0; --k) { comps[k] = alpha[r % NALPHA]; r /= NALPHA; } }
                std::string path; for(auto &c : comps) path += "/" + c;
                if(trailing) path += "/";
                const std::string want = ref_collapse(comps);
                // shape class
                bool dd = false, surplus = false, dotted = false; { int depth = 0; for(auto &c : comps) { if(c == "..") { dd = true; if(depth == 0) surplus = true; else --depth; } else { ++depth; if(c == "c..") dotted = true; } } }
                std::string cls = !dd ? "no-dotdot" : surplus ? "surplus-dotdot" : want.empty() ? "all-cancelled" : "cancelling-dotdot";
                if(comps[0] == "..") cls += "+leading"; if(dotted) cls += "+dotted-name"; if(trailing) cls += "+trailing-slash";
                vp::eval(); vp::state(); if(dd) vp::nontrivial(vp::fnv(cid));

                const size_t len = path.size();
                std::vector<unsigned char> big(64 + len + 1 + 64, 0xC7);
                char *p = (char *)big.data() + 64;
                memcpy(p, path.c_str(), len + 1);
                char *r = Ports::collapsePath(p);
                vp::transition(); vp::trace();
                bool canary = true;
                for(size_t k = 0; k < 64; ++k) if(big[k] != 0xC7 || big[64 + len + 1 + k] != 0xC7) canary = false;
                if(!canary) { vp::violation("writes-outside-buffer|collapsePath|" + cls, cid, "'" + path + "': a byte outside [p, p+strlen(p)] was modified"); continue; }
                if(r < p || r > p + len) { vp::violation("result-outside-buffer|collapsePath|" + cls, cid, "'" + path + "': returned pointer at offset " + std::to_string((long)(r - p)) + " of a " + std::to_string(len) + "-byte path"); continue; }
                size_t rl = strnlen(r, (size_t)(p + len + 1 - r));
                if(r + rl > p + len) { vp::violation("result-unterminated|collapsePath|" + cls, cid, "'" + path + "': result is not terminated inside the buffer"); continue; }
                std::string got(r, rl);
                bool ok = got == want || (want.empty() && got == "/");
                if(trailing && !ok) ok = got == want + "/";
                if(!ok) vp::violation("collapsed-path|collapsePath|" + cls, cid, "'" + path + "' -> '" + got + "', reference '" + want + "'");
                vp::outcome("collapse:" + cls + ":" + (got == want ? "exact" : got == want + "/" ? "with-trailing-slash" : ok ? "root-as-slash" : "WRONG"));
                if(idx % 797 == 3 && !trailing) vp::sample("collapsePath('" + path + "') = '" + got + "'");
                // once more in an exact-size allocation
                char *h = (char *)malloc(len + 1); memcpy(h, path.c_str(), len + 1);
                char *r2 = Ports::collapsePath(h);
                vp::transition();
                if(r2 < h || r2 > h + len || got != std::string(r2)) vp::violation("placement-dependent|collapsePath|" + cls, cid, "'" + path + "': different result in an exact-size allocation");
                free(h);
            }
        }
    }
}

// ================================================ trees =====================================================
struct Tree {                       // owns dynamically built Ports objects
    std::vector<Ports *> tables;
    ~Tree() { for(auto *t : tables) delete t; }
    Ports *make(const std::vector<Port> &ps) { Ports *t = new Ports(std::initializer_list<Port>{}); t->ports = ps; t->refreshMagic(); tables.push_back(t); return t; }
};
static std::string addr_part(const char *name) { const char *c = strchr(name, ':'); return c ? std::string(name, c - name) : std::string(name); }
// the side condition of the statement: no sibling's name is a prefix of another's
static bool side_condition(const std::vector<const char *> &names)
{
    for(size_t i = 0; i < names.size(); ++i) for(size_t j = 0; j < names.size(); ++j) if(i != j) {
        std::string a = addr_part(names[i]), b = addr_part(names[j]);
        if(b.compare(0, a.size(), a) == 0) return false;
    }
    return true;
}
static std::vector<std::vector<int>> selections(int kinds, int maxlen)
{
    std::vector<std::vector<int>> out, level{{}};
    for(int len = 0; len <= maxlen; ++len) {
        out.insert(out.end(), level.begin(), level.end());
        std::vector<std::vector<int>> next;
        for(auto &v : level) for(int k = 0; k < kinds; ++k) if(std::find(v.begin(), v.end(), k) == v.end()) { auto w = v; w.push_back(k); next.push_back(w); }
        level.swap(next);
    }
    return out;
}

// ================================================ B: apropos ================================================
struct Walked { const Port *port; std::string addr; };
static void collect(const Port *p, const char *name, const char *, const Ports &, void *data, void *) { ((std::vector<Walked> *)data)->push_back({p, name}); }

static std::string name_kind(const char *n)
{
    std::string a = addr_part(n);
    std::string k = strchr(n, '#') ? "bundle" : a.find('/') != std::string::npos ? "slash-in-name" : "plain";
    if(strchr(n, ':')) k += "+args";
    return k;
}

static void part_apropos(int max_root, int max_sub)
{
    if(!replay_part("B|")) return;
    struct Kind { const char *name; bool subtree; };
    static const Kind root_kinds[] = {{"a", false}, {"ab:i", false}, {"b::f", false}, {"c/d:", false}, {"e#2:i", false}, {"s/", true}, {"t/u/", true}, {"v#2/", true}, {"a/", true},
                                      {"w/::i", true}, {"f#2/:f", true}};      // sub-tree ports whose name carries an argument spec behind the slash
    static const Kind sub_kinds[] = {{"x", false}, {"xy:i", false}, {"y::i:f", false}, {"z/", true}};
    const int NR = 11, NS = 4;
    std::vector<std::vector<int>> roots = selections(NR, max_root), subs = selections(NS, max_sub);
    // which sub-tables / root tables satisfy the side condition
    auto names_of = [](const std::vector<int> &sel, const Kind *kinds) { std::vector<const char *> n; for(int k : sel) n.push_back(kinds[k].name); return n; };
    std::vector<int> good_subs; for(size_t k = 0; k < subs.size(); ++k) if(side_condition(names_of(subs[k], sub_kinds))) good_subs.push_back((int)k);
    uint64_t skipped = 0;
    for(size_t ri = 0; ri < roots.size(); ++ri) {
        if(vp::deadline_passed()) { vp::cap("deadline: apropos stopped at root table " + std::to_string(ri) + " of " + std::to_string(roots.size())); return; }
        const std::vector<int> &rsel = roots[ri];
        if(!side_condition(names_of(rsel, root_kinds))) { if(vp::mine(g_top++)) ++skipped; continue; }
        int nsub = 0; for(int k : rsel) if(root_kinds[k].subtree) ++nsub;
        uint64_t combos = 1; for(int k = 0; k < nsub; ++k) combos *= good_subs.size();
        for(uint64_t combo = 0; combo < combos; ++combo) {
            if(!vp::mine(g_top++)) continue;
            std::string cid = "B|" + std::to_string(ri) + "|" + std::to_string(combo);
            if(!vp::want(cid)) continue;
            vp::current_case() = cid;
            Tree tree;
            Ports *zsub = tree.make({Port{"w", nullptr, nullptr, nop_cb}, Port{"k#2::i", nullptr, nullptr, nop_cb}});
            std::vector<Port> rp; std::string desc = "{"; uint64_t r = combo;
            for(int k : rsel) {
                const Ports *child = nullptr;
                desc += std::string(desc.size() > 1 ? " " : "") + root_kinds[k].name;
                if(root_kinds[k].subtree) {
                    const std::vector<int> &ssel = subs[good_subs[r % good_subs.size()]]; r /= good_subs.size();
                    std::vector<Port> sp; desc += "{";
                    for(int s : ssel) { sp.push_back(Port{sub_kinds[s].name, nullptr, sub_kinds[s].subtree ? zsub : nullptr, nop_cb}); desc += std::string(sp.size() > 1 ? " " : "") + sub_kinds[s].name; }
                    desc += "}";
                    child = tree.make(sp);
                }
                rp.push_back(Port{root_kinds[k].name, nullptr, child, nop_cb});
            }
            desc += "}";
            Ports *root = tree.make(rp);
            vp::eval(); vp::state();
            std::vector<Walked> walked;
            char buf[1024]; memset(buf, 0, sizeof buf);
            rtosc::walk_ports(root, buf, sizeof buf, &walked, collect, true, nullptr, false);
            vp::transition();
            if(walked.size() > 1) vp::nontrivial(vp::fnv(cid));
            for(const Walked &w : walked) {
                char *a = (char *)malloc(w.addr.size() + 1); memcpy(a, w.addr.c_str(), w.addr.size() + 1);
                const Port *got = root->apropos(a);
                vp::transition();
                free(a);
                // class: kind of the leaf name / how deep it lies
                int depth = (int)std::count(w.addr.begin(), w.addr.end(), '/') - (int)std::count(w.port->name, w.port->name + strlen(w.port->name), '/');
                std::string cls = name_kind(w.port->name) + "/depth" + std::to_string(depth);
                if(got != w.port)
                    vp::violation("lookup-returns-reported-port|apropos|" + cls, cid, "tree " + desc + ": walk reported '" + w.addr + "' with port '" + w.port->name + "', apropos returns " +
                                  (got ? "port '" + std::string(got->name) + "'" + (got == w.port ? "" : " (another port object)") : "NULL"));
                vp::outcome("apropos:" + cls + ":" + (got == w.port ? "found" : got ? "OTHER" : "NULL"));
            }
            vp::trace();
            if(combo == 3 && ri % 53 == 9 && !walked.empty()) vp::sample("apropos: tree " + desc + ", " + std::to_string(walked.size()) + " walked addresses, e.g. " + walked.back().addr);
        }
    }
    if(skipped) vp::ctx().outcomes["apropos:root-table-skipped:side-condition-not-met"] += skipped;
}

// ================================================ C: path_search ============================================
struct MetaBlock { std::string bytes; bool null; char *mem; const char *ptr; };   // ptr: what Port::metadata is set to
static std::vector<MetaBlock> g_meta;
static void build_meta()
{
    auto blk = [](std::initializer_list<const char *> entries) {   // entries "k" or "k=v"
        std::string b;
        for(const char *e : entries) { std::string s = e; size_t q = s.find('='); b += ':'; b += s.substr(0, q); b += '\0'; if(q != std::string::npos) { b += '='; b += s.substr(q + 1); b += '\0'; } }
        b += '\0';
        return b;
    };
    g_meta.push_back({"", true, nullptr, nullptr});
    for(std::string b : {blk({"a"}), blk({"ab"}), blk({"a="}), blk({"a=b"}), blk({"a", "b"}), blk({"abc="}), blk({"ab=cd"}), blk({"a=b", "c"}), blk({"a=b:c", "d"}),
                          // free text behind a property (rSpecial writes it) and behind a value: the block goes on after it
                          std::string(":s\0doc\0:u\0=H\0\0", 14), std::string(":d\0=x\0y z\0:u\0=H\0\0", 17)}) {
        MetaBlock m; m.bytes = b; m.null = false;
        m.mem = (char *)malloc(8 + b.size() + 8); memset(m.mem, 0x7E, 8 + b.size() + 8); memcpy(m.mem + 8, b.data(), b.size());   // known bytes on both sides
        m.ptr = m.mem + 8;
        g_meta.push_back(m);
    }
}

struct Child { std::string name; int meta; };
typedef rtosc::path_search_opts Opt;
static const char *opt_name(Opt o) { return o == Opt::unmodified ? "unmodified" : o == Opt::sorted ? "sorted" : "sorted_and_unique_prefix"; }

// reference child search, from the documentation of path_search_opts
static std::vector<Child> ref_search(const std::vector<Child> &table, const std::string &needle, Opt o)
{
    std::vector<Child> found;
    for(auto &c : table) if(c.name.compare(0, needle.size(), needle) == 0) found.push_back(c);        // "port names starting with this string"
    if(o == Opt::unmodified) return found;                                                              // "in the order they are found"
    std::stable_sort(found.begin(), found.end(), [](const Child &a, const Child &b) { return a.name < b.name; });   // "sorted, but not filtered"
    if(o == Opt::sorted) return found;
    std::vector<Child> out;                                                                             // "If a/ is found, don't add any a/..."; duplicates stay
    for(auto &c : found) {
        bool below = false;
        for(auto &p : found) if(!p.name.empty() && p.name.back() == '/' && p.name.size() < c.name.size() && c.name.compare(0, p.name.size(), p.name) == 0) below = true;
        if(!below) out.push_back(c);
    }
    return out;
}

struct Reply { bool wellformed = true; std::string why; bool has_query = false, query_ok = true; std::string q0, q1; std::vector<std::pair<std::string, std::string>> pairs; };

static void canon(std::vector<std::pair<std::string, std::string>> &v) { std::stable_sort(v.begin(), v.end()); }

// compares a reply with the reference; returns false if the children/metadata/query are wrong
static bool judge(const Reply &got, const std::vector<Child> &want, bool rq, const std::string &loc, const std::string &needle, Opt o,
                  const char *site, const std::string &shape, const std::string &cid, const std::string &ctx)
{
    if(!got.wellformed) { vp::violation(std::string("reply-malformed|") + site + "|" + shape, cid, ctx + ": " + got.why); return false; }
    bool ok = true;
    if(got.has_query != rq || !got.query_ok || (rq && (got.q0 != loc || got.q1 != needle))) {
        ok = false;
        vp::violation(std::string("query-strings|") + site + "|" + shape, cid, ctx + ": reply " + (got.has_query ? "starts with '" + got.q0 + "','" + got.q1 + "'" : "has no query strings") + ", expected " + (rq ? "'" + loc + "','" + needle + "'" : "none"));
        if(!got.query_ok) return false;
    }
    std::string gn, wn; for(auto &p : got.pairs) gn += "'" + p.first + "' "; for(auto &c : want) wn += "'" + c.name + "' ";
    bool names_ok = got.pairs.size() == want.size();
    for(size_t k = 0; names_ok && k < want.size(); ++k) if(got.pairs[k].first != want[k].name) names_ok = false;
    if(!names_ok) { vp::violation(std::string("children|") + site + "|" + shape, cid, ctx + ": returns " + gn + ", reference " + wn); return false; }
    // metadata: pair by pair; equal names may come in any order when sorted
    std::vector<std::pair<std::string, std::string>> g = got.pairs, w;
    for(auto &c : want) w.push_back({c.name, g_meta[c.meta].null ? std::string() : g_meta[c.meta].bytes});
    bool plus1 = false, other = false; std::string det;
    auto strip1 = g;
    for(size_t k = 0; k < g.size(); ++k) {
        // the suspected "+1": blob = block + the byte behind its terminator
        const std::string &blob = g[k].second;
        if(blob.size() >= 2 && blob[blob.size() - 1] == 0x7E) { strip1[k].second = blob.substr(0, blob.size() - 1); plus1 = true; }
    }
    if(o != Opt::unmodified) { canon(g); canon(w); canon(strip1); }
    if(g != w) {
        if(plus1 && strip1 == w) {
            vp::violation(std::string("metadata-one-byte-longer|") + site + "|" + (std::string(site) == "path_search" ? "array-form" : "message-form"), cid,
                          ctx + ": every non-empty metadata blob is one byte longer than the port's metadata block (it includes the byte behind the block's terminator)");
        } else {
            other = true;
            for(size_t k = 0; k < g.size(); ++k) if(g[k] != w[k]) { det = "child '" + g[k].first + "': blob " + vp::show(g[k].second) + ", block " + vp::show(w[k].second); break; }
            vp::violation(std::string("metadata-bytes|") + site + "|" + shape, cid, ctx + ": " + det);
        }
    }
    return ok && !other;
}

static std::string loc_class(const std::string &loc)
{
    if(loc.empty()) return "loc-empty";
    if(loc == "/") return "loc-root";
    std::string c = loc[0] == '/' ? "loc-abs" : "loc-no-leading-slash";
    if(loc.back() == '/') c += "-trailing-slash";
    return c;
}

struct Query { std::string loc; int kind; };   // kind 0: the table under test, 1: the leaf, 2: nothing found

static void part_search(int maxk)
{
    if(!replay_part("C|")) return;
    static const char *names[9] = {"a", "ab", "a/", "a/b", "a/bc:i", "b", "b/", "a::f", "a0"};      // the last two: a spec'd leaf next to names that continue with '/', '0'
    const int NN = 9;
    const int NM = (int)g_meta.size();
    uint64_t tix = 0;
    auto do_table = [&](const std::vector<Child> &table, const std::string &tprefix, int k) {
            std::string tdesc = "{"; for(auto &c : table) tdesc += std::string(tdesc.size() > 1 ? " " : "") + c.name + "#m" + std::to_string(c.meta); tdesc += "}";
            Tree tree;
            std::vector<Port> tp; for(auto &c : table) tp.push_back(Port{c.name.c_str(), g_meta[c.meta].ptr, nullptr, nop_cb});
            Ports *T = tree.make(tp);
            Ports *fixed = tree.make({Port{"q", g_meta[1].ptr, nullptr, nop_cb}});
            const int leaf_meta = 1 + (int)(tix % (NM - 1));
            Ports *wrap = tree.make({Port{"s/", g_meta[2].ptr, T, nop_cb}, Port{"leaf:i", g_meta[leaf_meta].ptr, nullptr, nop_cb}, Port{"t/", nullptr, fixed, nop_cb}});
            std::vector<Child> leaf_table{{"leaf:i", leaf_meta}};
            // needles: every prefix of every name of the table, "" and an absent string
            std::vector<std::string> needles{""};
            for(auto &c : table) for(size_t l = 1; l <= c.name.size(); ++l) { std::string p = c.name.substr(0, l); if(std::find(needles.begin(), needles.end(), p) == needles.end()) needles.push_back(p); }
            needles.push_back("zz");
            struct Place { const Ports *root; Query q; };
            std::vector<Place> places = {{T, {"", 0}}, {T, {"/", 0}}, {wrap, {"/s/", 0}}, {wrap, {"/s", 0}}, {wrap, {"s/", 0}}, {wrap, {"/leaf", 1}}, {wrap, {"/nope", 2}}};
            // capacities: generous (max_ports = table size + 2) and, second pass, exactly what the result needs
            // (the documentation allows max_ports == number of children); the buffers are pre-filled with garbage
            for(int exact = 0; exact < 2; ++exact)
            for(size_t pi = 0; pi < places.size(); ++pi) {
                const Place &pl = places[pi];
                const size_t nchildren = pl.q.kind == 0 ? table.size() : pl.q.kind == 1 ? 1 : 0;
                const size_t max_ports_q[2] = {exact ? std::max<size_t>(nchildren, 1) : (size_t)std::max(k, 3) + 2, exact ? std::max<size_t>(nchildren, 1) : (size_t)std::max(k, 3) + 2};
                std::vector<std::string> nds = needles;
                if(pl.q.kind == 1) nds = {"", "l", "leaf:i", "leaf:ix", "zz"};
                if(pl.q.kind == 2) nds = {"", "a"};
                for(size_t ni = 0; ni < nds.size(); ++ni) for(int oi = 0; oi < 3; ++oi) for(int rq = 0; rq < 2; ++rq) {
                    const Opt o = oi == 0 ? Opt::unmodified : oi == 1 ? Opt::sorted : Opt::sorted_and_unique_prefix;
                    // array form: the caller provides room for the two query strings as well
                    const size_t max_ports = max_ports_q[rq], max_args = max_ports * 2 + (exact && rq ? 2 : 0), max_types = max_args + 1;
                    std::string cid = tprefix + std::to_string(pi) + "|" + std::to_string(ni) + "|" + std::to_string(oi) + "|" + std::to_string(rq) + (exact ? "|exact" : "");
                    if(!vp::want(cid)) continue;
                    vp::current_case() = cid;
                    vp::eval(); vp::state();
                    const std::string &loc = pl.q.loc, &needle = nds[ni];
                    const std::vector<Child> want = pl.q.kind == 2 ? std::vector<Child>() : ref_search(pl.q.kind == 0 ? table : leaf_table, needle, o);
                    const std::string shape = std::string(opt_name(o)) + "," + (rq ? "with-query" : "no-query") + "," + loc_class(loc) + (pl.q.kind == 1 ? ",leaf" : pl.q.kind == 2 ? ",absent" : "") + (exact ? ",exact-capacity" : "");
                    const std::string ctx = "table " + tdesc + " location '" + loc + "' needle '" + needle + "' " + opt_name(o) + (rq ? " reply_with_query" : "");
                    if(want.size() > 1) vp::nontrivial(vp::fnv(cid));

                    // ---- array form; the location string has a known byte in front of it ('X', then '/')
                    Reply first; bool array_ok = true;
                    for(int pre = 0; pre < 2; ++pre) {
                        std::vector<char> lbuf(1 + loc.size() + 1 + 4, 'X'); lbuf[0] = pre ? '/' : 'X'; memcpy(lbuf.data() + 1, loc.c_str(), loc.size() + 1);
                        // the empty needle is also passed as nullptr ("use empty-string or nullptr to match everything") on every second pass
                        const bool null_needle = needle.empty() && pre == 1;
                        char *nbuf = (char *)malloc(needle.size() + 1); memcpy(nbuf, needle.c_str(), needle.size() + 1);
                        char *types = (char *)malloc(max_types); memset(types, 'Z', max_types);
                        rtosc_arg_t *args = (rtosc_arg_t *)malloc(max_args * sizeof(rtosc_arg_t)); memset(args, 0x5A, max_args * sizeof(rtosc_arg_t));
                        rtosc::path_search(*pl.root, lbuf.data() + 1, null_needle ? nullptr : nbuf, types, max_types, args, max_args, o, rq);
                        vp::transition();
                        Reply rep;
                        size_t tl = strnlen(types, max_types);
                        if(tl == max_types) { rep.wellformed = false; rep.why = "type string not terminated"; }
                        else {
                            std::string ts(types, tl);
                            size_t p = 0;
                            if(rq && ts.compare(0, 2, "ss") == 0) {
                                // the library stores the caller's pointers; anything else is not dereferenced here
                                rep.has_query = true; p = 2;
                                rep.q0 = args[0].s == lbuf.data() + 1 ? loc : "<not the location pointer>";
                                const bool q1ok = null_needle ? (args[1].s != nullptr && args[1].s[0] == 0) : args[1].s == nbuf;      // nullptr is echoed as an empty string
                                rep.q1 = q1ok ? needle : "<not the needle pointer>";
                                rep.query_ok = args[0].s == lbuf.data() + 1 && q1ok;
                            }
                            if(!rep.query_ok) p = ts.size();   // the pairs behind a displaced query are not looked at
                            if(rep.query_ok && (ts.size() - p) % 2) { rep.wellformed = false; rep.why = "type string '" + ts + "' is not a sequence of 'sb' pairs"; }
                            for(; rep.wellformed && p + 1 < ts.size(); p += 2) {
                                if(ts[p] != 's' || ts[p + 1] != 'b') { rep.wellformed = false; rep.why = "type string '" + ts + "' is not a sequence of 'sb' pairs"; break; }
                                // the name must be one of the table's name strings, the blob one of its metadata pointers (or NULL/0)
                                const char *nm = args[p].s; bool known = false;
                                for(const Port &q : (pl.q.kind == 0 ? T : wrap)->ports) if(nm == q.name) known = true;
                                if(!known) { rep.wellformed = false; rep.why = "argument " + std::to_string(p) + " of '" + ts + "' is not the name pointer of a port of the table"; break; }
                                const rtosc_blob_t &b = args[p + 1].b; bool mknown = b.data == nullptr && b.len == 0;
                                for(auto &m : g_meta) if(!m.null && (const char *)b.data == m.ptr && b.len >= 0 && (size_t)b.len <= m.bytes.size() + 8) mknown = true;
                                if(!mknown) { rep.wellformed = false; rep.why = "argument " + std::to_string(p + 1) + " of '" + ts + "' is not (metadata pointer, plausible length) of a port"; break; }
                                rep.pairs.push_back({nm, b.data ? std::string((const char *)b.data, b.len) : std::string()});
                            }
                        }
                        if(pre == 0) {
                            first = rep;
                            array_ok = judge(rep, want, rq, loc, needle, o, "path_search", shape, cid, ctx);
                        } else if(rep.wellformed != first.wellformed || rep.pairs != first.pairs || rep.has_query != first.has_query || rep.query_ok != first.query_ok) {
                            array_ok = false;
                            std::string gn; for(auto &q : rep.pairs) gn += "'" + q.first + "' ";
                            vp::violation("depends-on-byte-before-location|path_search|" + shape, cid, ctx + ": with '/' as the byte in front of the location string the result changes to " + gn);
                        }
                        free(args); free(types); free(nbuf);
                    }
                    vp::outcome(std::string("search:") + shape + ":found=" + std::to_string(want.size()) + (array_ok ? "" : ":BAD"));
                    if(tix % 61 == 17 && pi == 2 && ni == 1 && oi == 2 && rq == 1) { std::string wn; for(auto &c : want) wn += c.name + " "; vp::sample("path_search: " + ctx + " -> " + wn); }
                    vp::trace();
                    if(!array_ok) continue;   // the message form runs the same search; do not build a message from a broken result

                    // ---- message form
                    char req[256]; size_t rl = rtosc_message(req, sizeof req, "/path-search", "ss", loc.c_str(), needle.c_str());
                    if(!rl) { fprintf(stderr, "request does not fit\n"); exit(3); }
                    const size_t bufsize = 2048;
                    char *msg = (char *)malloc(bufsize); memset(msg, 0x33, bufsize);
                    size_t len = rtosc::path_search(*pl.root, req, max_ports, msg, bufsize, o, rq);
                    vp::transition();
                    Reply rep;
                    ref::Decoded d = ref::decode((const uint8_t *)msg, len);
                    if(!len || !d.ok) { rep.wellformed = false; rep.why = !len ? "returns 0" : std::string("reply does not decode: ") + d.why; }
                    else if(d.addr != "/paths" || d.length != len || d.unknown_tags) { rep.wellformed = false; rep.why = "reply address '" + d.addr + "', " + std::to_string(len) + " bytes returned, " + std::to_string(d.length) + " decoded"; }
                    else {
                        size_t p = 0;
                        if(rq && d.types.compare(0, 2, "ss") == 0) { rep.has_query = true; rep.q0 = d.args[0].s; rep.q1 = d.args[1].s; p = 2; }
                        if((d.types.size() - p) % 2) { rep.wellformed = false; rep.why = "types '" + d.types + "'"; }
                        for(; rep.wellformed && p + 1 < d.types.size(); p += 2) {
                            if(d.types[p] != 's' || d.types[p + 1] != 'b') { rep.wellformed = false; rep.why = "types '" + d.types + "' are not 'sb' pairs"; break; }
                            rep.pairs.push_back({d.args[p].s, std::string(d.args[p + 1].b.begin(), d.args[p + 1].b.end())});
                        }
                    }
                    judge(rep, want, rq, loc, needle, o, "path_search-message", shape, cid, ctx);
                    free(msg);
                }
            }
    };
    for(int k = 0; k <= maxk; ++k) {
        uint64_t total = 1; for(int j = 0; j < k; ++j) total *= NN;
        for(uint64_t idx = 0; idx < total; ++idx, ++g_top, ++tix) {
            if(!vp::mine(g_top)) continue;
            std::string tprefix = "C|" + std::to_string(k) + "|" + std::to_string(idx) + "|";
            if(vp::replaying() && vp::ctx().replay.compare(0, tprefix.size(), tprefix) != 0) continue;
            if(vp::deadline_passed()) { vp::cap("deadline: path_search stopped at table " + std::to_string(idx) + " of " + std::to_string(total) + " with " + std::to_string(k) + " entries"); return; }
            // the table under test: names by index digits, metadata rotating through all blocks
            std::vector<Child> table(k); { uint64_t r = idx; for(int j = k - 1; j >= 0; --j) { table[j].name = names[r % NN]; r /= NN; } }
            for(int j = 0; j < k; ++j) table[j].meta = (int)((tix * 5 + j * 3) % NM);
            do_table(table, tprefix, k);
        }
    }
    // large tables: 15..40 children in an order that is neither sorted nor reverse sorted, sub-trees "gN/" together with entries below
    // them ("gN/x") and leaves sharing prefixes
    for(int n : {15, 16, 17, 18, 20, 24, 33, 40}) for(int variant = 0; variant < 3; ++variant, ++g_top, ++tix) {
        if(!vp::mine(g_top)) continue;
        std::string tprefix = "C|big" + std::to_string(n) + "|" + std::to_string(variant) + "|";
        if(vp::replaying() && vp::ctx().replay.compare(0, tprefix.size(), tprefix) != 0) continue;
        static std::vector<std::string> keep; keep.clear();
        std::vector<Child> table(n);
        for(int j = 0; j < n; ++j) {
            int r = (j * 7 + 3 * variant) % n;                // a permutation of 0..n-1 when gcd(7, n) = 1, else repeats (duplicates are allowed)
            std::string nm = variant == 0 ? "m" + std::to_string(r) : (r % 3 == 0 ? "g" + std::to_string(r % 5) + "/" : r % 3 == 1 ? "g" + std::to_string(r % 5) + "/x" + std::to_string(r) : "h" + std::to_string(r));
            if(variant == 2 && r % 4 == 0) nm = "g" + std::to_string(r % 5);
            table[j].name = nm; table[j].meta = (int)((tix * 5 + j * 3) % NM);
        }
        do_table(table, tprefix, n);
    }
    vp::bound("path_search_large_tables", "tables of 15,16,17,18,20,24,33,40 children x 3 naming schemes (distinct leaves; sub-trees with entries below them and leaves; the same with leaf/sub-tree name clashes), same queries as the small tables");
}

int main(int argc, char **argv)
{
    vp::init(argc, argv, "C18");
    const bool T = vp::thorough();
    build_meta();
    const int maxn = T ? 9 : 6, max_root = 3, max_sub = T ? 3 : 2, maxk = T ? 5 : 3;
    vp::bound("collapsePath", "all absolute paths of 1.." + std::to_string(maxn) + " components over {a, bb, .., c.., instrument, a_component_of_32_characters_xyz}, with and without trailing '/'");
    vp::bound("apropos", "root tables = ordered selections of 0.." + std::to_string(max_root) + " of 11 entries (5 leaves a ab:i b::f c/d: e#2:i, 6 sub-trees s/ t/u/ v#2/ a/ w/::i f#2/:f), every sub-tree with every ordered selection of 0.." +
                         std::to_string(max_sub) + " of {x, xy:i, y::i:f, z/{w k#2::i}}; trees violating the side condition are skipped");
    vp::bound("path_search", "tables = all sequences of 0.." + std::to_string(maxk) + " names over {a ab a/ a/b a/bc:i b b/ a::f a0} (duplicates allowed), metadata rotating over 12 blocks of 0..17 bytes (two with free text inside); locations '' '/' '/s/' '/s' 's/' '/leaf' '/nope'; "
                             "needles = every prefix of every name + '' + absent; 3 options x reply_with_query x array/message form");
    part_collapse(maxn);
    part_apropos(max_root, max_sub);
    part_search(maxk);
    return vp::finish();
}
