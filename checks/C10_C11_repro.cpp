// Stand-alone reproducers for the C10/C11 findings. Build:
//  for f in /repo/src/*.c; do gcc -std=c99 -D_DEFAULT_SOURCE -O1 -DNDEBUG -I/repo/include -w -c $f; done
//  for f in pretty-format arg-ext arg-val arg-val-math arg-val-cmp arg-val-itr util; do gcc -O1 -DNDEBUG -I/repo/include -w -c /repo/src/cpp/$f.c; done
//  g++ -std=c++17 -I/repo/include repro.cpp *.o -o repro && ./repro <letter>
#include <rtosc/rtosc.h>
#include <rtosc/arg-ext.h>
#include <rtosc/pretty-format.h>
#include <rtosc/arg-val-cmp.h>
#include <cstdio>
#include <cstring>
#include <cstdlib>
#include <climits>
#include <ctime>
#include <initializer_list>
static char raw[4100]; static char *buf = raw + 4;
static rtosc_arg_val_t out[64]; static char scratch[1024];
static void dump(int n) { for(int i = 0; i < n; ++i) { const rtosc_arg_val_t &a = out[i]; printf("   [%d] '%c' ", i, a.type >= 32 ? a.type : '?');
    switch(a.type) { case 'i': case 'c': printf("%d", a.val.i); break; case 'h': printf("%lld", (long long)a.val.h); break; case 'd': printf("%a", a.val.d); break; case 'f': printf("%a", a.val.f); break;
      case 't': printf("secs=%llu frac=0x%08x", (unsigned long long)(a.val.t >> 32), (unsigned)a.val.t); break; case 's': case 'S': printf("\"%s\"", a.val.s); break;
      case '-': printf("range num=%d has_delta=%d", rtosc_av_rep_num(&a), rtosc_av_rep_has_delta(&a)); break; case 'a': printf("array type='%c' len=%d", rtosc_av_arr_type(&a), rtosc_av_arr_len(&a)); break; } printf("\n"); } }
static void roundtrip(const rtosc_arg_val_t *in, size_t n, rtosc_print_options o)
{
    memset(raw, 0x7f, sizeof raw); raw[3] = ' ';
    size_t w = rtosc_print_arg_vals(in, n, buf, 4096, &o, 0);
    printf(" printed (ret=%zu, buffer[-1]=%s): <%s>\n", w, raw[3] == '\n' ? "newline" : "blank", buf);
    int cnt = rtosc_count_printed_arg_vals(buf);
    printf(" rtosc_count_printed_arg_vals = %d\n", cnt);
    if(cnt <= 0) return;
    memset(out, 0, sizeof out);
    size_t rd = rtosc_scan_arg_vals(buf, out, cnt, scratch, sizeof scratch);
    printf(" rtosc_scan_arg_vals consumed %zu of %zu bytes; rtosc_arg_vals_eq(original, scanned) = %d\n", rd, strlen(buf), rtosc_arg_vals_eq(in, out, n, cnt, NULL));
    dump(cnt);
}
__attribute__((noinline)) static void poison(int c) { volatile char a[8192]; memset((void *)a, c, sizeof a); }
static void scan(const char *text)
{
    for(int c : {0, (int)'h', (int)'i', (int)'f'}) { poison(c); printf(" stack pre-filled with 0x%02x: rtosc_count_printed_arg_vals = %d\n", c, rtosc_count_printed_arg_vals(text)); }
    poison(0);
    int cnt = rtosc_count_printed_arg_vals(text);
    printf(" text <%s>: count=%d\n", text, cnt);
    if(cnt <= 0) return;
    memset(out, 0, sizeof out);
    size_t rd = rtosc_scan_arg_vals(text, out, cnt, scratch, sizeof scratch);
    printf(" consumed %zu of %zu\n", rd, strlen(text)); dump(cnt);
}
static rtosc_arg_val_t av(char t) { rtosc_arg_val_t a; memset(&a, 0, sizeof a); a.type = t; return a; }
int main(int, char **argv)
{
    setenv("TZ", "UTC", 1); tzset();
    rtosc_print_options def = {true, 2, " ", 80, 1};
    char which = argv[1] ? argv[1][0] : '?';
    switch(which) {
    case 'A': { puts("A: a double in lossless mode"); rtosc_arg_val_t a = av('d'); a.val.d = 1.5; roundtrip(&a, 1, def); break; }
    case 'B': { puts("B: time tag with fraction, precision 0 (crashes)"); rtosc_arg_val_t a = av('t'); a.val.t = ((uint64_t)1479299696 << 32) | 0x80000000u; rtosc_print_options o = def; o.floating_point_precision = 0; roundtrip(&a, 1, o); break; }
    case 'C': { puts("C: time tag with fraction .5, lossless"); rtosc_arg_val_t a = av('t'); a.val.t = ((uint64_t)1479299696 << 32) | 0x80000000u; roundtrip(&a, 1, def); break; }
    case 'E': { puts("E: time tag followed by a float"); rtosc_arg_val_t a[2] = {av('t'), av('f')}; a[0].val.t = (uint64_t)86400 << 32; a[1].val.f = 0.1f; roundtrip(a, 2, def); break; }
    case 'F': { puts("F: date-only time tag followed by an int"); rtosc_arg_val_t a[2] = {av('t'), av('i')}; a[0].val.t = (uint64_t)86400 << 32; a[1].val.i = 5; roundtrip(a, 2, def); break; }
    case 'G': { puts("G: array as first value, line length 10"); rtosc_arg_val_t a[2] = {av('a'), av('h')}; rtosc_av_arr_type_set(a, 'h'); rtosc_av_arr_len_set(a, 1); a[1].val.h = INT64_MAX; rtosc_print_options o = def; o.linelength = 10; roundtrip(a, 2, o); break; }
    case 'H': { puts("H: symbol whose text is a reserved word"); rtosc_arg_val_t a = av('S'); a.val.s = "true"; roundtrip(&a, 1, def); break; }
    case 'I': { puts("I: empty list"); memset(raw, 0x7f, sizeof raw); raw[3] = ' '; size_t w = rtosc_print_arg_vals(NULL, 0, buf, 4096, &def, 0); printf(" ret=%zu buf[0]=0x%02x (no terminator written)\n", w, (unsigned char)buf[0]); break; }
    case 'J': { puts("J: five ints stepping across INT_MAX, compression on"); rtosc_arg_val_t a[5]; for(int k = 0; k < 5; ++k) { a[k] = av('i'); a[k].val.i = (int)((unsigned)INT_MAX - 3 + k); } roundtrip(a, 5, def); break; }
    case 'N': { puts("N: array of arrays, line length 10"); rtosc_arg_val_t a[3] = {av('a'), av('a'), av('h')}; rtosc_av_arr_type_set(a, 'a'); rtosc_av_arr_len_set(a, 2); rtosc_av_arr_type_set(a + 1, 'h'); rtosc_av_arr_len_set(a + 1, 1); a[2].val.h = INT64_MAX;
                rtosc_arg_val_t b[4] = {av('T'), a[0], a[1], a[2]}; b[0].val.T = 1; rtosc_print_options o = def; o.linelength = 10; roundtrip(b, 4, o); break; }
    case 'K': puts("K: octal literal of the manual"); scan("077"); break;
    case 'L': puts("L/R: ellipsis inside a comment / string / lossless time stamp in front of a range"); scan("0.000 % a ... b\n0.333 ... 1.000"); scan("\"this is...\" 7h ... 5h"); scan("[\"Next Effect\"S ... ] 7h ... 5h"); break;
    case 'M': puts("M: array followed by 'b ... c'"); scan("[1 2 3] 1 ... 5"); break;
    case 'Q': puts("Q: lossless time stamp followed by a range (crashes in the checker)"); scan("2017-03-22 20:29:59.12 (...+0x1p-3s) 1 ... 5"); break;
    case 'S': { puts("S: message behind a comment line longer than the address buffer");
        const char *msg = "% a comment line in front of the message, as in the examples of the manual\n/p 0";
        int cnt = rtosc_count_printed_arg_vals_of_msg(msg); char addr[64]; memset(addr, 0, sizeof addr);
        printf(" count=%d\n", cnt); size_t rd = rtosc_scan_message(msg, addr, sizeof addr, out, cnt, scratch, sizeof scratch);
        printf(" consumed %zu of %zu, address=<%s>\n", rd, strlen(msg), addr); dump(cnt); break; }
    default: puts("usage: repro A|B|C|E|F|G|H|I|J|K|L|M|N|Q|S");
    }
    return 0;
}
