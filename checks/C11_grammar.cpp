// C11 - the scanner accepts the documented pretty-format grammar (doc/Guide.adoc, "Pretty-printing Messages").
// Sentences are built constructively from (denotation, spelling) items, so the oracle knows what every text means
// without parsing it. Enumerated: every sequence of 1..k items, with 0, 1 and 2 white-space/comment deviations at the
// token boundaries. Checked on every text: syntax checker count > 0 and == slots the scanner writes (sentinel array
// in front of a guard page), the scanner consumes the text, the scanned values (arrays/ranges expanded by the
// harness's own walker) equal the denotation; and print(scan(text)) scans to the same values again.
#include <climits>
#include <cmath>
#include "pretty_common.h"
#include "guard.h"

using pf::PV;
typedef std::vector<PV> List;

// ------------------------------------------------------------------------------------------------ items
// gap classes between two tokens of a text:
//   'v' two values at top level: any white space, line breaks and '%' comments may be inserted (default " ")
//   'w' white space only (inside arrays, around "..."), default " "
//   'r' like 'w', but may also be removed (between "..." and "]"), default " "
//   'o' optional white space (behind '[' and in front of ']'), default ""
struct Item {
    std::string kind;               // spelling class (goes into signatures)
    std::vector<std::string> tok;
    std::vector<char> gap;          // gap[i] between tok[i] and tok[i+1]
    List den;                       // what the text denotes, ranges expanded
    char ft = 0, lt = 0;            // type of the first / last top-level scalar value (0 = none)
    bool openleft = false;          // "b ... c": its meaning depends on a left neighbour of the same type
    bool approx = false;            // float range: "|a+nd-c| <= 0.001" rule, compare with tolerance
    bool sub = false;               // member of the sub-alphabet used for the longest sentences
};
static std::vector<Item> ITEMS;

static Item one(const std::string &kind, const std::string &text, const PV &v, bool sub = false)
{
    Item it; it.kind = kind; it.tok = {text}; it.den = {v}; it.ft = it.lt = (v.k == 'a' ? 0 : v.k); it.sub = sub; return it;
}
static Item range_abc(const std::string &kind, const std::string &a, const std::string &b, const std::string &c, const List &den, bool approx = false, bool sub = false)
{
    Item it; it.kind = kind; it.tok = {a, b, "...", c}; it.gap = {'v', 'w', 'w'}; it.den = den; it.ft = it.lt = den[0].k; it.approx = approx; it.sub = sub; return it;
}
static Item range_bc(const std::string &kind, const std::string &b, const std::string &c, const List &den, bool sub = false)
{
    Item it; it.kind = kind; it.tok = {b, "...", c}; it.gap = {'w', 'w'}; it.den = den; it.ft = it.lt = den[0].k; it.openleft = true; it.sub = sub; return it;
}
static Item rep(int n, const Item &inner, bool sub = false)
{
    Item it = inner; it.kind = "rep:" + inner.kind; it.tok[0] = std::to_string(n) + "x" + it.tok[0];
    it.den.clear(); for(int i = 0; i < n; ++i) it.den.insert(it.den.end(), inner.den.begin(), inner.den.end());
    it.sub = sub; return it;
}
static bool types_match(char a, char b) { return a == b || (a == 'T' && b == 'F') || (a == 'F' && b == 'T'); }
static bool may_follow(const Item &a, const Item &b) { return !(b.openleft && a.lt && types_match(a.lt, b.ft)); }
// tail: 0 none, 1 "x ..." endless repetition of the last element, 2 endless range with delta (last - previous)
static Item arr(const std::string &kind, const std::vector<Item> &inner, int tail = 0, bool sub = false)
{
    Item it; it.kind = kind; it.tok.push_back("["); it.sub = sub;
    PV a; a.k = 'a';
    for(size_t i = 0; i < inner.size(); ++i) {
        it.gap.push_back(i == 0 ? 'o' : 'w');
        for(size_t t = 0; t < inner[i].tok.size(); ++t) {
            if(t) it.gap.push_back('w');
            it.tok.push_back(inner[i].tok[t]);
        }
        a.el.insert(a.el.end(), inner[i].den.begin(), inner[i].den.end());
    }
    if(tail) {
        PV r; r.k = 'R'; PV last = a.el.back(); a.el.pop_back();
        r.el.push_back(last);
        if(tail == 2) { PV d = last; d.u = (uint32_t)((uint32_t)last.u - (uint32_t)a.el.back().u); r.el.push_back(d); }
        a.el.push_back(r);
        it.gap.push_back('w'); it.tok.push_back("...");
        it.gap.push_back('r'); it.tok.push_back("]");
    } else { it.gap.push_back('o'); it.tok.push_back("]"); }
    it.den = {a};
    return it;
}

static void build_items()
{
    auto &I = ITEMS;
    // --- integers
    I.push_back(one("int:dec", "42", pf::I(42), true));
    I.push_back(one("int:dec", "0", pf::I(0)));
    I.push_back(one("int:dec-neg", "-12", pf::I(-12), true));
    I.push_back(one("int:hex", "0x2a", pf::I(42)));
    I.push_back(one("int:hex", "0xdeadbeef", pf::I((int32_t)0xdeadbeefu), true));
    I.push_back(one("int:hex", "0xf", pf::I(15)));
    I.push_back(one("int:hex", "0x1f", pf::I(31)));
    I.push_back(one("int:oct", "077", pf::I(077), true));
    I.push_back(one("int:i-suffix", "123i", pf::I(123), true));
    I.push_back(one("int:i-suffix", "-5i", pf::I(-5)));
    I.push_back(one("h:dec", "42h", pf::H(42), true));
    I.push_back(one("h:dec-neg", "-5000000000h", pf::H(-5000000000LL)));
    I.push_back(one("h:hex", "0xffffffffffh", pf::H(0xffffffffffLL), true));
    // --- floats and doubles
    I.push_back(one("f:dot", "1.", pf::Fl(1.0f), true));
    I.push_back(one("f:dot", "2.5", pf::Fl(2.5f)));
    I.push_back(one("f:dot-neg", "-0.5", pf::Fl(-0.5f), true));
    I.push_back(one("f:exp", "1e10", pf::Fl(1e10f)));
    I.push_back(one("f:exp", "1e-10", pf::Fl(1e-10f), true));
    I.push_back(one("f:f-suffix", "10f", pf::Fl(10.0f), true));
    I.push_back(one("f:f-suffix", "1f", pf::Fl(1.0f)));
    I.push_back(one("f:hexfloat", "0xfp+0", pf::Fl(15.0f), true));
    I.push_back(one("d:d-suffix", "10d", pf::D(10.0), true));
    I.push_back(one("d:d-suffix", "2.5d", pf::D(2.5)));
    { Item it = one("f:exact-in-parentheses", "0.000061", pf::Fl(0x0.1p-10f), true); it.tok.push_back("(0x0.1p-10)"); it.gap.push_back('w'); I.push_back(it); }
    { Item it = one("f:exact-in-parentheses", "-1.50", pf::Fl(-1.5f)); it.tok.push_back("(-0x1.8p+0)"); it.gap.push_back('w'); I.push_back(it); }
    { Item it = one("d:exact-in-parentheses", "0.10d", pf::D(0x1.999999999999ap-4), true); it.tok.push_back("(0x1.999999999999ap-4)"); it.gap.push_back('w'); I.push_back(it); }
    // the parenthesised exact value split into tokens, so that white space deviations also fall directly behind '(' and before ')'
    { Item it = one("f:exact-in-parentheses", "0.50", pf::Fl(0.5f)); it.tok.push_back("("); it.gap.push_back('w'); it.tok.push_back("0x1p-1"); it.gap.push_back('o'); it.tok.push_back(")"); it.gap.push_back('o'); I.push_back(it); }
    { Item it = one("d:exact-in-parentheses", "0.25d", pf::D(0.25)); it.tok.push_back("("); it.gap.push_back('w'); it.tok.push_back("0x1p-2"); it.gap.push_back('o'); it.tok.push_back(")"); it.gap.push_back('o'); I.push_back(it); }
    // --- characters
    I.push_back(one("c:plain", "'a'", pf::C('a'), true));
    I.push_back(one("c:plain", "'#'", pf::C('#')));
    I.push_back(one("c:plain", "' '", pf::C(' ')));
    I.push_back(one("c:plain", "'\"'", pf::C('"')));
    I.push_back(one("c:escape", "'\\n'", pf::C('\n'), true));
    I.push_back(one("c:escape", "'\\t'", pf::C('\t')));
    I.push_back(one("c:escape", "'\\\\'", pf::C('\\')));
    I.push_back(one("c:escape", "'\\''", pf::C('\''), true));
    // --- strings
    I.push_back(one("s:plain", "\"text\"", pf::Str("text"), true));
    I.push_back(one("s:plain", "\"\"", pf::Str("")));
    I.push_back(one("s:plain", "\"two words % no comment\"", pf::Str("two words % no comment")));
    I.push_back(one("s:escapes", "\"\\\"Hello\\nworld!\\\"\"", pf::Str("\"Hello\nworld!\""), true));
    I.push_back(one("s:escapes", "\"\\a\\b\\t\\v\\f\\r\\\\\"", pf::Str("\a\b\t\v\f\r\\")));
    I.push_back(one("s:concatenated", "\"this is...\"\\\n  \"...one string\"", pf::Str("this is......one string"), true));
    I.push_back(one("s:concatenated", "\"ab\"\\\n    \"cd\"\\\n    \"\"", pf::Str("abcd")));
    // --- identifiers / symbols
    I.push_back(one("S:identifier", "An_Identifier_with_a_Number_12345", pf::Sym("An_Identifier_with_a_Number_12345"), true));
    I.push_back(one("S:identifier", "frequency_modulation", pf::Sym("frequency_modulation")));
    I.push_back(one("S:identifier", "_", pf::Sym("_")));
    I.push_back(one("S:identifier", "x", pf::Sym("x")));
    I.push_back(one("S:identifier-like-keyword", "truely", pf::Sym("truely")));
    I.push_back(one("S:identifier-like-keyword", "nowhere", pf::Sym("nowhere"), true));
    I.push_back(one("S:identifier-like-keyword", "MIDINOTE", pf::Sym("MIDINOTE")));
    // a reserved word followed by '_' (or a digit) is one identifier
    for(const char *w : {"true_color", "false_", "nil_value", "inf_norm", "now_playing", "immediately_after", "true1", "MIDI_in", "BLOB_x"}) I.push_back(one("S:identifier-keyword-underscore", w, pf::Sym(w)));
    // identifiers that begin with the first letter of a keyword (t f n i M B) and contain digits
    I.push_back(one("S:identifier-with-digits", "note2", pf::Sym("note2")));
    I.push_back(one("S:identifier-with-digits", "t0", pf::Sym("t0")));
    I.push_back(one("S:identifier-with-digits", "i2c_bus", pf::Sym("i2c_bus"), true));
    I.push_back(one("S:identifier-with-digits", "B52", pf::Sym("B52")));
    I.push_back(one("S:identifier-with-digits", "Midi_1x", pf::Sym("Midi_1x")));
    I.push_back(one("S:identifier-with-digits", "filter_1x", pf::Sym("filter_1x")));
    I.push_back(one("S:quoted", "\"A more \\\"complicated\\\" identifier!\"S", pf::Sym("A more \"complicated\" identifier!"), true));
    // --- values without payload, time keywords
    I.push_back(one("kw:true", "true", pf::mk('T'), true));
    I.push_back(one("kw:false", "false", pf::mk('F')));
    I.push_back(one("kw:nil", "nil", pf::mk('N'), true));
    I.push_back(one("kw:inf", "inf", pf::mk('I')));
    I.push_back(one("t:now", "now", pf::Imm()));
    I.push_back(one("t:immediately", "immediately", pf::Imm(), true));
    // --- MIDI, blob, colour
    I.push_back(one("midi", "MIDI [0xff 0xff 0xff 0xff]", pf::Midi(255, 255, 255, 255)));
    I.push_back(one("midi", "MIDI [0x90 0x3c 0x7f 0x00]", pf::Midi(0x90, 0x3c, 0x7f, 0), true));
    I.push_back(one("blob", "BLOB [6 0x72 0x74 0x6f 0x73 0x63 0x00]", pf::Blob(std::string("rtosc\0", 6)), true));
    I.push_back(one("blob", "BLOB [0]", pf::Blob("")));
    I.push_back(one("colour", "#8badf00d", pf::Col(0x8badf00du), true));
    // --- time stamps (UTC)
    I.push_back(one("t:date", "2000-01-01", pf::Tt(pf::utc_secs(2000, 1, 1, 0, 0, 0), 0), true));
    I.push_back(one("t:date-hh:mm", "2000-01-01 00:00", pf::Tt(pf::utc_secs(2000, 1, 1, 0, 0, 0), 0)));
    I.push_back(one("t:date-hh:mm", "2016-11-16 19:44", pf::Tt(pf::utc_secs(2016, 11, 16, 19, 44, 0), 0), true));
    I.push_back(one("t:date-hh:mm:ss", "2016-11-16 19:44:06", pf::Tt(pf::utc_secs(2016, 11, 16, 19, 44, 6), 0), true));
    // seconds only / minutes only / hours only after midnight (each field decides alone whether a clock part is printed)
    I.push_back(one("t:date-hh:mm:ss", "2016-11-16 00:00:07", pf::Tt(pf::utc_secs(2016, 11, 16, 0, 0, 7), 0)));
    I.push_back(one("t:date-hh:mm:ss", "2016-11-16 00:07:00", pf::Tt(pf::utc_secs(2016, 11, 16, 0, 7, 0), 0)));
    I.push_back(one("t:date-hh:mm:ss", "2016-11-16 05:00:00", pf::Tt(pf::utc_secs(2016, 11, 16, 5, 0, 0), 0)));
    I.push_back(one("t:date-fraction", "2017-03-22 20:29:59.125", pf::Tt(pf::utc_secs(2017, 3, 22, 20, 29, 59), 0x20000000u), true));
    // --- repetitions NxA (every element kind except ranges)
    I.push_back(rep(3, one("int:dec", "42", pf::I(42)), true));
    I.push_back(rep(2, one("int:dec-neg", "-12", pf::I(-12))));
    I.push_back(rep(12, one("h:dec", "7h", pf::H(7))));
    I.push_back(rep(2, one("f:dot", "1.5", pf::Fl(1.5f)), true));
    I.push_back(rep(3, one("c:plain", "'a'", pf::C('a'))));
    I.push_back(rep(3, one("s:plain", "\"bad\"", pf::Str("bad")), true));
    I.push_back(rep(2, one("S:identifier", "id", pf::Sym("id"))));
    I.push_back(rep(2, one("kw:true", "true", pf::mk('T'))));
    I.push_back(rep(2, one("colour", "#8badf00d", pf::Col(0x8badf00du))));
    I.push_back(rep(2, one("t:date", "2000-01-01", pf::Tt(pf::utc_secs(2000, 1, 1, 0, 0, 0), 0))));
    I.push_back(rep(3, arr("array:s", {one("s:plain", "\"bad\"", pf::Str("bad")), one("s:plain", "\"luck\"", pf::Str("luck"))}), true));
    I.push_back(rep(2, arr("array:empty", {})));
    // --- ranges
    I.push_back(range_abc("range:a-b-c:int", "10", "8", "2", {pf::I(10), pf::I(8), pf::I(6), pf::I(4), pf::I(2)}, false, true));
    I.push_back(range_abc("range:a-b-c:int", "-3", "0", "9", {pf::I(-3), pf::I(0), pf::I(3), pf::I(6), pf::I(9)}));
    I.push_back(range_abc("range:a-b-c:h", "1h", "3h", "9h", {pf::H(1), pf::H(3), pf::H(5), pf::H(7), pf::H(9)}));
    I.push_back(range_abc("range:a-b-c:h-wide-step", "0h", "5000000000h", "20000000000h", {pf::H(0), pf::H(5000000000LL), pf::H(10000000000LL), pf::H(15000000000LL), pf::H(20000000000LL)}));
    I.push_back(range_abc("range:a-b-c:h-wide-step", "3h", "-4294967294h", "-12884901888h", {pf::H(3), pf::H(-4294967294LL), pf::H(-8589934591LL), pf::H(-12884901888LL)}));
    I.push_back(range_abc("range:a-b-c:int-wide-span", "-2000000000", "-1200000000", "1200000000", {pf::I(-2000000000), pf::I(-1200000000), pf::I(-400000000), pf::I(400000000), pf::I(1200000000)}));
    I.push_back(range_abc("range:a-b-c:char", "'a'", "'c'", "'g'", {pf::C('a'), pf::C('c'), pf::C('e'), pf::C('g')}, false, true));
    I.push_back(range_abc("range:a-b-c:float", "0.0", "0.25", "1.0", {pf::Fl(0.0f), pf::Fl(0.25f), pf::Fl(0.5f), pf::Fl(0.75f), pf::Fl(1.0f)}, true, true));
    I.push_back(range_abc("range:a-b-c:float", "0.000", "0.333", "1.000", {pf::Fl(0.0f), pf::Fl(0.333f), pf::Fl(0.666f), pf::Fl(0.999f)}, true));
    I.push_back(range_abc("range:a-b-c:double", "1.5d", "2.5d", "4.5d", {pf::D(1.5), pf::D(2.5), pf::D(3.5), pf::D(4.5)}, true));
    I.push_back(range_bc("range:b-c:int", "1", "5", {pf::I(1), pf::I(2), pf::I(3), pf::I(4), pf::I(5)}, true));
    I.push_back(range_bc("range:b-c:int", "3", "-1", {pf::I(3), pf::I(2), pf::I(1), pf::I(0), pf::I(-1)}));
    I.push_back(range_bc("range:b-c:char", "'a'", "'e'", {pf::C('a'), pf::C('b'), pf::C('c'), pf::C('d'), pf::C('e')}));
    I.push_back(range_bc("range:b-c:h", "7h", "5h", {pf::H(7), pf::H(6), pf::H(5)}));
    { Item it = range_bc("range:b-c:float", "1.0", "3.0", {pf::Fl(1.0f), pf::Fl(2.0f), pf::Fl(3.0f)}); it.approx = true; I.push_back(it); }
    // --- arrays
    Item i1 = one("int:dec", "1", pf::I(1)), i2 = one("int:dec", "2", pf::I(2)), i3 = one("int:dec", "3", pf::I(3)), i0 = one("int:dec", "0", pf::I(0));
    I.push_back(arr("array:empty", {}, 0, true));
    I.push_back(arr("array:int", {i1, i2, i3}, 0, true));
    I.push_back(arr("array:int", {one("int:hex", "0x10", pf::I(16)), one("int:dec-neg", "-1", pf::I(-1))}));
    I.push_back(arr("array:s", {one("s:plain", "\"Multiple\"", pf::Str("Multiple")), one("s:plain", "\"strings\"", pf::Str("strings"))}, 0, true));
    I.push_back(arr("array:char", {one("c:plain", "'a'", pf::C('a')), one("c:escape", "'\\''", pf::C('\''))}));
    I.push_back(arr("array:bool", {one("kw:true", "true", pf::mk('T')), one("kw:false", "false", pf::mk('F'))}));
    I.push_back(arr("array:float", {one("f:dot", "0.5", pf::Fl(0.5f)), one("f:f-suffix", "2f", pf::Fl(2.0f))}));
    I.push_back(arr("array:S", {one("S:identifier", "left", pf::Sym("left")), one("S:identifier", "right", pf::Sym("right"))}));
    I.push_back(arr("array:nested", {arr("array:int", {i0, i1}), arr("array:empty", {}), arr("array:int", {i2, i3})}));
    I.push_back(arr("array:with-range", {range_bc("range:b-c:int", "1", "5", {pf::I(1), pf::I(2), pf::I(3), pf::I(4), pf::I(5)})}, 0, true));
    I.push_back(arr("array:with-range", {i0, range_abc("range:a-b-c:int", "10", "8", "2", {pf::I(10), pf::I(8), pf::I(6), pf::I(4), pf::I(2)})}));
    I.push_back(arr("array:with-repetition", {i0, rep(3, i1), i2}));
    // a range / repetition as FIRST element of an array, followed by ordinary elements (the printer writes [1 1 1 1 1 2] like this)
    I.push_back(arr("array:range-first", {rep(3, i1), i2}, 0, true));
    I.push_back(arr("array:range-first", {range_abc("range:a-b-c:int", "1", "2", "3", {pf::I(1), pf::I(2), pf::I(3)}), one("int:dec", "7", pf::I(7))}));
    I.push_back(arr("array:range-first", {rep(2, one("s:plain", "\"a\"", pf::Str("a"))), one("s:plain", "\"b\"", pf::Str("b"))}));
    I.push_back(arr("array:endless-delta", {i1, i2}, 2, true));
    I.push_back(arr("array:endless-delta", {i0, one("int:dec", "10", pf::I(10)), one("int:dec", "7", pf::I(7))}, 2));
    I.push_back(arr("array:endless-same", {i1, i1}, 1, true));
    I.push_back(arr("array:endless-same", {i1}, 1));
    I.push_back(arr("array:endless-same", {one("S:quoted", "\"Next Effect\"S", pf::Sym("Next Effect"))}, 1));
    I.push_back(arr("array:endless-same", {one("kw:true", "true", pf::mk('T')), one("kw:false", "false", pf::mk('F')), one("kw:false", "false", pf::mk('F'))}, 1));
}

// ------------------------------------------------------------------------------------------------ texts
static const std::vector<std::string> DEV_V = {"  ", "\t", "\n", " % c\n", "\n% c\n  ", " % 2x[ ... \" '\n", " % one\n% two\n  % three\n"};
static const std::vector<std::string> DEV_W = {"  ", "\t", "\n"};
static const std::vector<std::string> DEV_R = {"", "  ", "\n"};
static const std::vector<std::string> DEV_O = {" ", "\n"};
static const std::vector<std::string> &devs(char g) { return g == 'v' ? DEV_V : g == 'w' ? DEV_W : g == 'r' ? DEV_R : DEV_O; }
static const char *dev_name(char g, size_t k)
{
    static const char *v[] = {"two-spaces", "tab", "newline", "comment", "newline-comment-indent", "comment-with-syntax-chars", "three-comment-lines"};
    static const char *w[] = {"two-spaces", "tab", "newline"};
    static const char *r[] = {"removed", "two-spaces", "newline"};
    static const char *o[] = {"space", "newline"};
    return g == 'v' ? v[k] : g == 'w' ? w[k] : g == 'r' ? r[k] : o[k];
}
static const char *gap_name(char g) { return g == 'v' ? "between-values" : g == 'w' ? "inside-item" : g == 'r' ? "before-closing-bracket" : "inside-brackets"; }

struct Sentence {
    std::vector<const Item *> items;
    std::vector<std::string> tok; std::vector<char> gap;
    List den; bool approx = false;
    void build()
    {
        tok.clear(); gap.clear(); den.clear(); approx = false;
        for(size_t i = 0; i < items.size(); ++i) {
            const Item &it = *items[i];
            if(i) gap.push_back('v');
            for(size_t t = 0; t < it.tok.size(); ++t) { if(t) gap.push_back(it.gap[t - 1]); tok.push_back(it.tok[t]); }
            den.insert(den.end(), it.den.begin(), it.den.end());
            approx = approx || it.approx;
        }
    }
    // dev[g] = -1: default separator, else index into devs(gap[g])
    std::string text(const std::vector<int> &dev) const
    {
        std::string s;
        for(size_t t = 0; t < tok.size(); ++t) {
            if(t) { char g = gap[t - 1]; int d = dev.empty() ? -1 : dev[t - 1]; s += d < 0 ? (g == 'o' ? "" : " ") : devs(g)[d]; }
            s += tok[t];
        }
        return s;
    }
    // shape class: the exact spelling class for a single item, a coarse lexical class per item for longer sentences
    static std::string coarse(const std::string &k)
    {
        auto starts = [&](const char *p) { return k.compare(0, strlen(p), p) == 0; };
        if(starts("int:") || starts("h:")) return "integer";
        if(k == "f:exact-in-parentheses") return "float-with-parentheses";
        if(k == "d:exact-in-parentheses") return "double-with-parentheses";
        if(starts("f:")) return "float";
        if(starts("d:")) return "double";
        if(starts("c:")) return "char";
        if(k == "s:concatenated") return "string-concatenated";
        if(starts("s:")) return "string";
        if(starts("S:")) return "symbol";
        if(starts("kw:")) return "keyword";
        if(k == "t:now" || k == "t:immediately") return "time-keyword";
        if(starts("rep:")) return "repetition";
        if(starts("range:a-b-c")) return "range-abc";
        if(starts("range:b-c")) return "range-bc";
        if(starts("array:endless")) return "array-endless";
        if(k == "array:range-first" || k == "array:with-range" || k == "array:with-repetition" || k == "array:nested" || k == "array:empty") return k;
        if(starts("array:")) return "array";
        return k;
    }
    std::string kinds() const
    {
        if(items.size() == 1) return items[0]->kind;
        std::string s; for(size_t i = 0; i < items.size(); ++i) { if(i) s += ","; s += coarse(items[i]->kind); } return s;
    }
};

// ------------------------------------------------------------------------------------------------ buffers
static const size_t SCR = 8192, PBUF = 8192, PRE = 16, FRONT = 512;
static const int MAXSLOTS = 256, GUARD = 16;
static guard::Arena g_parena, g_sarena, g_oarena, g_tarena;
static char *g_raw, *g_scratch, *g_text;
static rtosc_arg_val_t *g_out;
static bool all_bytes(const void *p, size_t n, unsigned char v) { const unsigned char *b = (const unsigned char *)p; return n == 0 || (b[0] == v && memcmp(b, b + 1, n - 1) == 0); }
static void init_buffers()
{
    g_parena.init(4); g_raw = (char *)g_parena.hi() - (PRE + PBUF); memset(g_raw - FRONT, guard::CANARY, FRONT);
    g_sarena.init(3); g_scratch = (char *)g_sarena.hi() - SCR; memset(g_scratch - FRONT, guard::CANARY, FRONT);
    g_oarena.init(3);
    g_tarena.init(2);
}

enum Clause { OK = 0, COUNT, CRASH, SLOTS, STRUCT, CONSUMED, ADDRESS, SCRATCH_GUARD, VALUE, REPRINT, NCLAUSE };
static const char *CLAUSE[NCLAUSE] = {"ok", "checker-count", "crash", "slots-written", "scanned-structure", "scan-consumed", "address", "scratch-overrun", "value", "reprint"};
struct Scan { Clause c = OK; std::string detail; List X; int count = 0; };

static bool all_ws(const char *s) { for(; *s; ++s) if(!isspace((unsigned char)*s)) return false; return true; }

// count + scan one text (placed so that it ends at a guard page: reading behind its terminator is caught)
static Scan scan_text(const std::string &text, bool msg, const char *addr_expected = nullptr)
{
    Scan r;
    g_text = (char *)g_tarena.hi() - (text.size() + 1);
    memcpy(g_text, text.c_str(), text.size() + 1);
    int count = 0;
    int sig = pf::fenced([&] { count = msg ? rtosc_count_printed_arg_vals_of_msg(g_text) : rtosc_count_printed_arg_vals(g_text); });
    vp::transition();
    if(sig) { r.c = CRASH; r.detail = std::string(pf::signame(sig)) + " inside the syntax checker" + (pf::g_fault_addr >= (void *)g_tarena.hi() && pf::g_fault_addr < (void *)(g_tarena.hi() + 4096) ? " (read behind the end of the text)" : ""); return r; }
    r.count = count;
    if(count <= 0 || count > MAXSLOTS) { r.c = COUNT; r.detail = "syntax checker returns " + std::to_string(count); return r; }
    g_out = (rtosc_arg_val_t *)g_oarena.hi() - (count + GUARD);
    memset(g_out, pf::SENT, (count + GUARD) * sizeof(rtosc_arg_val_t));
    memset((char *)g_out - FRONT, guard::CANARY, FRONT);
    memset(g_scratch, 0x7f, SCR);
    char addr[64]; memset(addr, 0x7f, sizeof addr);
    size_t rd = 0;
    sig = pf::fenced([&] { rd = msg ? rtosc_scan_message(g_text, addr, sizeof addr, g_out, count, g_scratch, SCR) : rtosc_scan_arg_vals(g_text, g_out, count, g_scratch, SCR); });
    vp::transition();
    if(sig) {
        r.c = CRASH; r.detail = std::string(pf::signame(sig)) + " inside the scanner (checker count=" + std::to_string(count) + ")";
        if(sig == SIGSEGV && pf::g_fault_addr >= (void *)g_oarena.hi() && pf::g_fault_addr < (void *)(g_oarena.hi() + 4096)) { r.c = SLOTS; r.detail = "checker announced " + std::to_string(count) + " slots, scanner ran more than " + std::to_string(GUARD) + " slots past them"; }
        if(sig == SIGSEGV && pf::g_fault_addr >= (void *)g_sarena.hi() && pf::g_fault_addr < (void *)(g_sarena.hi() + 4096)) { r.c = SCRATCH_GUARD; r.detail = "scanner accessed memory behind the scratch buffer"; }
        return r;
    }
    if(!all_bytes((char *)g_out - FRONT, FRONT, guard::CANARY)) { r.c = SLOTS; r.detail = "scanner wrote in front of the output array"; return r; }
    int touched_end = count;
    if(!all_bytes(g_out + count, GUARD * sizeof(rtosc_arg_val_t), pf::SENT)) for(int k = count; k < count + GUARD; ++k) if(!pf::slot_untouched(g_out[k])) touched_end = k + 1;
    if(touched_end > count) { r.c = SLOTS; r.detail = "checker announced " + std::to_string(count) + " slots, scanner wrote up to slot " + std::to_string(touched_end); return r; }
    for(int k = 0; k < count; ++k) if(pf::slot_untouched(g_out[k])) { r.c = SLOTS; r.detail = "checker announced " + std::to_string(count) + " slots, slot " + std::to_string(k) + " was not written"; return r; }
    pf::Scratch sc; sc.lo = g_scratch; sc.hi = g_scratch + SCR;
    std::string err;
    if(!pf::expand(g_out, count, r.X, sc, err)) { r.c = STRUCT; r.detail = "scanned array is malformed: " + err; return r; }
    if(rd > text.size() || !all_ws(g_text + rd)) { r.c = CONSUMED; r.detail = "scanner consumed " + std::to_string(rd) + " of " + std::to_string(text.size()) + " bytes"; return r; }
    if(msg && addr_expected && strcmp(addr, addr_expected)) { r.c = ADDRESS; r.detail = "scanned address '" + vp::show(addr, strnlen(addr, sizeof addr)) + "'"; return r; }
    if(!all_bytes(g_scratch - FRONT, FRONT, guard::CANARY)) { memset(g_scratch - FRONT, guard::CANARY, FRONT); r.c = SCRATCH_GUARD; r.detail = "bytes in front of the scratch buffer were written"; return r; }
    return r;
}

// denotation == scanned; floats of a "0.001 rule" range are compared within that tolerance
static bool same_den(const PV &a, const PV &b, bool approx)
{
    if(a.k != b.k) return false;
    if(approx && a.k == 'f') return std::fabs(pf::bits_f((uint32_t)a.u) - pf::bits_f((uint32_t)b.u)) <= 0.0011f;
    if(approx && a.k == 'd') return std::fabs(pf::bits_d(a.u) - pf::bits_d(b.u)) <= 0.0011;
    if(a.k == 'a' || a.k == 'R') {
        if(a.el.size() != b.el.size()) return false;
        for(size_t i = 0; i < a.el.size(); ++i) if(!same_den(a.el[i], b.el[i], approx)) return false;
        return true;
    }
    return pf::same(a, b);
}
static bool same_den(const List &a, const List &b, bool approx, size_t *where = nullptr)
{
    size_t k = 0; while(k < a.size() && k < b.size() && same_den(a[k], b[k], approx)) ++k;
    if(where) *where = k;
    return k == a.size() && k == b.size();
}

static const rtosc_print_options PRINT_OPTS[3] = {{true, 2, " ", 80, 1}, {true, 9, " ", 20, 0}, {true, 0, " ", 10, 1}};

// full check of one text against its denotation; reprint: also print(scan(text)) -> scan -> equal values
struct Verdict { Clause c = OK; std::string detail; };
// msg: 0 bare argument values, 1 behind the address "/p", 2 like 1 with a comment line (longer than the address buffer) in front
static const char *LEAD = "% a comment line in front of the message, as in the examples of the manual\n";
static Verdict check_text(const std::string &text, const List &den, bool approx, int msg, bool reprint)
{
    Verdict v;
    Scan s = scan_text(msg == 2 ? LEAD + ("/p " + text) : msg ? "/p " + text : text, msg != 0, "/p");
    if(s.c != OK) { v.c = s.c; v.detail = s.detail; return v; }
    size_t k;
    if(!same_den(den, s.X, approx, &k)) {
        v.c = VALUE;
        v.detail = "value " + std::to_string(k) + ": the text denotes " + (k < den.size() ? pf::show(den[k]) : std::string("(nothing more)")) + ", scanned " + (k < s.X.size() ? pf::show(s.X[k]) : std::string("(nothing more)"));
        return v;
    }
    if(!reprint) return v;
    // print the scanned values (exactly the slots the scanner wrote) and scan the result again
    std::vector<rtosc_arg_val_t> first(g_out, g_out + s.count);
    // strings/blobs of 'first' point into the scratch buffer, which the second scan overwrites: keep a copy of it
    static std::vector<char> keep; keep.assign(g_scratch, g_scratch + SCR);
    for(auto &a : first) {
        if(a.type == 's' || a.type == 'S') a.val.s = keep.data() + (a.val.s - g_scratch);
        if(a.type == 'b') a.val.b.data = (uint8_t *)keep.data() + ((char *)a.val.b.data - g_scratch);
    }
    for(const rtosc_print_options &po : PRINT_OPTS) {
        memset(g_raw, 0x7f, PRE + PBUF); g_raw[PRE - 1] = ' ';
        char *buf = g_raw + PRE; size_t ret = 0;
        int sig = pf::fenced([&] { ret = rtosc_print_arg_vals(first.data(), first.size(), buf, PBUF, &po, 0); });
        vp::transition();
        std::string o = "linelength=" + std::to_string(po.linelength) + " precision=" + std::to_string(po.floating_point_precision) + " compress=" + std::to_string(po.compress_ranges);
        if(sig) { v.c = REPRINT; v.detail = std::string(pf::signame(sig)) + " inside the printer when printing the scanned values (" + o + ")"; return v; }
        const char *nul = (const char *)memchr(buf, 0, PBUF);
        if(!nul || (size_t)(nul - buf) != ret) { v.c = REPRINT; v.detail = "printer returns " + std::to_string(ret) + " but the text has another length (" + o + ")"; return v; }
        std::string printed(buf, ret);
        Scan s2 = scan_text(printed, false);
        if(s2.c != OK) { v.c = REPRINT; v.detail = "printed <" + vp::show(printed) + "> (" + o + "): " + CLAUSE[s2.c] + ": " + s2.detail; return v; }
        // lossless printing: the second scan has to give the first scan's values bit for bit (no tolerance needed)
        if(!same_den(s.X, s2.X, false, &k)) {
            v.c = REPRINT; v.detail = "printed <" + vp::show(printed) + "> (" + o + ") scans to other values: value " + std::to_string(k) + " was " +
                                      (k < s.X.size() ? pf::show(s.X[k]) : std::string("(nothing)")) + ", now " + (k < s2.X.size() ? pf::show(s2.X[k]) : std::string("(nothing)"));
            return v;
        }
    }
    return v;
}

// ------------------------------------------------------------------------------------------------ reduction + report
static bool g_stop = false;
static uint64_t g_top = 0;
static std::string g_done;

struct Case { std::vector<const Item *> items; std::vector<int> dev; int msg; };
static Verdict run(const Case &c, bool reprint, std::string *text_out = nullptr)
{
    Sentence s; s.items = c.items; s.build();
    std::string t = s.text(c.dev);
    if(text_out) *text_out = t;
    return check_text(t, s.den, s.approx, c.msg, reprint);
}
static std::vector<int> no_dev(const std::vector<const Item *> &items) { Sentence s; s.items = items; s.build(); return std::vector<int>(s.gap.size(), -1); }
static bool legal(const std::vector<const Item *> &items) { for(size_t i = 1; i < items.size(); ++i) if(!may_follow(*items[i - 1], *items[i])) return false; return true; }

static void report(const std::string &cid, const Case &c0, const Verdict &v0, bool reprint)
{
    // reduce: fewest items (single item, adjacent pair, contiguous trim) with the deviations of the surviving gaps,
    // then drop the deviations and the address if the failure survives that
    Sentence full; full.items = c0.items; full.build();
    // gap index range of item i in the full sentence
    std::vector<size_t> gstart(c0.items.size() + 1, 0);
    { size_t g = 0; for(size_t i = 0; i < c0.items.size(); ++i) { gstart[i] = g; g += c0.items[i]->tok.size() - 1; if(i + 1 < c0.items.size()) ++g; } gstart[c0.items.size()] = g; }
    auto sub = [&](size_t a, size_t b) {
        Case c; c.msg = c0.msg; c.items.assign(c0.items.begin() + a, c0.items.begin() + b);
        size_t ga = gstart[a], gb = gstart[b - 1] + c0.items[b - 1]->tok.size() - 1;
        c.dev.assign(c0.dev.begin() + ga, c0.dev.begin() + gb);
        return c;
    };
    auto fails = [&](const Case &c) { return run(c, reprint).c != OK; };
    size_t n = c0.items.size(), a = 0, b = n;
    bool found = false;
    for(size_t i = 0; i < n && !found; ++i) if(n > 1 && fails(sub(i, i + 1))) { a = i; b = i + 1; found = true; }
    for(size_t i = 0; i + 1 < n && !found; ++i) if(n > 2 && fails(sub(i, i + 2))) { a = i; b = i + 2; found = true; }
    if(!found) { while(b - a > 1 && fails(sub(a, b - 1))) --b; while(b - a > 1 && fails(sub(a + 1, b))) ++a; }
    Case c = sub(a, b);
    const Clause cl = run(c, reprint).c;
    auto still = [&](const Case &x) { return run(x, reprint).c == cl; };
    { Case x = c; x.msg = 1; if(c.msg == 2 && still(x)) c = x; }
    { Case x = c; x.msg = 0; if(c.msg && still(x)) c = x; }
    { Case x = c; x.dev = no_dev(c.items); if(x.dev != c.dev && still(x)) c = x; }
    // single deviations that are not needed
    for(size_t g = 0; g < c.dev.size(); ++g) if(c.dev[g] >= 0) { Case x = c; x.dev[g] = -1; if(still(x)) c = x; }
    // does it depend on the values at all? (the plainest sentence "0" in the same surroundings)
    bool any_values = false;
    { Case x; x.items = {&ITEMS[1]}; x.msg = c.msg; if(run(x, false).c == cl) { c = x; any_values = true; } }
    // items that can be replaced by the plain "0" without losing the failure are mere company: named '*'
    std::vector<bool> filler(c.items.size(), false);
    if(!any_values && c.items.size() >= 2) {
        for(size_t i = 0; i < c.items.size(); ++i) {
            if(c.items[i] == &ITEMS[1]) continue;
            Case x; x.msg = c.msg; x.items = c.items; x.items[i] = &ITEMS[1];
            if(!legal(x.items)) continue;
            // carry the deviations over: per item its inner gaps, then the gap behind it
            size_t g = 0;
            for(size_t k = 0; k < c.items.size(); ++k) {
                size_t inner = c.items[k]->tok.size() - 1;
                if(k != i) x.dev.insert(x.dev.end(), c.dev.begin() + g, c.dev.begin() + g + inner);
                g += inner;
                if(k + 1 < c.items.size()) x.dev.push_back(c.dev[g++]);
            }
            if(still(x)) { c = x; filler[i] = true; }
        }
    }
    std::string text; Verdict v = run(c, reprint, &text);
    Sentence s; s.items = c.items; s.build();
    std::string shape = any_values ? "any-values" : s.kinds();
    if(!any_values && c.items.size() >= 2) {
        // for print -> scan failures of the scanned values (reprint) what stands left of the last item mostly decides
        // the column: only time stamps (whose scanning looks ahead) are named there, other neighbours are '*'
        shape.clear();
        for(size_t i = 0; i < c.items.size(); ++i) {
            std::string k = Sentence::coarse(c.items[i]->kind);
            if(filler[i] || (v.c == REPRINT && i + 1 < c.items.size() && k.compare(0, 2, "t:") != 0)) k = "*";
            shape += (i ? "," : "") + k;
        }
    }
    for(size_t g = 0; g < c.dev.size(); ++g) if(c.dev[g] >= 0) shape += std::string("+") + dev_name(s.gap[g], c.dev[g]) + "@" + gap_name(s.gap[g]);
    std::string sig = std::string(CLAUSE[v.c]) + "|" + (c.msg == 2 ? "message-behind-comment-line" : c.msg ? "message" : "arg_vals") + "|" + shape;
    if(v.c == OK) sig = std::string("unstable|") + CLAUSE[v0.c];
    auto &vi = vp::ctx().viol;
    auto it = vi.find(sig);
    if(it != vi.end() && it->second.cases.size() >= 3) { it->second.count++; return; }
    std::string t0; run(c0, false, &t0);
    vp::violation(sig, cid, std::string(CLAUSE[v0.c]) + ": " + v0.detail + "; text=<" + vp::show(t0) + ">" + (c0.msg == 2 ? " behind a comment line and address /p" : c0.msg ? " behind address /p" : "") + "; denotes " + pf::show(full.den) +
                  "; REDUCED TO text=<" + vp::show(text) + ">" + (c.msg == 2 ? " behind a comment line and address /p" : c.msg ? " behind address /p" : "") + " denoting " + pf::show(s.den) + " => " + CLAUSE[v.c] + ": " + v.detail);
}

// one sentence: base text, deviation variants, message form; id = fam:idx:variant
static void do_sentence(const char *fam, uint64_t idx, const std::vector<const Item *> &items, int maxdev, bool inner_gaps)
{
    if(g_stop) return;
    const uint64_t top = g_top++;
    if(!vp::mine(top)) return;
    std::string prefix = std::string(fam) + ":" + std::to_string(idx) + ":";
    if(vp::replaying() && vp::ctx().replay.compare(0, prefix.size(), prefix) != 0) return;
    if((top & 0xff) == 0 && vp::deadline_passed()) { g_stop = true; vp::cap(std::string("deadline: stopped in family '") + fam + "' at sentence " + std::to_string(idx) + "; completed before: " + g_done); return; }
    Sentence s; s.items = items; s.build();
    vp::state();
    vp::nontrivial(vp::fnv(s.text({})));
    const size_t G = s.gap.size();
    // gaps that take part in the deviations: the ones between items always, the ones inside items if asked for
    std::vector<size_t> gaps;
    { size_t g = 0; for(size_t i = 0; i < items.size(); ++i) { for(size_t t = 1; t < items[i]->tok.size(); ++t, ++g) if(inner_gaps) gaps.push_back(g); if(i + 1 < items.size()) gaps.push_back(g++); } }
    uint64_t variant = 0;
    auto one = [&](const std::vector<int> &dev, int msg, bool reprint, int ndev) {
        std::string cid = prefix + std::to_string(variant++) + (msg == 2 ? "c" : msg ? "m" : "");
        if(!vp::want(cid)) return;
        vp::current_case() = cid;
        vp::eval();
        Case c; c.items = items; c.dev = dev; c.msg = msg;
        std::string text;
        Verdict v = run(c, reprint, vp::replaying() ? &text : nullptr);
        vp::trace();
        if(vp::replaying()) fprintf(stderr, "replay %s: text=<%s>%s\n  denotes %s\n  verdict: %s %s\n", cid.c_str(), vp::show(text).c_str(), msg == 2 ? " behind a comment line and /p" : msg ? " behind /p" : "", pf::show(s.den).c_str(), CLAUSE[v.c], v.detail.c_str());
        static std::string lab; lab = fam; lab += "|dev="; lab += (char)('0' + ndev); lab += msg == 2 ? "|msg+comment|" : msg ? "|msg|" : "|args|"; lab += CLAUSE[v.c];
        vp::outcome(lab);
        if(v.c != OK) report(cid, c, v, reprint);
    };
    std::vector<int> dev(G, -1);
    one(dev, 0, true, 0);
    one(dev, 1, false, 0);
    if(items.size() <= 2) one(dev, 2, false, 0);
    if(maxdev >= 1) for(size_t x : gaps) for(size_t k = 0; k < devs(s.gap[x]).size(); ++k) {
        dev[x] = (int)k; one(dev, 0, false, 1);
        if(maxdev >= 2) for(size_t y : gaps) if(y > x) for(size_t l = 0; l < devs(s.gap[y]).size(); ++l) { dev[y] = (int)l; one(dev, 0, false, 2); dev[y] = -1; }
        dev[x] = -1;
    }
    // a message with a deviation at the first boundary
    if(maxdev >= 1 && !gaps.empty()) { dev[gaps[0]] = 0; one(dev, 1, false, 1); dev[gaps[0]] = -1; }
    vp::outcome("kinds:" + (items.size() == 1 ? items[0]->kind : std::string(items.size() == 2 ? "pair" : "longer")));
    if(top % 4001 == 0) vp::sample(std::string(fam) + ": <" + vp::show(s.text({})) + ">  denotes  " + pf::show(s.den), 8);
}

// texts taken verbatim from the manual (no deviations; message examples include their comment lines)
struct Verbatim { const char *name; const char *text; bool msg; List den; bool approx; };

int main(int argc, char **argv)
{
    vp::init(argc, argv, "C11");
    const bool T = vp::thorough();
    build_items();
    init_buffers();
    std::vector<const Item *> all, subset;
    for(auto &it : ITEMS) { all.push_back(&it); if(it.sub) subset.push_back(&it); }
    vp::bound("items", (long long)all.size());
    vp::bound("items_sub_alphabet", (long long)subset.size());
    vp::bound("sentences", T ? "all legal sequences of 1..3 items; 4 items over the sub-alphabet" : "all legal sequences of 1..2 items; 3 items over the sub-alphabet");
    vp::bound("deviations", "separator at a token boundary replaced by one of: between values {2 spaces, tab, newline, ' % c\\n', '\\n% c\\n  ', comment with syntax characters, three comment lines}; inside items/arrays {2 spaces, tab, newline}; behind '[' / before ']' {space, newline}; '... ]' {removed, 2 spaces, newline}");
    vp::bound("deviation_depth", T ? "1 item: 0,1,2 at all boundaries; 2 items: 0,1,2 at all boundaries; 3 items: 0,1 at all boundaries and 2 at the boundaries between items; 4 items: 0,1 between items"
                                   : "1-2 items: 0,1,2 at all boundaries; 3 items: 0,1 at the boundaries between items");
    vp::bound("reprint_options", "print(scan(text)) with {80 cols, precision 2, compress}, {20 cols, precision 9, no compress}, {10 cols, precision 0, compress}, lossless");
    vp::bound("values_per_text", "up to 12 per item (12x7h), ranges up to 5 values, arrays up to 7 slots");

    uint64_t idx = 0;
    for(auto a : all) do_sentence("s1", idx++, {a}, 2, true);
    if(!g_stop) g_done += "s1 ";
    idx = 0;
    for(auto a : all) for(auto b : all) { if(legal({a, b})) do_sentence("s2", idx, {a, b}, 2, true); ++idx; }
    if(!g_stop) g_done += "s2 ";
    idx = 0;
    {
        const std::vector<const Item *> &pool = T ? all : subset;
        for(auto a : pool) for(auto b : pool) for(auto c : pool) { if(legal({a, b, c})) do_sentence("s3", idx, {a, b, c}, 1, T); ++idx; }
    }
    if(!g_stop) g_done += "s3 ";
    if(T) {
        idx = 0;
        for(auto a : subset) for(auto b : subset) for(auto c : subset) for(auto d : subset) { if(legal({a, b, c, d})) do_sentence("s4", idx, {a, b, c, d}, 1, false); ++idx; }
        if(!g_stop) g_done += "s4 ";
    }
    // ---- the manual's examples, verbatim
    {
        auto S = [](const char *s) { return pf::Str(s); };
        std::vector<Verbatim> vb = {
            {"keywords", "true\nfalse\nnil\ninf", false, {pf::mk('T'), pf::mk('F'), pf::mk('N'), pf::mk('I')}, false},
            {"numeric-literals", "42                    % 'i'\n0xdeadbeef            % 'i'\n077                   % 'i'\n123i                  % 'i'\n0xffffffffffh         % 'h'\n1.                    % 'f'\n1e10                  % 'f'\n1e-10                 % 'f'\n10f                   % 'f'\n10d                   % 'd'\n0xf                   % 'i' (no float!, value is 15)\n0xfp+0                % 'f' (if you wanted the above to be a float, =15.0f)\n0x1f                  % 'i' (no float!, value is 31)\n1f                    % 'f' (1.0f)\n0.000061 (0x0.1p-10)  % 'f' (the exact value is inside of parentheses)",
             false, {pf::I(42), pf::I((int32_t)0xdeadbeefu), pf::I(077), pf::I(123), pf::H(0xffffffffffLL), pf::Fl(1.0f), pf::Fl(1e10f), pf::Fl(1e-10f), pf::Fl(10.0f), pf::D(10.0), pf::I(15), pf::Fl(15.0f), pf::I(31), pf::Fl(1.0f), pf::Fl(0x0.1p-10f)}, false},
            {"strings-and-chars", "\"\\\"Hello\\nworld!\\\"\"\n\"this is...\"\\\n  \"...one string\"\n'#'\n'\\''", false, {S("\"Hello\nworld!\""), S("this is......one string"), pf::C('#'), pf::C('\'')}, false},
            {"midi", "MIDI [0xff 0xff 0xff 0xff]", false, {pf::Midi(255, 255, 255, 255)}, false},
            {"colour", "#8badf00d", false, {pf::Col(0x8badf00du)}, false},
            {"timestamps", "2016-11-16 19:44:06\n2000-01-01 00:00         % beginning of the day 2000-01-01\n2000-01-01               % same date as above\nnow\nimmediately", false,
             {pf::Tt(pf::utc_secs(2016, 11, 16, 19, 44, 6), 0), pf::Tt(pf::utc_secs(2000, 1, 1, 0, 0, 0), 0), pf::Tt(pf::utc_secs(2000, 1, 1, 0, 0, 0), 0), pf::Imm(), pf::Imm()}, false},
            {"identifiers", "An_Identifier_with_a_Number_12345\nfrequency_modulation\n\"A more \\\"complicated\\\" identifier!\"S", false, {pf::Sym("An_Identifier_with_a_Number_12345"), pf::Sym("frequency_modulation"), pf::Sym("A more \"complicated\" identifier!")}, false},
            {"range-int", "10 8 ... 2                % 10 8 6 4 2", false, {pf::I(10), pf::I(8), pf::I(6), pf::I(4), pf::I(2)}, false},
            {"range-float", "0.000 0.333 ... 1.000     % 0.000 0.333 0.667 1.000", false, {pf::Fl(0.0f), pf::Fl(0.333f), pf::Fl(0.666f), pf::Fl(0.999f)}, true},
            {"repeated-array", "3x[\"bad\" \"luck\"]          % [\"bad\" \"luck\"] [\"bad\" \"luck\"] [\"bad\" \"luck\"]", false, {pf::Arr({S("bad"), S("luck")}), pf::Arr({S("bad"), S("luck")}), pf::Arr({S("bad"), S("luck")})}, false},
            {"arrays", "[ \"Multiple\" \"strings\" ]\n[ 1 ... 5 ]", false, {pf::Arr({S("Multiple"), S("strings")}), pf::Arr({pf::I(1), pf::I(2), pf::I(3), pf::I(4), pf::I(5)})}, false},
            {"message-noteOn", "% expects three ints: channel, note and volume\n/noteOn 0 60 64", true, {pf::I(0), pf::I(60), pf::I(64)}, false},
            {"message-drawRectangle", "% expects side lengths, fill color, text inside the rectangle, and\n% whether a line should be drawn around the rectangle\n/drawRectangle 5f 2.4 #ff0000ff \"I am a\\nrectangle\" true", true,
             {pf::Fl(5.0f), pf::Fl(2.4f), pf::Col(0xff0000ffu), S("I am a\nrectangle"), pf::mk('T')}, false},
        };
        // endless ranges of the manual: [ 1 2 ... ]  [ 0.1 1 ... ]  [ 1 1 ... ]
        { PV a; a.k = 'a'; PV r; r.k = 'R'; r.el = {pf::I(2), pf::I(1)}; a.el = {pf::I(1), r}; vb.push_back({"array-endless-delta", "[ 1 2 ... ]               % 1 2 3 4 ...", false, {a}, false}); }
        { PV a; a.k = 'a'; PV r; r.k = 'R'; r.el = {pf::I(1)}; a.el = {pf::Fl(0.1f), r}; vb.push_back({"array-endless-mixed", "[ 0.1 1 ... ]             % 0.1 1 1 1 ...", false, {a}, false}); }
        { PV a; a.k = 'a'; PV r; r.k = 'R'; r.el = {pf::I(1)}; a.el = {pf::I(1), r}; vb.push_back({"array-endless-same", "[ 1 1 ... ]               % 1 1 1 1 1 ...", false, {a}, false}); }
        idx = 0;
        for(auto &e : vb) {
            uint64_t top = g_top++, my = idx++;
            if(g_stop || !vp::mine(top)) continue;
            std::string cid = "manual:" + std::to_string(my) + ":" + e.name;
            if(!vp::want(cid)) continue;
            vp::current_case() = cid; vp::state(); vp::eval();
            Verdict v;
            if(e.msg) {   // address differs per example: scan directly
                Scan s = scan_text(e.text, true, nullptr);
                v.c = s.c; v.detail = s.detail; size_t k;
                if(s.c == OK && !same_den(e.den, s.X, e.approx, &k)) { v.c = VALUE; v.detail = "value " + std::to_string(k) + " differs: scanned " + pf::show(s.X); }
            } else v = check_text(e.text, e.den, e.approx, 0, true);
            vp::trace();
            if(vp::replaying()) fprintf(stderr, "replay %s: verdict: %s %s\n", cid.c_str(), CLAUSE[v.c], v.detail.c_str());
            vp::outcome(std::string("manual|") + CLAUSE[v.c]);
            if(v.c != OK) vp::violation(std::string(CLAUSE[v.c]) + "|" + (e.msg ? "message" : "arg_vals") + "|manual-example:" + e.name, cid, v.detail + "; text=<" + vp::show(e.text) + ">; denotes " + pf::show(e.den));
        }
        if(!g_stop) g_done += "manual ";
    }
    // ---- long separators: a comment or a blank run of every length 1..LMAX between two values, alone and followed by a second comment line
    {
        const int LMAX = T ? 4000 : 1100;
        struct Base { const char *name, *left, *right; List den; };
        std::vector<Base> bases = {
            {"int,int", "1", "2", {pf::I(1), pf::I(2)}},
            {"string,char", "\"a\"", "'c'", {pf::Str("a"), pf::C('c')}},
            {"array,int", "[1 2]", "3", {pf::Arr({pf::I(1), pf::I(2)}), pf::I(3)}},
            {"range-abc,float", "1 2 ... 5", "0.5", {pf::I(1), pf::I(2), pf::I(3), pf::I(4), pf::I(5), pf::Fl(0.5f)}},
        };
        vp::bound("long_separators", "between two values: ' %' + L chars + newline; L blanks; the same followed by a second comment line; L = every 1.." + std::to_string(LMAX) + "; 4 value pairs; bare and behind an address");
        idx = 0;
        for(int L = 1; L <= LMAX; ++L) for(size_t b = 0; b < bases.size(); ++b) for(int form = 0; form < 3; ++form) for(int msg = 0; msg < 2; ++msg) {
            uint64_t top = g_top++, my = idx++;
            if(g_stop || !vp::mine(top)) continue;
            std::string cid = "longsep:" + std::to_string(my) + ":L" + std::to_string(L);
            if(!vp::want(cid)) continue;
            if((top & 0xff) == 0 && vp::deadline_passed()) { g_stop = true; vp::cap("deadline: stopped in family 'longsep' at L=" + std::to_string(L)); break; }
            vp::current_case() = cid; vp::state(); vp::eval(); vp::nontrivial(vp::fnv(cid));
            std::string sep = form == 1 ? std::string(L, ' ') : " %" + std::string(L, 'c') + "\n";
            if(form == 0 && L % 3 == 0) for(int k = 5; k < L; k += 11) sep[2 + k] = " [\"'%.x"[k % 7];     // syntax characters inside the comment
            if(form == 2) sep += "  % second line\n ";
            std::string text = std::string(bases[b].left) + sep + bases[b].right;
            Verdict v = check_text(text, bases[b].den, false, msg, false);
            vp::trace();
            if(vp::replaying()) fprintf(stderr, "replay %s: text=<%s> verdict: %s %s\n", cid.c_str(), vp::show(text).c_str(), CLAUSE[v.c], v.detail.c_str());
            vp::outcome(std::string("longsep|") + CLAUSE[v.c]);
            if(v.c != OK) vp::violation(std::string(CLAUSE[v.c]) + "|" + (msg ? "message" : "arg_vals") + "|" + bases[b].name + "+" + (form == 1 ? "long-blank-run" : form == 2 ? "long-comment+comment" : "long-comment") + "@between-values", cid,
                                        v.detail + "; separator of " + std::to_string(L) + " characters between <" + bases[b].left + "> and <" + bases[b].right + ">");
        }
        if(!g_stop) g_done += "longsep ";
    }
    // ---- time stamps with decimal fractions: every 1..3 digit fraction >= 2^-8, and 33-digit fractions just below / at / just above the
    // midpoint between two adjacent floats (a correctly rounded conversion must land on the nearer float; at the tie on the even one)
    {
        std::vector<std::string> fr;
        for(int d = 1; d <= 3; ++d) { int n = d == 1 ? 10 : d == 2 ? 100 : 1000; for(int k = 0; k < n; ++k) { char b[8]; snprintf(b, sizeof b, "%0*d", d, k); if(atof((std::string("0.") + b).c_str()) >= 0.00390625 || k == 0) fr.push_back(b); } }
        const size_t n_short = fr.size();
        auto dec33 = [](unsigned __int128 k) {       // k / 2^33 as 33 decimal digits (exact)
            unsigned __int128 p = 1; for(int i = 0; i < 33; ++i) p *= 5;
            unsigned __int128 v = k * p; std::string d(33, '0'); for(int i = 32; i >= 0; --i) { d[i] = (char)('0' + (int)(v % 10)); v /= 10; } return d; };
        for(float f : {0.5f, 0.75f, 0.1f, 0.3f, 0.99999994f, 0.00390625f, 0.6f, 0.2f}) {
            uint64_t a = (uint64_t)ldexp((double)f, 33), b = (uint64_t)ldexp((double)nextafterf(f, 1.0f), 33), m = (a + b) / 2;   // all exact: f >= 2^-8 has its bits above 2^-32
            fr.push_back(dec33(m)); { std::string x = dec33(m); x += "1"; fr.push_back(x); } { std::string x = dec33(m - 1); x += "9999"; fr.push_back(x); }
            fr.push_back(dec33(a)); fr.push_back(dec33(a).substr(0, 17));
        }
        vp::bound("time_fractions", std::to_string(n_short) + " fractions of 1..3 decimal digits (>= 2^-8) and " + std::to_string(fr.size() - n_short) + " long fractions at / next to the midpoint of two adjacent floats; denotation = the correctly rounded float (libc strtof) as a 32-bit fraction");
        idx = 0;
        for(auto &f : fr) for(int msg = 0; msg < 2; ++msg) {
            uint64_t top = g_top++, my = idx++;
            if(g_stop || !vp::mine(top)) continue;
            std::string cid = "timefrac:" + std::to_string(my);
            if(!vp::want(cid)) continue;
            vp::current_case() = cid; vp::state(); vp::eval(); vp::nontrivial(vp::fnv(cid));
            float want = strtof(("0." + f).c_str(), nullptr);
            if(!(want < 1.0f)) continue;                 // a fraction that rounds up to 1: not generated
            uint32_t sf = (uint32_t)(uint64_t)ldexp((double)want, 32);
            std::string text = "2016-11-16 19:44:06." + f;
            Verdict v = check_text(text, {pf::Tt(pf::utc_secs(2016, 11, 16, 19, 44, 6), sf)}, false, msg, false);
            vp::trace();
            if(vp::replaying()) fprintf(stderr, "replay %s: text=<%s> verdict: %s %s\n", cid.c_str(), text.c_str(), CLAUSE[v.c], v.detail.c_str());
            vp::outcome(std::string("timefrac|") + CLAUSE[v.c]);
            if(v.c != OK) vp::violation(std::string(CLAUSE[v.c]) + "|" + (msg ? "message" : "arg_vals") + "|t:date-fraction," + (f.size() <= 3 ? "short-decimal" : "long-decimal-near-float-midpoint"), cid, v.detail + "; text=<" + text + ">");
        }
        if(!g_stop) g_done += "timefrac ";
    }
    // ---- time stamps are local times: the same texts in a time zone with daylight saving time (denotation by the C library's own mktime with
    // tm_isdst = -1; dates in winter, in summer and on both sides of the two switches, away from the skipped and the repeated hour)
    {
        uint64_t top = g_top++;
        if(!g_stop && vp::mine(top)) {
            setenv("TZ", "CET-1CEST,M3.5.0,M10.5.0/3", 1); tzset();
            static const int D[][6] = {{2016, 1, 16, 19, 44, 6}, {2016, 7, 16, 19, 44, 6}, {2016, 7, 16, 0, 0, 0}, {2016, 3, 27, 1, 30, 0}, {2016, 3, 27, 3, 30, 0}, {2016, 10, 30, 1, 30, 0},
                                     {2016, 10, 30, 4, 30, 0}, {2016, 6, 30, 23, 59, 59}, {2037, 8, 1, 12, 0, 0}};
            idx = 0;
            for(auto &d : D) for(int form = 0; form < 2; ++form) {
                uint64_t my = idx++;
                std::string cid = "dst:" + std::to_string(my);
                if(!vp::want(cid)) continue;
                if(form == 1 && (d[3] || d[4] || d[5])) continue;            // the date-only spelling for midnight
                vp::current_case() = cid; vp::state(); vp::eval(); vp::nontrivial(vp::fnv(cid));
                struct tm tmv; memset(&tmv, 0, sizeof tmv); tmv.tm_year = d[0] - 1900; tmv.tm_mon = d[1] - 1; tmv.tm_mday = d[2]; tmv.tm_hour = d[3]; tmv.tm_min = d[4]; tmv.tm_sec = d[5]; tmv.tm_isdst = -1;
                time_t secs = mktime(&tmv);
                char text[64]; if(form) snprintf(text, sizeof text, "%04d-%02d-%02d", d[0], d[1], d[2]); else snprintf(text, sizeof text, "%04d-%02d-%02d %02d:%02d:%02d", d[0], d[1], d[2], d[3], d[4], d[5]);
                Verdict v = check_text(text, {pf::Tt((uint64_t)secs, 0)}, false, 0, true);
                vp::trace();
                if(vp::replaying()) fprintf(stderr, "replay %s: text=<%s> verdict: %s %s\n", cid.c_str(), text, CLAUSE[v.c], v.detail.c_str());
                vp::outcome(std::string("dst|") + CLAUSE[v.c]);
                if(v.c != OK) vp::violation(std::string(CLAUSE[v.c]) + "|arg_vals|t:date,time-zone-with-daylight-saving", cid, v.detail + "; text=<" + text + "> under TZ=CET-1CEST");
            }
            setenv("TZ", "UTC", 1); tzset();
            vp::bound("daylight_saving", "9 time stamps (winter, summer, around both switches) under TZ=CET-1CEST,M3.5.0,M10.5.0/3: scan, print, scan again");
        }
    }
    return vp::finish();
}
