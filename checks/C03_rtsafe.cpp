// C03 - realtime safety: once port tables and thread links exist, the message path never allocates,
// never frees, never takes a lock (and never writes to a stream). The allocator, the pthread lock
// entry points and write(2) are interposed (engine/interpose_alloc.cpp) and counted only inside a
// marked realtime section; everything the harness needs is built before the section is opened.
// The operations are driven over the exhaustive small-scope input families of C01/C04/C05/C06/C08/C14.
#include <rtosc/rtosc.h>
#include <rtosc/ports.h>
#include <rtosc/thread-link.h>
#include "common.h"
#include "oscgen.h"
#include "bundlegen.h"
#include "varcall.h"
#include "apps/gentree.h"
#include "apps/param_app.h"
#include <set>

namespace vp_rt { extern volatile int depth; extern volatile unsigned long n_alloc, n_free, n_lock, n_write; extern const char *volatile last_what; }

struct Section {
    unsigned long a0, f0, l0, w0;
    Section() { a0 = vp_rt::n_alloc; f0 = vp_rt::n_free; l0 = vp_rt::n_lock; w0 = vp_rt::n_write; vp_rt::depth = 1; }
    // returns "" if clean, else what was seen
    const char *close(unsigned long &na, unsigned long &nf, unsigned long &nl, unsigned long &nw)
    {
        vp_rt::depth = 0;
        na = vp_rt::n_alloc - a0; nf = vp_rt::n_free - f0; nl = vp_rt::n_lock - l0; nw = vp_rt::n_write - w0;
        return (na || nf || nl || nw) ? (const char *)vp_rt::last_what : "";
    }
};

static uint64_t g_sections = 0;
#define RT_BEGIN { Section vp_sec;
#define RT_END(site, shape, cid) unsigned long na, nf, nl, nw; const char *what = vp_sec.close(na, nf, nl, nw); ++g_sections; vp::transition(); vp::trace(); \
    if(*what) vp::violation(std::string(na || nf ? "heap-use-in-realtime-path" : nl ? "lock-in-realtime-path" : "stream-output-in-realtime-path") + "|" + site + "|" + shape, cid, \
        std::string("inside the realtime section: ") + std::to_string(na) + " allocations, " + std::to_string(nf) + " frees, " + std::to_string(nl) + " lock calls, " + std::to_string(nw) + " write() calls; last: " + what); }

static char g_buf[16384];
static char g_buf2[16384];
static char g_loc[512];

// (a) messages and bundles -----------------------------------------------------------------------------
static void part_messages(uint64_t &top)
{
    using namespace varcall;
    std::vector<std::string> types; gen::type_strings(std::string(gen::VALUE_TAGS) + "[]", 0, vp::thorough() ? 4 : 3, types);
    for(size_t ti = 0; ti < types.size(); ++ti, ++top) {
        if(!vp::mine(top)) continue;
        const std::string &ts = types[ti];
        auto vecs = gen::value_vectors(ts, false, vp::thorough() ? 2 : 1);
        for(size_t v = 0; v < vecs.size(); ++v) for(size_t al : {size_t(1), size_t(2 + v % 3), size_t(8)}) {
            std::string addr = gen::address(al);
            std::string cid = "msg|a" + std::to_string(al) + "|" + ts + "|v" + std::to_string(v);
            if(!vp::want(cid)) continue;
            std::vector<rtosc_arg_t> ra; for(auto &a : vecs[v]) ra.push_back(gen::to_rtosc(a));
            CArg c[64]; bool snan; int n = flatten(ts, vecs[v], c, snan);
            const char *A = addr.c_str(), *TS = ts.c_str();
            size_t ntags = 0; for(char t : ts) if(t != '[' && t != ']') ++ntags;
            vp::state(); vp::eval(); vp::nontrivial(vp::fnv(cid));
            volatile size_t sink = 0;
            RT_BEGIN
                size_t len = rtosc_amessage(g_buf, sizeof g_buf, A, TS, ra.data());
                sink += rtosc_amessage(nullptr, 0, A, TS, ra.data());
                sink += rtosc_amessage(g_buf2, 8, A, TS, ra.data());          // too small: fails closed
                if(!snan && n <= 4) sink += call_varargs(g_buf2, sizeof g_buf2, A, TS, c, n);
                if(!snan) sink += call_valist(g_buf2, sizeof g_buf2, A, TS, c, n);
                sink += rtosc_message_length(g_buf, len);
                sink += rtosc_valid_message_p(g_buf, len);
                sink += (size_t)rtosc_argument_string(g_buf)[0];
                sink += rtosc_narguments(g_buf);
                for(size_t i = 0; i < ntags; ++i) { sink += (size_t)rtosc_type(g_buf, (unsigned)i); rtosc_arg_t x = rtosc_argument(g_buf, (unsigned)i); sink += (size_t)x.i; }
                rtosc_arg_itr_t it = rtosc_itr_begin(g_buf);
                while(!rtosc_itr_end(it)) { rtosc_arg_val_t av = rtosc_itr_next(&it); sink += (size_t)av.type; }
                sink += rtosc_bundle_p(g_buf);
            RT_END("message-build-measure-read", (ts.find('b') != std::string::npos ? "blob" : ts.find('s') != std::string::npos || ts.find('S') != std::string::npos ? "string" : "fixed"), cid)
            vp::outcome("messages: build+measure+read");
        }
    }
    // messages with many arguments (more than 32, 64, 128 payload-carrying arguments)
    for(size_t nargs : {31u, 32u, 33u, 40u, 65u, 130u}) for(char tag : {'i', 'h', 's', 'b', 'T'}) {
        if(!vp::mine(top++)) continue;
        std::string ts(nargs, tag); if(tag != 'T') ts[nargs / 2] = 'T';
        std::string cid = "many|" + std::to_string(nargs) + tag;
        if(!vp::want(cid)) continue;
        std::vector<ref::Arg> args; for(char t : ts) if(ref::has_data(t)) { ref::Arg a; a.type = t; a.u32 = 7; a.u64 = 7; a.s = "xy"; a.b = {1, 2, 3}; a.b_len = 3; args.push_back(a); }
        std::vector<rtosc_arg_t> ra; for(auto &a : args) ra.push_back(gen::to_rtosc(a));
        static CArg c[512]; bool snan; int n = flatten(ts, args, c, snan);
        const char *TS = ts.c_str();
        rtosc::ThreadLink tl(8192, 2);
        struct Sink : rtosc::RtData { void reply(const char *) override {} void broadcast(const char *) override {} using rtosc::RtData::reply; using rtosc::RtData::broadcast; } sinkd;
        vp::state(); vp::eval(); vp::nontrivial(vp::fnv(cid));
        volatile size_t sink = 0;
        RT_BEGIN
            size_t len = rtosc_amessage(g_buf, sizeof g_buf, "/many", TS, ra.data());
            sink += call_valist(g_buf2, sizeof g_buf2, "/many", TS, c, n);
            sink += call_valist(nullptr, 0, "/many", TS, c, n);
            sink += rtosc_message_length(g_buf, len); sink += rtosc_narguments(g_buf);
            rtosc_arg_itr_t it = rtosc_itr_begin(g_buf); while(!rtosc_itr_end(it)) { rtosc_arg_val_t av = rtosc_itr_next(&it); sink += (size_t)av.type; }
            sink += (size_t)rtosc_argument(g_buf, (unsigned)nargs - 1).i;
            tl.raw_write(g_buf); if(tl.hasNext()) sink += (size_t)tl.read()[1];
        RT_END("message-build-measure-read", "many-arguments", cid)
        vp::outcome("messages with 31..130 arguments");
    }
    // bundles
    auto alph = bgen::alphabet(vp::thorough() ? 3 : 2);
    std::vector<std::string> mem; for(auto &e : alph) { std::string m = e.bytes; m.append(16, '\0'); mem.push_back(m); }
    std::vector<std::vector<int>> seqs; bgen::sequences(alph.size(), 0, vp::thorough() ? 4 : 3, seqs);
    for(size_t si = 0; si < seqs.size(); ++si, ++top) {
        if(!vp::mine(top)) continue;
        std::string cid = "bundle|s"; for(int i : seqs[si]) cid += std::to_string(i) + ".";
        if(!vp::want(cid)) continue;
        std::vector<const char *> ptrs; for(int i : seqs[si]) ptrs.push_back(mem[i].data());
        vp::state(); vp::eval(); vp::nontrivial(vp::fnv(cid));
        volatile size_t sink = 0;
        RT_BEGIN
            size_t len = varcall::call_bundle(g_buf, sizeof g_buf, 0x0102030405060708ull, ptrs);
            sink += varcall::call_bundle(g_buf2, 12, 1, ptrs);
            sink += rtosc_message_length(g_buf, len);
            sink += rtosc_bundle_p(g_buf);
            size_t ne = rtosc_bundle_elements(g_buf, len);
            for(size_t i = 0; i < ne; ++i) { sink += (size_t)rtosc_bundle_fetch(g_buf, (unsigned)i)[0]; sink += rtosc_bundle_size(g_buf, (unsigned)i); }
            sink += (size_t)rtosc_bundle_timetag(g_buf);
        RT_END("bundle-build-measure-read", "bundle", cid)
        vp::outcome("bundles: build+measure+read");
    }
}

// (b) pattern matching ---------------------------------------------------------------------------------
static std::string mk_msg(const std::string &addr, const char *types)
{
    std::string m = addr; m.append(4 - addr.size() % 4, '\0'); std::string t = std::string(",") + types; m += t; m.append(4 - t.size() % 4, '\0');
    for(const char *p = types; *p; ++p) { if(strchr("ifcrm", *p)) m.append(4, '\1'); else if(strchr("htd", *p)) m.append(8, '\1'); else if(*p == 's' || *p == 'S') m.append("ab\0\0", 4); else if(*p == 'b') m.append("\0\0\0\2xy\0\0", 8); }
    return m;
}
static void part_match(uint64_t &top)
{
    static const char *PATS[] = {"a", "ab", "a#2", "b#10", "#12", "{a,b}", "{a,ab}", "{ab,a}", "{a,ab,aa}", "a/b", "b/", "a#2/b", "ab/:i", "a::i:f", "a:T:F", "{a,b}#3/c:ii", "a*", "*"};
    static const char ALPHA[] = "abc/0129#{,";
    std::vector<std::string> addrs = {""}; { std::vector<std::string> cur = {""}; for(int l = 1; l <= 3; ++l) { std::vector<std::string> nx; for(auto &s : cur) for(const char *c = ALPHA; *c; ++c) nx.push_back(s + *c); addrs.insert(addrs.end(), nx.begin(), nx.end()); cur.swap(nx); } }
    static const char *TY[] = {"", "i", "f", "ii", "T", "s"};
    std::vector<std::string> msgs; for(auto &a : addrs) for(const char *t : TY) msgs.push_back(mk_msg(a, t));
    for(const char *pat : PATS) {
        if(!vp::mine(top++)) continue;
        std::string cid = std::string("match|") + pat;
        if(!vp::want(cid)) continue;
        vp::state(); vp::eval(msgs.size()); vp::nontrivial(vp::fnv(cid));
        volatile size_t sink = 0;
        RT_BEGIN
            for(auto &m : msgs) { const char *e = nullptr; sink += rtosc_match(pat, m.data(), &e); sink += rtosc_match_path(pat, m.data(), nullptr) != nullptr; }
        RT_END("rtosc_match", "pattern", cid)
        vp::outcome("rtosc_match over all addresses up to length 3");
    }
}

// (c) dispatch through generated port trees -----------------------------------------------------------------
static void derive(gt::Node &n, const std::string &prefix, std::set<std::string> &out)
{
    for(auto &p : n.ports) {
        std::string path = refmatch::split(p.name).path;
        std::vector<std::string> sp;
        size_t h = path.find('#');
        if(h == std::string::npos) sp.push_back(path);
        else { size_t e = h + 1; while(e < path.size() && isdigit((unsigned char)path[e])) ++e; int N = atoi(path.substr(h + 1).c_str()); for(int i : {0, N - 1, N, 100}) sp.push_back(path.substr(0, h) + std::to_string(i) + path.substr(e)); }
        for(auto &s : sp) { out.insert(prefix + s); if(p.child) derive(*p.child, prefix + s, out); }
    }
}
static void part_dispatch(uint64_t &top)
{
    static const char *U[] = {"a", "ab", "abc", "acb", "b#3", "c/d", "s/", "t#2/", "ab/", "a_port_name_of_more_than_16_chars", "a_port_name_of_more_than_16_charz/", "b", "ba", "u#12/", "abcd"};
    const int NU = vp::thorough() ? 15 : 11;
    for(uint32_t mask = 1; mask < (1u << NU); ++mask) for(int variant = 0; variant < 2; ++variant) for(int dh = 0; dh < 2; ++dh, ++top) {
        if(!vp::mine(top)) continue;
        std::string cid = "dispatch|m" + std::to_string(mask) + "|v" + std::to_string(variant) + "|d" + std::to_string(dh);
        if(!vp::want(cid)) continue;
        auto root = std::make_shared<gt::Node>();
        for(int i = 0; i < NU; ++i) if(mask & (1u << i)) {
            gt::PortDesc p; p.name = U[i];
            if(p.name.back() == '/') { auto ch = std::make_shared<gt::Node>(); ch->ports.push_back(gt::PortDesc{"x", nullptr}); ch->ports.push_back(gt::PortDesc{"y#2:i", nullptr}); auto gc = std::make_shared<gt::Node>(); gc->ports.push_back(gt::PortDesc{"q", nullptr}); ch->ports.push_back(gt::PortDesc{"z/", gc}); ch->default_handler = dh; p.child = ch; }
            else if(variant == 1) p.name += (i % 2) ? ":i" : "::i:f";
            root->ports.push_back(p);
        }
        root->default_handler = dh;
        root->fat_callbacks = (mask % 3) == 0;       // a third of the tables: callbacks with a closure that std::function keeps on the heap
        int np = 0, nn = 0; gt::build(*root, np, nn);
        std::set<std::string> base; derive(*root, "", base);
        std::vector<std::string> msgs;
        for(auto &a : base) {
            for(const char *t : {"", "i", "f", "s"}) { msgs.push_back(mk_msg("/" + a, t)); }
            msgs.push_back(mk_msg("/" + a + "x", "")); msgs.push_back(mk_msg("/" + a + "/", "")); if(!a.empty()) msgs.push_back(mk_msg("/" + a.substr(0, a.size() - 1), "i"));
        }
        msgs.push_back(mk_msg("/", "")); msgs.push_back(mk_msg("/nothing/here", "ii"));
        { std::string longaddr = "/"; longaddr.append(200, 'n'); msgs.push_back(mk_msg(longaddr, "")); }     // oversized, matches nothing
        gt::R().record = false;
        vp::state(); vp::eval(msgs.size()); vp::nontrivial(vp::fnv(cid));
        RT_BEGIN
            for(auto &m : msgs) {
                rtosc::RtData d; d.obj = &root->obj_tag;
                root->built->dispatch(m.data(), d, true);
                rtosc::RtData e; e.obj = &root->obj_tag; e.loc = g_loc; e.loc_size = sizeof g_loc; g_loc[0] = 0;
                root->built->dispatch(m.data(), e, true);
                memset(g_loc, 0, 8);
                rtosc::RtData f; f.obj = &root->obj_tag; f.loc = g_loc; f.loc_size = sizeof g_loc;
                root->built->dispatch(m.data() + 1, f, false);
            }
        RT_END("Ports::dispatch", (mask & 0xB0 ? "table-with-#-or-multi-component(linear)" : "table-without-#(hash-attempted)"), cid)
        gt::R().record = true;
        vp::outcome(std::string("dispatch: ") + (dh ? "default handler" : "no default handler"));
    }
}

// (d) the library's own parameter-port callbacks with default reply/broadcast forwarding -------------------------
struct Walked { std::vector<std::string> addrs; };
static void collect(const rtosc::Port *, const char *name, const char *, const rtosc::Ports &, void *data, void *) { ((Walked *)data)->addrs.push_back(name); }
static void part_params(uint64_t &top)
{
    papp::App app; papp::init_app(app);
    Walked w; char nb[1024]; memset(nb, 0, sizeof nb);
    rtosc::walk_ports(&papp::App::ports, nb, sizeof nb, &w, collect, true, nullptr, false);
    static const char *TY[] = {"", "i", "f", "c", "T", "F", "s", "S", "ii", "if", "h", "b"};
    for(size_t ai = 0; ai < w.addrs.size(); ++ai, ++top) {
        if(!vp::mine(top)) continue;
        std::string cid = "param|" + w.addrs[ai];
        if(!vp::want(cid)) continue;
        std::vector<std::string> msgs;
        for(const char *t : TY) msgs.push_back(mk_msg(w.addrs[ai], t));
        // set in range / out of range for numeric kinds
        for(int v : {0, 5, -100000, 100000}) { std::string m = mk_msg(w.addrs[ai], "i"); size_t off = m.size() - 4; m[off] = (char)(v >> 24); m[off + 1] = (char)(v >> 16); m[off + 2] = (char)(v >> 8); m[off + 3] = (char)v; msgs.push_back(m); }
        for(float fv : {0.25f, -1e9f, 1e9f}) { std::string m = mk_msg(w.addrs[ai], "f"); uint32_t u; memcpy(&u, &fv, 4); size_t off = m.size() - 4; m[off] = (char)(u >> 24); m[off + 1] = (char)(u >> 16); m[off + 2] = (char)(u >> 8); m[off + 3] = (char)u; msgs.push_back(m); }
        msgs.push_back(mk_msg(w.addrs[ai] + "x", "i")); msgs.push_back(mk_msg(w.addrs[ai] + "/zzz", ""));
        // strings that look like numbers (in and beyond the int range, negative, with a sign, empty) as s and S arguments
        for(const char *txt : {"0", "1", "2147483647", "2147483648", "4294967296", "99999999999999999999", "-1", "-2147483649", "+5", "", "1e99", "0x7fffffffffffffff"})
            for(char tag : {'s', 'S'}) { std::string m = w.addrs[ai]; m.append(4 - m.size() % 4, '\0'); m += ','; m += tag; m.append(2, '\0'); m += txt; m.append(4 - strlen(txt) % 4, '\0'); msgs.push_back(m); }
        // an index written with so many digits that it only fits modulo 2^32 / 2^64 (array and enumerated ports; a no-op elsewhere)
        { std::string a = w.addrs[ai]; size_t e = a.size(); while(e > 0 && isdigit((unsigned char)a[e - 1])) --e;
          if(e < a.size()) for(const char *ix : {"4294967296", "4294967297", "18446744073709551616", "2147483648", "00000000000000000000"}) { msgs.push_back(mk_msg(a.substr(0, e) + ix, "")); msgs.push_back(mk_msg(a.substr(0, e) + ix, "i")); } }
        vp::state(); vp::eval(msgs.size()); vp::nontrivial(vp::fnv(cid));
        RT_BEGIN
            for(auto &m : msgs) {
                rtosc::RtData d; d.obj = &app; d.loc = g_loc; d.loc_size = sizeof g_loc; g_loc[0] = 0;
                papp::App::ports.dispatch(m.data(), d, true);   // (the macro callbacks reply at d.loc: a location buffer is required)
            }
        RT_END("macro-port-callbacks", "port-sugar", cid)
        vp::outcome("parameter ports: query/set/out-of-range/wrong-type/unknown");
    }
}

// (d2) default reply/broadcast forwarding with answers of every size class, including ones that do not fit the
//      forwarding buffer (they must fail closed, not fall back to the heap)
static void part_reply(uint64_t &top)
{
    struct Sink : rtosc::RtData { unsigned long n = 0; void reply(const char *m) override { n += (unsigned char)m[0]; } void broadcast(const char *m) override { n += (unsigned char)m[0]; } using rtosc::RtData::reply; using rtosc::RtData::broadcast; };
    for(size_t len : {0u, 1u, 15u, 16u, 255u, 1024u, 8000u, 8176u, 8184u, 8192u, 9000u, 20000u, 70000u}) {
        if(!vp::mine(top++)) continue;
        std::string cid = "reply|strlen" + std::to_string(len);
        if(!vp::want(cid)) continue;
        std::string big(len, 'r'); std::vector<unsigned char> blob(len ? len : 1, 7);
        Sink d;
        vp::state(); vp::eval(); vp::nontrivial(vp::fnv(cid));
        RT_BEGIN
            d.reply("/answer", "s", big.c_str());
            d.broadcast("/answer", "s", big.c_str());
            d.reply("/answer", "isb", 7, big.c_str(), (int)len, blob.data());
            d.broadcast("/answer", "b", (int)len, blob.data());
            d.reply("/answer", "");
        RT_END("RtData::reply/broadcast", (len + 16 > 8192 ? "answer-exceeds-forwarding-buffer" : "answer-fits"), cid)
        vp::outcome("default reply/broadcast forwarding, answers up to 70000 bytes");
    }
}

// (e) ThreadLink ------------------------------------------------------------------------------------------------
static void part_threadlink(uint64_t &top)
{
    for(size_t mm : {16, 32}) for(size_t nm : {2, 3}) for(int pre = 0; pre <= 3; ++pre, ++top) {
        if(!vp::mine(top)) continue;
        std::string cid = "threadlink|" + std::to_string(mm) + "x" + std::to_string(nm) + "|pre" + std::to_string(pre);
        if(!vp::want(cid)) continue;
        rtosc::ThreadLink tl(mm, nm);
        std::string big(mm + 8, 'z'); std::string raw = mk_msg("/r", "i"); std::string rawbig = mk_msg("/r" + big, "");
        rtosc_arg_t a; a.i = 7;
        vp::state(); vp::eval(); vp::nontrivial(vp::fnv(cid));
        volatile size_t sink = 0;
        RT_BEGIN
            for(int k = 0; k < pre; ++k) tl.write("/p", "i", k);                  // until full
            for(int round = 0; round < 6; ++round) {
                tl.write("/a", "i", round); tl.write("/s", "s", big.c_str());      // oversized: dropped
                tl.writeArray("/w", "i", &a); tl.raw_write(raw.c_str()); tl.raw_write(rawbig.c_str());
                while(tl.hasNextLookahead()) sink += (size_t)tl.read_lookahead()[1];
                if(tl.hasNext()) sink += (size_t)tl.read()[1];
                if(round % 2 && tl.hasNext()) sink += (size_t)tl.read()[1];
                sink += (size_t)tl.peak()[0];
            }
            while(tl.hasNext()) sink += (size_t)tl.read()[1];
        RT_END("ThreadLink", "write-read-lookahead", cid)
        vp::outcome("ThreadLink: full/empty/wrapped/oversized");
    }
}

#include <set>
int main(int argc, char **argv)
{
    vp::init(argc, argv, "C03");
    uint64_t top = 0;
    // self-test of the instrumentation: an allocation inside a section must be seen
    {
        unsigned long na, nf, nl, nw; Section s; void *volatile p = malloc(16); memset(p, 1, 16); free(p); s.close(na, nf, nl, nw);
        if(na != 1 || nf != 1) { fprintf(stderr, "harness: allocator interposition is not effective (saw %lu/%lu)\n", na, nf); return 3; }
        Section s2; { std::string *volatile x = new std::string(100, 'x'); delete x; } s2.close(na, nf, nl, nw);
        if(na < 2 || nf < 2) { fprintf(stderr, "harness: operator new interposition is not effective\n"); return 3; }
        pthread_mutex_t m = PTHREAD_MUTEX_INITIALIZER; Section s3; pthread_mutex_lock(&m); pthread_mutex_unlock(&m); s3.close(na, nf, nl, nw);
        if(nl != 1) { fprintf(stderr, "harness: pthread_mutex_lock interposition is not effective\n"); return 3; }
    }
    part_messages(top);
    part_match(top);
    part_dispatch(top);
    part_params(top);
    part_reply(top);
    part_threadlink(top);
    if(vp::thorough()) vp::bound("thorough_extension", "type strings of length 0..4 over 17 symbols with two value rotations; bundles of 0..4 elements (nesting <= 3); dispatch over all 32767 subsets of a 15-name universe");
    vp::bound("families", "messages: all well-nested type strings of length 0..3 over 17 symbols x each-used values x 3 address lengths, built by amessage/message/vmessage and read by every accessor; bundles: all sequences of 0..3 elements (nesting <= 2); rtosc_match: 18 patterns x all addresses up to length 3 x 6 type strings; dispatch: all 2047 subsets of an 11-name universe (incl. names longer than the small-string buffer, callbacks with large closures) (hashed, linear, #N, multi-component, nested 3 levels) x specs x default handler x derived matching/non-matching/oversized messages x 3 dispatch modes; every port of the C14 application x 12 type strings, in/out of range values, unknown addresses; ThreadLink 16/32 x 2/3 with 0..3 pre-filled messages");
    vp::outcome("realtime sections checked", g_sections);
    vp::sample("RT section: rtosc_amessage + varargs + accessors for address '/a', types 'sbh'");
    vp::sample("RT section: Ports::dispatch of 40 derived messages on table {a, ab, b#3, s/ -> {x, y#2:i, z/ -> {q}}} with default handler");
    return vp::finish();
}
