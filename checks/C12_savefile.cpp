// C12 - savefiles restore the saved state and contain only differences from defaults.
//
// Space: every state of five macro-built applications (apps/save_apps.h) reachable by bounded sequences of
// parameter messages from the default-constructed instance (explicit-state BFS over real objects, see
// apps/save_common.h). Per state: save_to_file -> text parsed by the harness -> minimality oracle computed from
// the hand-written application description (never from get_default_value) -> load_from_file into a fresh
// instance -> count and state compared; negative files derived from the state's own file must be rejected.
//
// Don't-care zones (the statement is silent): the exact spelling of a value inside a line; the exact negative
// number of a rejection; the state of the instance after a rejected load; fields of disabled / null sub-trees
// (the Guide says such sub-trees are omitted); floats -0.0 / NaN (not generated).
#include "apps/save_common.h"

using namespace sv;

template <class App> struct Neg { static const char *int_port(); static const char *index_beyond(); static const char *below(); static const char *below_typed(); };
// a line addressing something below an existing port / sub-tree that no port accepts, and one with an argument no port there takes
template <> const char *Neg<sapp::Flat>::below() { return "/pi/bogus 1"; }
template <> const char *Neg<sapp::Flat>::below_typed() { return "/ai0/x 1"; }
template <> const char *Neg<sapp::Preset>::below() { return "/vol/bogus 1"; }
template <> const char *Neg<sapp::Preset>::below_typed() { return "/arr0/x 1"; }
template <> const char *Neg<sapp::Tree>::below() { return "/a/bogus 1"; }
template <> const char *Neg<sapp::Tree>::below_typed() { return "/v1/x 0.5"; }
template <> const char *Neg<sapp::Flat>::int_port() { return "/pi"; }
template <> const char *Neg<sapp::Synth>::below() { return "/volume/bogus 1"; }
template <> const char *Neg<sapp::Synth>::below_typed() { return "/osc/x 0.5"; }
template <> const char *Neg<sapp::Synth>::int_port() { return "/volume"; }
template <> const char *Neg<sapp::Synth>::index_beyond() { return "/osc1/x 1"; }
template <> const char *Neg<sapp::IntSw>::below() { return "/fxtype/bogus 1"; }
template <> const char *Neg<sapp::IntSw>::below_typed() { return "/fx/x 0.5"; }
template <> const char *Neg<sapp::IntSw>::int_port() { return "/fxtype"; }
template <> const char *Neg<sapp::IntSw>::index_beyond() { return "/fx1/x 1"; }
template <> const char *Neg<sapp::Big>::below() { return "/text/bogus 1"; }
template <> const char *Neg<sapp::Big>::below_typed() { return "/big0/x 1"; }
template <> const char *Neg<sapp::Big>::int_port() { return "/big3"; }
template <> const char *Neg<sapp::Big>::index_beyond() { return "/big12 1"; }
template <> const char *Neg<sapp::Flat>::index_beyond() { return "/ai4 1"; }
template <> const char *Neg<sapp::Preset>::int_port() { return "/vol"; }
template <> const char *Neg<sapp::Preset>::index_beyond() { return "/arr4 1"; }
template <> const char *Neg<sapp::Tree>::int_port() { return "/top"; }
template <> const char *Neg<sapp::Tree>::index_beyond() { return "/v3/x 1"; }

static std::string pos_class(size_t pos, size_t n) { return n == 0 ? "only" : pos == 0 ? "first" : pos == n ? "last" : "middle"; }

template <class App> const sapp::Param<App> *find_param(const Space<App> &S, const std::string &path)
{
    for(auto &p : S.desc) if(p.path == path) return &p;
    return nullptr;
}

// which single lines of an own savefile are rejected when loaded alone: narrows the signature of a rejection
template <class App> std::set<std::string> culprit_kinds(const Space<App> &S, const File &f)
{
    std::set<std::string> kinds;
    for(size_t i = 0; i < f.msgs.size(); ++i) {
        App fresh;
        mark(vp::current_case(), "load-single-line", f.header + f.msgs[i]);
        int r = load(fresh, f.header + f.msgs[i]);
        vp::transition();
        if(r != 1) { auto *p = find_param(S, f.paths[i]); kinds.insert((p ? p->kind : "unknown-path") + line_shape(f.msgs[i])); }
    }
    if(kinds.empty()) kinds.insert("only-in-combination");
    return kinds;
}

template <class App> void check_state(const Space<App> &S, const Hist &h, bool full_negatives, uint64_t rot, size_t state_index)
{
    const std::string sid = std::string(App::name()) + "|" + Space<App>::hist_id(h);
    mark(sid + "|save", "save", "");
    App inst;
    S.replay(inst, h);
    if(state_index != (size_t)-1) S.verify(inst, state_index);
    const std::string want_obs = inst.observable();
    const std::string text = save(inst);
    vp::transition();
    if(inst.canon() != [&] { App again; S.replay(again, h); return again.canon(); }()) {
        vp::violation("save-modifies-state|save_to_file|" + std::string(App::name()), sid + "|save", "the canon of the instance changed while saving");
    }
    File f = parse_file(text, App::name());
    size_t n = f.msgs.size();
    std::set<std::string> flagged_kinds;

    // ---- text: header, minimality ------------------------------------------------------------------
    if(vp::want(sid + "|save")) {
        vp::eval();
        if(!f.header_ok) {
            vp::violation("file-shape|save_to_file|" + std::string(App::name()), sid + "|save", f.why + "; file: " + vp::show(text.substr(0, 300)));
        } else {
            std::map<std::string, int> seen;
            for(auto &p : f.paths) seen[p]++;
            for(auto &kv : seen) {
                auto *p = find_param(S, kv.first);
                if(!p) vp::violation("unknown-line|save_to_file|" + std::string(App::name()), sid + "|save", "line for a path that is no parameter: " + kv.first);
                else if(kv.second > 1) { vp::violation("duplicate-line|save_to_file|" + p->kind, sid + "|save", "two lines for " + kv.first); flagged_kinds.insert(p->kind); }
            }
            for(auto &p : S.desc) {
                bool live = p.live(inst);
                bool differs = live && p.value(inst) != p.deflt(inst);
                bool present = seen.count(p.path) > 0;
                if(differs && !present) {
                    vp::violation("minimality-missing|save_to_file|" + p.kind, sid + "|save", p.path + " = " + p.value(inst) + " differs from its default " + p.deflt(inst) + " but has no line; file: " + vp::show(text.substr(f.header.size(), 400)));
                    flagged_kinds.insert(p.kind);
                } else if(!differs && present) {
                    std::string why = !live ? "lives in a disabled or null sub-tree" : "= " + p.value(inst) + " equals its default";
                    vp::violation(std::string(live ? "minimality-superfluous" : "omitted-subtree-saved") + "|save_to_file|" + p.kind, sid + "|save",
                                  p.path + " " + why + " but has a line; file: " + vp::show(text.substr(f.header.size(), 400)));
                    flagged_kinds.insert(p.kind);
                }
            }
            if(h.empty() && text != f.header)
                vp::violation("untouched-not-header-only|save_to_file|" + std::string(App::name()), sid + "|save", "untouched application saved: " + vp::show(text));
            vp::outcome(std::string(App::name()) + ":lines=" + std::to_string(n));
            if(n) vp::nontrivial(vp::fnv(inst.canon()));
            if(n >= 3) vp::sample(S.show(h) + "  =>  " + vp::show(text.substr(f.header.size(), 300)), 6);
        }
    }
    if(!f.header_ok) return;

    // ---- round trip --------------------------------------------------------------------------------
    if(vp::want(sid + "|load")) {
        vp::eval();
        App fresh;
        mark(sid + "|load", "load", text);
        int r = load(fresh, text);
        vp::transition();
        if(r != (int)n) {
            if(r < 0) { for(auto &k : culprit_kinds(S, f)) vp::violation("own-savefile-rejected|load_from_file|" + k, sid + "|load", "load_from_file returned " + std::to_string(r) + " for the application's own savefile: " + vp::show(text.substr(f.header.size(), 400))); }
            else vp::violation("load-count|load_from_file|" + std::string(App::name()), sid + "|load", "returned " + std::to_string(r) + ", file has " + std::to_string(n) + " message lines: " + vp::show(text.substr(f.header.size(), 400)));
            vp::outcome(std::string(App::name()) + (r < 0 ? ":own-file-rejected" : ":count-differs"));
        }
        if(r >= 0) {
            std::string got = fresh.observable();
            if(got != want_obs) {
                bool any = false;
                for(auto &p : S.desc) {
                    bool l1 = p.live(inst), l2 = p.live(fresh);
                    if(l1 != l2 || (l1 && p.value(inst) != p.value(fresh))) {
                        any = true;
                        if(flagged_kinds.count(p.kind)) continue;   // already reported as a minimality violation of this state
                        vp::violation("roundtrip-state|load_from_file|" + p.kind, sid + "|load",
                                      p.path + ": saved state has " + (l1 ? p.value(inst) : "(not live)") + ", loaded state has " + (l2 ? p.value(fresh) : "(not live)") + "; file: " + vp::show(text.substr(f.header.size(), 400)));
                    }
                }
                if(!any) vp::violation("roundtrip-state|load_from_file|other-field", sid + "|load", "saved: " + want_obs + " loaded: " + got);
                vp::outcome(std::string(App::name()) + ":state-differs");
            } else if(r == (int)n) vp::outcome(std::string(App::name()) + ":roundtrip-ok");
        }
        vp::trace();
    }

    // ---- negative files ----------------------------------------------------------------------------
    auto expect_reject = [&](const std::string &sub, const std::string &sig, const std::string &file) {
        if(!vp::want(sid + "|" + sub)) return;
        vp::eval();
        App fresh;
        mark(sid + "|" + sub, sig.c_str(), file);
        int r = load(fresh, file);
        vp::transition();
        if(r >= 0) vp::violation(sig, sid + "|" + sub, "load_from_file returned " + std::to_string(r) + " for: " + vp::show(file.substr(0, 500)));
        vp::outcome(std::string("neg:") + sig.substr(0, sig.find('|')) + (r < 0 ? ":rejected" : ":ACCEPTED"));
    };
    const std::string an = appname(App::name());
    size_t nl = f.header.find('\n');
    const std::string h1 = f.header.substr(0, nl + 1), h2 = f.header.substr(nl + 1);
    const std::string body = text.substr(f.header.size());
    expect_reject("neg:header:not-rtosc", "reject-wrong-header|load_from_file|first-line-not-RT-OSC", "% NOT AN RT OSC v0.0.1 savefile\n" + h2 + body);
    expect_reject("neg:header:missing", "reject-wrong-header|load_from_file|first-line-missing", h2 + body);
    auto app_line = [&](const std::string &name) { std::string l = h2; l.replace(2, an.size(), name); return l; };
    expect_reject("neg:app:other", "reject-other-application|load_from_file|unrelated-name", h1 + app_line("another_application") + body);
    expect_reject("neg:app:longer", "reject-other-application|load_from_file|name-extends-ours", h1 + app_line(an + "x") + body);
    expect_reject("neg:app:shorter", "reject-other-application|load_from_file|name-is-prefix-of-ours", h1 + app_line(an.substr(0, an.size() - 1)) + body);

    const std::string ip = Neg<App>::int_port();
    struct Form { const char *cls, *name; std::string line; };
    const Form forms[] = {
        {"reject-unparsable", "dollar-argument", ip + " $1"},
        {"reject-unparsable", "unterminated-string", ip + " \"unterminated"},
        {"reject-unparsable", "no-leading-slash", "$$$ no address"},
        {"reject-unaccepted", "no-such-port", "/no_such_port 1"},
        {"reject-unaccepted", "argument-type-no-port-takes", ip + " 0.5"},
        {"reject-unaccepted", "index-beyond-array", Neg<App>::index_beyond()},
        {"reject-unaccepted", "no-such-port-below-existing-port", Neg<App>::below()},
        {"reject-unaccepted", "wrong-argument-type-below-sub-tree", Neg<App>::below_typed()},
    };
    const size_t NF = sizeof forms / sizeof forms[0];
    for(size_t k = 0; k < NF; ++k) {
        if(!full_negatives && !vp::replaying() && k != rot % NF) continue;
        for(size_t pos = 0; pos <= n; ++pos) {
            std::vector<std::string> m = f.msgs;
            m.insert(m.begin() + pos, forms[k].line);
            expect_reject(std::string("neg:") + forms[k].name + "@" + std::to_string(pos),
                          std::string(forms[k].cls) + "|load_from_file|" + forms[k].name + "@" + pos_class(pos, n), join(f.header, m));
        }
    }
}

static uint64_t g_index = 0;

// supervisor side: name the class of a crash. For the application's own savefile every line is tried alone in
// a forked probe, so that the signature names the parameter kinds whose lines crash the loader.
template <class App> std::string crash_signature(const Space<App> &S, const Mark &m)
{
    std::string phase = m.phase, text(m.text, m.text_len);
    if(phase == "save") return std::string("crash|save_to_file|") + App::name();
    if(phase == "load" || phase == "load-single-line") {
        File f = parse_file(text, App::name());
        std::set<std::string> kinds;
        for(size_t i = 0; i < f.msgs.size(); ++i) {
            std::string one = f.header + f.msgs[i];
            if(!survives([&] { App fresh; load(fresh, one); })) { auto *p = find_param(S, f.paths[i]); kinds.insert((p ? p->kind : "unknown-path") + line_shape(f.msgs[i])); }
        }
        std::string k;
        for(auto &x : kinds) { if(!k.empty()) k += "+"; k += x; }
        return "crash|load_from_file|own-savefile:" + (k.empty() ? std::string("only-in-combination") : k);
    }
    // negative files: phase is the signature of the reject clause
    size_t b = phase.find('|');
    return "crash-on-" + phase.substr(0, b) + (b == std::string::npos ? "" : phase.substr(b));
}

template <class App> void run_app(int depth, int root_depth, int full_neg_depth)
{
    Space<App> S(vp::thorough());
    const std::string app = App::name();
    vp::bound(app + ".alphabet", std::to_string(S.ops.size()) + " parameter messages; " + std::to_string(S.roots.size()) + " many-parameter root states");
    vp::bound(app + ".depth", "all histories of <= " + std::to_string(depth) + " messages from the default instance, <= " + std::to_string(root_depth) + " from each root state");
    vp::bound(app + ".negatives", "header/appname forms for every state; all 8 bad-line forms at every line position for states of depth <= " + std::to_string(full_neg_depth) +
              " and root states, one form (rotating with the state index) at every position for deeper states");
    auto crashed = [&](size_t, const Mark &m, const std::string &how) {
        vp::violation(crash_signature(S, m), m.case_id, how + " in phase " + m.phase + "; the rest of this state was skipped; file: " + vp::show(std::string(m.text, m.text_len).substr(0, 600)));
    };
    if(vp::replaying()) {
        const std::string &id = vp::ctx().replay;
        size_t b1 = id.find('|'), b2 = id.find('|', b1 == std::string::npos ? 0 : b1 + 1);
        if(b1 == std::string::npos || b2 == std::string::npos || id.substr(0, b1) != app) return;
        Hist h;
        if(!Space<App>::parse_hist(id.substr(b1 + 1, b2 - b1 - 1), h)) return;
        for(uint16_t c : h) if(!(c < S.ops.size() || (c >= ROOT0 && c - ROOT0 < (int)S.roots.size()))) return;
        supervise(app, 1, [&](size_t) { check_state(S, h, true, 0, (size_t)-1); }, crashed);
        return;
    }
    S.explore(depth, root_depth);
    vp::bound(app + ".states", (long long)S.states.size());
    std::vector<std::pair<size_t, uint64_t>> todo;
    for(size_t i = 0; i < S.states.size(); ++i, ++g_index) if(vp::mine(g_index)) todo.push_back({i, g_index});
    supervise(app, todo.size(), [&](size_t k) {
        const Hist &h = S.states[todo[k].first];
        bool rooted = !h.empty() && h[0] >= ROOT0;
        vp::state();
        check_state(S, h, rooted ? h.size() <= 2 : (int)h.size() <= full_neg_depth, todo[k].second, todo[k].first);
    }, crashed);
}

int main(int argc, char **argv)
{
    vp::init(argc, argv, "C12");
    const bool T = vp::thorough();
    run_app<sapp::Flat>(T ? 3 : 2, T ? 2 : 1, T ? 2 : 2);
    run_app<sapp::Preset>(T ? 5 : 4, T ? 2 : 1, T ? 3 : 2);
    run_app<sapp::Tree>(T ? 5 : 4, T ? 2 : 1, T ? 3 : 2);
    run_app<sapp::Synth>(T ? 7 : 6, 0, T ? 3 : 2);
    run_app<sapp::Big>(T ? 2 : 1, T ? 1 : 0, 1);
    run_app<sapp::IntSw>(T ? 5 : 4, 0, T ? 3 : 2);
    return vp::finish();
}
