// C02 (C API part) - fixed-buffer discipline of rtosc_amessage / rtosc_message / rtosc_vmessage /
// rtosc_avmessage / rtosc_bundle: every message / bundle of a small-scope family x EVERY capacity
// 0..needed+8, destination placed against a PROT_NONE page (both sides), canaries on the other side.
#include <functional>
#include <rtosc/rtosc.h>
#include <rtosc/arg-val.h>
#include "common.h"
#include "oscgen.h"
#include "bundlegen.h"
#include "varcall.h"
#include "guard.h"

using namespace varcall;
static guard::Arena A;

struct Call {
    const char *name;
    std::function<size_t(char *, size_t)> fn;
};

// run one constructor against one capacity and placement; expect = reference encoding
static void probe(const char *ctor, const std::function<size_t(char *, size_t)> &fn, const std::string &expect,
                  size_t cap, bool at_end, const std::string &cid, const std::string &shape)
{
    unsigned char *buf = at_end ? A.at_end(cap) : A.at_begin(cap);
    memset(buf, 0xA5, cap);
    size_t r = (size_t)-1;
    int sig = guard::guarded([&] { r = fn((char *)buf, cap); });
    vp::transition();
    const size_t need = expect.size();
    const std::string cls = std::string(ctor) + "|" + (cap < need ? "too-small" : "fits") + "," + shape;
    std::string at = " capacity=" + std::to_string(cap) + " needed=" + std::to_string(need) + (at_end ? " (buffer ends at guard page)" : " (buffer starts at guard page)");
    if(sig) { vp::violation("access-outside-buffer|" + cls, cid, "fault (signal " + std::to_string(sig) + ") at offset " + std::to_string((long)((unsigned char *)guard::g_fault_addr - buf)) + at); return; }
    if(!A.canary_ok()) { vp::violation("write-outside-buffer|" + cls, cid, "canary next to the buffer changed" + at); return; }
    if(cap < need) {
        if(r != 0) { vp::violation("return-not-0|" + cls, cid, "returned " + std::to_string(r) + at); return; }
        for(size_t k = 0; k < cap; ++k) if(buf[k]) { vp::violation("not-zero-filled|" + cls, cid, "byte " + std::to_string(k) + " = " + std::to_string(buf[k]) + at); return; }
        vp::outcome(std::string(ctor) + ":rejected");
    } else {
        if(r != need) { vp::violation("return-not-size|" + cls, cid, "returned " + std::to_string(r) + at); return; }
        if(memcmp(buf, expect.data(), need)) { vp::violation("bytes|" + cls, cid, "encoding differs from the reference" + at); return; }
        vp::outcome(std::string(ctor) + ":written");
    }
}

static void all_caps(const char *ctor, const std::function<size_t(char *, size_t)> &fn, const std::string &expect, const std::string &cid, const std::string &shape)
{
    for(size_t cap = 0; cap <= expect.size() + 8; ++cap) {
        probe(ctor, fn, expect, cap, true, cid, shape);
        probe(ctor, fn, expect, cap, false, cid, shape);
    }
}

int main(int argc, char **argv)
{
    vp::init(argc, argv, "C02");
    const bool T = vp::thorough();
    A.init(4);
    std::vector<std::string> types;
    gen::type_strings("ihsbTm[]", 0, T ? 5 : 3, types);
    const size_t max_addr = 8;
    vp::bound("type_strings", "all well-nested strings of length 0.." + std::to_string(T ? 5 : 3) + " over {i h s b T m [ ]}: " + std::to_string(types.size()));
    vp::bound("address_lengths", "1..8 (first value vector), 4 residues mod 4 otherwise");
    vp::bound("capacities", "every capacity 0..needed+8, buffer against a PROT_NONE page on either side");
    uint64_t top = 0;
    for(size_t ti = 0; ti < types.size(); ++ti, ++top) {
        if(!vp::mine(top)) continue;
        if(vp::deadline_passed()) { vp::cap("deadline at type string " + std::to_string(ti)); break; }
        const std::string &ts = types[ti];
        auto vecs = gen::value_vectors(ts, false, T ? 2 : 1);
        for(size_t v = 0; v < vecs.size(); ++v) {
            for(size_t al = 1; al <= max_addr; ++al) {
                if(v != 0 && al != 1 + (v % 4) && !(T && al <= 4)) continue;
                std::string addr = gen::address(al);
                std::string cid = "msg|a" + std::to_string(al) + "|" + ts + "|v" + std::to_string(v);
                if(!vp::want(cid)) continue;
                vp::current_case() = cid;
                const auto &args = vecs[v];
                std::string expect = ref::encode(addr, ts, args);
                vp::state(); vp::eval(); vp::nontrivial(vp::fnv(expect)); vp::trace();
                std::vector<rtosc_arg_t> ra; for(auto &a : args) ra.push_back(gen::to_rtosc(a));
                std::string shape = ts.empty() ? "no-args" : (ts.find('b') != std::string::npos ? "blob" : (ts.find('s') != std::string::npos ? "string" : "fixed-size"));
                all_caps("rtosc_amessage", [&](char *b, size_t n) { return rtosc_amessage(b, n, addr.c_str(), ts.c_str(), ra.data()); }, expect, cid, shape);
                CArg c[64]; bool snan; int n = flatten(ts, args, c, snan);
                if(!snan) {
                    if(n <= 4) all_caps("rtosc_message", [&](char *b, size_t len) { return call_varargs(b, len, addr.c_str(), ts.c_str(), c, n); }, expect, cid, shape);
                    all_caps("rtosc_vmessage", [&](char *b, size_t len) { return call_valist(b, len, addr.c_str(), ts.c_str(), c, n); }, expect, cid, shape);
                }
                if(ts.find('[') == std::string::npos && ts.find(']') == std::string::npos) {
                    std::vector<rtosc_arg_val_t> av; size_t k = 0;
                    for(char t : ts) { rtosc_arg_val_t x; memset(&x, 0, sizeof x); x.type = t; if(ref::has_data(t)) x.val = ra[k++]; else if(t == 'T') x.val.T = 1; av.push_back(x); }
                    all_caps("rtosc_avmessage", [&](char *b, size_t len) { return rtosc_avmessage(b, len, addr.c_str(), av.size(), av.data()); }, expect, cid, shape);
                }
                // NULL buffer: returns the size a large enough buffer receives - whatever length is passed along with it
                for(size_t nl : {size_t(0), expect.size() > 0 ? expect.size() - 1 : 0, expect.size(), expect.size() + 8, size_t(1) << 20, (size_t)-1}) {
                    size_t need = 0;
                    int sg = guard::guarded([&] { need = rtosc_amessage(nullptr, nl, addr.c_str(), ts.c_str(), ra.data()); });
                    vp::transition();
                    if(sg) { vp::violation("access-outside-buffer|rtosc_amessage|null-buffer-with-length," + shape, cid, "fault (signal " + std::to_string(sg) + ") for the size query (NULL, " + std::to_string(nl) + ")"); break; }
                    if(need != expect.size()) { vp::violation("null-buffer-size|rtosc_amessage|" + shape, cid, "(NULL, " + std::to_string(nl) + ") reports " + std::to_string(need) + ", encoding has " + std::to_string(expect.size())); break; }
                }
                if(!snan && n <= 4) {
                    vp::transition();
                    size_t need = call_varargs(nullptr, 0, addr.c_str(), ts.c_str(), c, n);
                    if(need != expect.size()) vp::violation("null-buffer-size|rtosc_message|" + shape, cid, "reports " + std::to_string(need) + ", encoding has " + std::to_string(expect.size()));
                }
            }
        }
        if(ti % 41 == 0) vp::sample("message types='" + ts + "' x capacities 0..needed+8 x 2 placements x 4 constructors");
    }
    // bundles
    auto alph = bgen::alphabet(T ? 3 : 2);
    std::vector<std::string> mem; for(auto &e : alph) { std::string m = e.bytes; m.append(16, '\0'); mem.push_back(m); }
    std::vector<std::vector<int>> seqs; bgen::sequences(alph.size(), 0, T ? 4 : 2, seqs);
    { std::vector<std::vector<int>> longs; bgen::sequences(2, T ? 4 : 3, 8, longs); int sub[2] = {0, (int)bgen::messages().size() + 1}; for(auto &s : longs) { std::vector<int> t; for(int k : s) t.push_back(sub[k]); seqs.push_back(t); } }
    vp::bound("bundle_sequences", (long long)seqs.size());
    for(size_t si = 0; si < seqs.size(); ++si, ++top) {
        if(!vp::mine(top)) continue;
        if(vp::deadline_passed()) { vp::cap("deadline at bundle sequence " + std::to_string(si)); break; }
        std::string cid = "bundle|s"; for(int i : seqs[si]) cid += std::to_string(i) + ".";
        if(!vp::want(cid)) continue;
        vp::current_case() = cid;
        std::vector<std::string> eb; std::vector<const char *> ptrs; bool nested = false;
        for(int i : seqs[si]) { eb.push_back(alph[i].bytes); ptrs.push_back(mem[i].data()); if(alph[i].depth) nested = true; }
        uint64_t tt = bgen::TIMETAGS[si % bgen::N_TIMETAGS];
        std::string expect = ref::bundle(tt, eb);
        vp::state(); vp::eval(); vp::nontrivial(vp::fnv(expect) ^ 1); vp::trace();
        std::string shape = seqs[si].empty() ? "empty-bundle" : (nested ? "nested-elements" : "message-elements");
        all_caps("rtosc_bundle", [&](char *b, size_t len) { return call_bundle(b, len, tt, ptrs); }, expect, cid, shape);
        if(si % 97 == 0) vp::sample(cid + " (" + std::to_string(expect.size()) + " bytes) x capacities 0.." + std::to_string(expect.size() + 8));
    }
    // bundles of 9..40 elements (the variadic call takes any count)
    {
        static const int COUNTS[] = {9, 12, 15, 16, 17, 18, 21, 24, 32, 33, 40};
        vp::bound("long_bundles", "9,12,15,16,17,18,21,24,32,33,40 elements alternating m8/m12 or all m8, every capacity 0..needed+8");
        for(int n : COUNTS) for(int alt = 0; alt < 2; ++alt, ++top) {
            if(!vp::mine(top)) continue;
            std::string cid = "longbundle|n" + std::to_string(n) + "|alt" + std::to_string(alt);
            if(!vp::want(cid)) continue;
            vp::current_case() = cid;
            std::vector<std::string> eb; std::vector<const char *> ptrs;
            for(int i = 0; i < n; ++i) { int k = alt ? (i & 1) : 0; eb.push_back(alph[k].bytes); ptrs.push_back(mem[k].data()); }
            std::string expect = ref::bundle(bgen::TIMETAGS[n % bgen::N_TIMETAGS], eb);
            vp::state(); vp::eval(); vp::nontrivial(vp::fnv(expect) ^ 2); vp::trace();
            uint64_t tt = bgen::TIMETAGS[n % bgen::N_TIMETAGS];
            all_caps("rtosc_bundle", [&](char *b, size_t len) { return call_bundle(b, len, tt, ptrs); }, expect, cid, "many-message-elements");
        }
    }
    // long strings and blobs (sizes around 256, 512, 1024 and 4096), alone or next to another argument
    {
        static const size_t LENS[] = {124, 127, 128, 252, 255, 256, 257, 260, 511, 512, 1020, 1024, 4092, 4096};
        static const char *SHAPES[] = {"s", "si", "is", "b", "bi", "ib", "bs", "sb"};
        vp::bound("long_payloads", "string/blob of 124,127,128,252,255,256,257,260,511,512,1020,1024,4092,4096 bytes in {s,si,is,b,bi,ib,bs,sb} (blob data given or NULL), every capacity 0..needed+8");
        for(size_t L : LENS) for(const char *sh : SHAPES) for(int nulldata = 0; nulldata < 2; ++nulldata, ++top) {
            if(!vp::mine(top)) continue;
            std::string ts = sh;
            if(nulldata && ts.find('b') == std::string::npos) continue;
            std::string cid = "long|" + std::to_string(L) + "|" + ts + "|null" + std::to_string(nulldata);
            if(!vp::want(cid)) continue;
            vp::current_case() = cid;
            std::vector<ref::Arg> args; std::vector<std::vector<unsigned char>> keep; std::vector<std::string> keeps;
            for(char t : ts) {
                ref::Arg a; a.type = t;
                if(t == 's') a.s = std::string(L, 'q');
                else if(t == 'b') { a.b_len = (uint32_t)L; if(nulldata) a.b_null = true; else { a.b.resize(L); for(size_t k = 0; k < L; ++k) a.b[k] = (unsigned char)(k * 13 + 0x81); } }
                else a.u32 = 0x80000001u;
                args.push_back(a);
            }
            std::string addr = "/p", expect = ref::encode(addr, ts, args);
            vp::state(); vp::eval(); vp::nontrivial(vp::fnv(expect) ^ 3); vp::trace();
            std::vector<rtosc_arg_t> ra; for(auto &a : args) ra.push_back(gen::to_rtosc(a));
            std::string shape = std::string("long-") + (ts.find('b') != std::string::npos ? "blob" : "string");
            all_caps("rtosc_amessage", [&](char *b, size_t n) { return rtosc_amessage(b, n, addr.c_str(), ts.c_str(), ra.data()); }, expect, cid, shape);
            CArg c[64]; bool snan; int n = flatten(ts, args, c, snan);
            all_caps("rtosc_message", [&](char *b, size_t len) { return call_varargs(b, len, addr.c_str(), ts.c_str(), c, n); }, expect, cid, shape);
            vp::transition();
            size_t need = rtosc_amessage(nullptr, 0, addr.c_str(), ts.c_str(), ra.data());
            if(need != expect.size()) vp::violation("null-buffer-size|rtosc_amessage|" + shape, cid, "reports " + std::to_string(need) + ", encoding has " + std::to_string(expect.size()));
        }
    }
    // arguments that alias each other or the address: a string argument whose pointer IS the address pointer (a reply that echoes its own
    // address), the same string object passed twice, a blob whose data is the address text
    {
        vp::bound("aliasing_arguments", "address lengths 1..9 x {s,si,is,ss,sb} with the string (and blob data) pointers identical to the address pointer, every capacity 0..needed+8");
        for(size_t al = 1; al <= 9; ++al) for(const char *sh : {"s", "si", "is", "ss", "sb"}) {
            ++top; if(!vp::mine(top)) continue;
            std::string ts = sh, cid = "alias|a" + std::to_string(al) + "|" + ts;
            if(!vp::want(cid)) continue;
            vp::current_case() = cid;
            const std::string addr = gen::address(al);
            std::vector<ref::Arg> args; std::vector<rtosc_arg_t> ra;
            for(char t : ts) {
                ref::Arg a; a.type = t; rtosc_arg_t r; memset(&r, 0, sizeof r);
                if(t == 's') { a.s = addr; r.s = addr.c_str(); }
                else if(t == 'b') { a.b.assign(addr.begin(), addr.end()); a.b_len = (uint32_t)addr.size(); r.b.len = (int32_t)addr.size(); r.b.data = (uint8_t *)addr.c_str(); }
                else { a.u32 = 0x01020304u; r.i = 0x01020304; }
                args.push_back(a); ra.push_back(r);
            }
            std::string expect = ref::encode(addr, ts, args);
            vp::state(); vp::eval(); vp::nontrivial(vp::fnv(expect) ^ 5); vp::trace();
            all_caps("rtosc_amessage", [&](char *b, size_t len) { return rtosc_amessage(b, len, addr.c_str(), ts.c_str(), ra.data()); }, expect, cid, "argument-aliases-address");
            vp::transition();
            size_t need = rtosc_amessage(nullptr, 0, addr.c_str(), ts.c_str(), ra.data());
            if(need != expect.size()) vp::violation("null-buffer-size|rtosc_amessage|argument-aliases-address", cid, "reports " + std::to_string(need) + ", encoding has " + std::to_string(expect.size()));
        }
    }
    // many arguments through the va_list path (the argument array of rtosc_vmessage lives on its stack) and through rtosc_amessage
    {
        vp::bound("many_arguments", "64,129,256,257,300,500 arguments (all i / alternating i,s,T / alternating h,f), every capacity 0..needed+8");
        for(int n : {64, 129, 256, 257, 300, 500}) for(int mix = 0; mix < 3; ++mix, ++top) {
            if(!vp::mine(top)) continue;
            std::string cid = "many|n" + std::to_string(n) + "|mix" + std::to_string(mix);
            if(!vp::want(cid)) continue;
            vp::current_case() = cid;
            std::string ts; std::vector<ref::Arg> args;
            for(int k = 0; k < n; ++k) {
                char t = mix == 0 ? 'i' : mix == 1 ? "isT"[k % 3] : "hf"[k % 2];
                ts += t; if(!ref::has_data(t)) continue;
                ref::Arg a; a.type = t; if(t == 's') a.s = k % 2 ? "ab" : "abcd"; else if(t == 'h') a.u64 = 0x0102030405060708ull + k; else a.u32 = 0x3f800000u + (uint32_t)k;
                args.push_back(a);
            }
            std::string addr = "/m", expect = ref::encode(addr, ts, args);
            vp::state(); vp::eval(); vp::nontrivial(vp::fnv(expect) ^ 4); vp::trace();
            std::vector<rtosc_arg_t> ra; for(auto &a : args) ra.push_back(gen::to_rtosc(a));
            all_caps("rtosc_amessage", [&](char *b, size_t len) { return rtosc_amessage(b, len, addr.c_str(), ts.c_str(), ra.data()); }, expect, cid, "many-arguments");
            static CArg c[512]; bool snan; int nc = flatten(ts, args, c, snan);
            all_caps("rtosc_vmessage", [&](char *b, size_t len) { return call_valist(b, len, addr.c_str(), ts.c_str(), c, nc); }, expect, cid, "many-arguments");
            vp::transition();
            size_t need = call_valist(nullptr, 0, addr.c_str(), ts.c_str(), c, nc);
            if(need != expect.size()) vp::violation("null-buffer-size|rtosc_vmessage|many-arguments", cid, "reports " + std::to_string(need) + ", encoding has " + std::to_string(expect.size()));
        }
    }
    return vp::finish();
}
