// C05 - path-pattern matching follows the documented pattern language.
// Exhaustive small scope: every pattern of a grammar up to a size bound x every address over an
// 11-letter alphabet up to length 4 (thorough 5) x 9 type strings; oracle = refmatch.h (three-valued).
#include <cerrno>
#include <rtosc/rtosc.h>
#include <set>
#include "common.h"
#include "refmatch.h"

using refmatch::Verdict;

static std::vector<std::string> all_segs(), reduced_segs(), tiny_segs();

static std::vector<std::string> lits() { return {"", "a", "b", "aa", "ab", "ba", "bb"}; }

static std::vector<std::string> alt_lists()
{
    std::vector<std::string> A = {"a", "b", "ab", "ba", "aa"}, out;
    for(size_t i = 0; i < A.size(); ++i) {
        out.push_back("{" + A[i] + "}");
        for(size_t j = 0; j < A.size(); ++j) if(j != i) {
            out.push_back("{" + A[i] + "," + A[j] + "}");
            for(size_t k = 0; k < A.size(); ++k) if(k != i && k != j) out.push_back("{" + A[i] + "," + A[j] + "," + A[k] + "}");
        }
    }
    return out;
}

static std::vector<std::string> all_segs()
{
    std::vector<std::string> s;
    for(auto &l : lits()) s.push_back(l);
    for(auto &l : lits()) for(const char *n : {"1", "2", "10", "12"}) s.push_back(l + "#" + n);
    for(auto &a : alt_lists()) s.push_back(a);
    for(auto &l : lits()) for(auto &r : lits()) s.push_back(l + "/" + r);
    return s;
}
static std::vector<std::string> reduced_segs() { return {"a", "ab", "a#2", "b#10", "#12", "{a,b}", "{a,ab}", "{ab,a}", "{a,ab,aa}", "a/b", "b/"}; }
static std::vector<std::string> tiny_segs() { return {"a", "b#2", "{a,ab}", "{ba,b}", "a/"}; }

static bool well_formed(const std::string &p)
{
    // no "#N" directly followed by a digit or another '#' (index would be syntactically ambiguous), no "//"
    for(size_t i = 0; i < p.size(); ++i) if(p[i] == '#') {
        size_t k = i + 1; while(k < p.size() && isdigit((unsigned char)p[k])) ++k;
        if(k < p.size() && p[k] == '#') return false;
    }
    if(p.find("//") != std::string::npos) return false;
    if(p.empty()) return false;
    return true;
}

static std::string features(const std::string &pat)
{
    std::string f;
    if(pat.find('{') != std::string::npos) f += "alt,";
    if(pat.find('#') != std::string::npos) f += "enum,";
    size_t c = pat.find(':'); std::string path = pat.substr(0, c);
    if(!path.empty() && path.back() == '/') f += "subtree,";
    else if(path.find('/') != std::string::npos) f += "multi-component,";
    if(c != std::string::npos) f += "types,";
    if(f.empty()) f = "literal,";
    f.pop_back();
    return f;
}

static const char ADDR_ALPHA[] = "abc/0129#{,";
static const int NT = 12;
static const char *TYPES[NT] = {"", "i", "f", "ii", "if", "T", "F", "s", "iii", "[i]", "[ii]", "i[ff]"};

static char g_msg[256];
// lay out "addr\0.. ,types\0.." ; returns pointer to message start
static void set_addr(const std::string &a, size_t &tt_off)
{
    memset(g_msg, 0, sizeof g_msg);
    memcpy(g_msg, a.data(), a.size());
    tt_off = a.size() + (4 - a.size() % 4);
}
static void set_types(size_t tt_off, const char *t)
{
    memset(g_msg + tt_off, 0, 8);
    g_msg[tt_off] = ',';
    strcpy(g_msg + tt_off + 1, t);
}

static uint64_t g_must = 0, g_mustnot = 0, g_dc = 0;

static void check(const std::string &pat, const refmatch::Pattern &rp, const std::string &addr, bool refpath, size_t tt_off, int ti, const Verdict *tv)
{
    Verdict v = !refpath ? refmatch::MUST_NOT : tv[ti];
    bool got = rtosc_match(pat.c_str(), g_msg, nullptr);
    // the optional out-parameter must not change the verdict
    { const char *pe = nullptr; errno = ERANGE;      // ... nor may whatever an earlier library call left in errno
      bool got2 = rtosc_match(pat.c_str(), g_msg, &pe); errno = 0;
      if(got2 != got) vp::violation("verdict-depends-on-path_end|rtosc_match|" + features(pat), "p=" + pat + "|a=" + addr + "|t=" + TYPES[ti], "pattern '" + pat + "' address '" + addr + "': " + (got ? "true" : "false") + " with path_end == NULL, " + (got2 ? "true" : "false") + " with a pointer"); }
    vp::transition(2);
    if(v == refmatch::DONT_CARE) { ++g_dc; return; }
    if(v == refmatch::MUST) ++g_must; else ++g_mustnot;
    if((v == refmatch::MUST) == got) return;
    std::string cid = "p=" + pat + "|a=" + addr + "|t=" + TYPES[ti];
    std::string shape = features(pat);
    if(v == refmatch::MUST && !refmatch::path_match(rp.path, 0, addr, 0, true)) shape = "needs-choosing-a-later-alternative"; // an earlier alternative is a prefix of the address too
    else if(!refpath) shape += ",path-mismatch"; else shape += ",type-mismatch";
    vp::violation(std::string(v == refmatch::MUST ? "must-match" : "must-not-match") + "|rtosc_match|" + shape, cid,
                  "pattern '" + pat + "' address '" + addr + "' types '" + TYPES[ti] + "': rtosc_match=" + (got ? "true" : "false"));
}

static void run_pattern(const std::string &pat, const std::vector<std::string> &addrs)
{
    refmatch::Pattern rp = refmatch::split(pat);
    Verdict tv[NT]; for(int t = 0; t < NT; ++t) tv[t] = refmatch::types_verdict(rp, TYPES[t]);
    uint64_t matched = 0;
    for(auto &a : addrs) {
        bool refpath = refmatch::path_match(rp.path, 0, a, 0);
        size_t off; set_addr(a, off);
        // rtosc_match_path alone: non-NULL iff the path part matches
        set_types(off, "");
        bool gp = rtosc_match_path(pat.c_str(), g_msg, nullptr) != nullptr;
        vp::transition();
        if(gp != refpath) {
            std::string shape = features(pat);
            if(refpath && !refmatch::path_match(rp.path, 0, a, 0, true)) shape = "needs-choosing-a-later-alternative";
            vp::violation(std::string(refpath ? "must-match" : "must-not-match") + "|rtosc_match_path|" + shape, "p=" + pat + "|a=" + a + "|t=", "pattern '" + pat + "' address '" + a + "'");
        }
        if(refpath) ++matched;
        for(int t = 0; t < NT; ++t) { set_types(off, TYPES[t]); check(pat, rp, a, refpath, off, t, tv); }
    }
    vp::state(); vp::eval(addrs.size() * NT);
    if(matched) vp::nontrivial(vp::fnv(pat));
    vp::outcome(features(pat) + (matched ? ":some-address-matches" : ":no-address-matches"));
    vp::trace();
}

int main(int argc, char **argv)
{
    vp::init(argc, argv, "C05");
    const bool T = vp::thorough();
    // ---- patterns
    std::vector<std::string> paths; std::set<std::string> seen;
    auto add = [&](const std::string &p) { if(well_formed(p) && seen.insert(p).second) paths.push_back(p); };
    auto S = all_segs(), R = reduced_segs(), Y = tiny_segs();
    for(auto &s : S) { add(s); add(s + "/"); }
    for(auto &a : R) for(auto &b : (T ? S : R)) { add(a + b); add(a + b + "/"); }
    if(T) for(auto &a : S) for(auto &b : R) { add(a + b); add(a + b + "/"); }
    for(auto &a : Y) for(auto &b : Y) for(auto &c : Y) { add(a + b + c); add(a + b + c + "/"); }
    std::vector<std::string> pats;
    static const char *SPECS[] = {":", ":i", ":f", ":ii", ":T:F", "::i:f", ":i:ii", ":ii:i", ":i:f:s",
                                  // non-final alternatives of two and three tags that differ from a later one at every position
                                  ":ii:f", ":if:s:T", ":iii:if:i", ":fi:ii:",
                                  // alternatives with array brackets
                                  ":[ii]", ":i:[ii]", ":ii:[ii]:i[ff]", "::i[ff]:f"};
    for(auto &p : paths) { pats.push_back(p); pats.push_back(p + ":i"); }
    for(auto &a : R) for(const char *sp : SPECS) { if(well_formed(a)) { pats.push_back(a + sp); pats.push_back(a + "/" + sp); } }
    { std::set<std::string> u; std::vector<std::string> q; for(auto &p : pats) if(u.insert(p).second) q.push_back(p); pats.swap(q); }
    // ---- addresses
    const int maxlen = T ? 5 : 4;
    std::vector<std::string> addrs = {""};
    { std::vector<std::string> cur = {""}; for(int l = 1; l <= maxlen; ++l) { std::vector<std::string> nx; for(auto &s : cur) for(const char *c = ADDR_ALPHA; *c; ++c) nx.push_back(s + *c); addrs.insert(addrs.end(), nx.begin(), nx.end()); cur.swap(nx); } }
    vp::bound("patterns", (long long)pats.size());
    vp::bound("pattern_grammar", "seg{1..3} ['/'] [':'types(':'types)*]; seg = lit | lit#N | {alt,..} | lit/lit; lit over {a,b} len 0..2; N in {1,2,10,12}; alternatives from {a,b,ab,ba,aa} in lists of 1..3 in every order");
    vp::bound("addresses", "all strings of length 0.." + std::to_string(maxlen) + " over 'abc/0129#{,': " + std::to_string(addrs.size()));
    vp::bound("type_strings", "'' i f ii if T F s iii [i] [ii] i[ff]");
    for(size_t k = 0; k < pats.size(); k += pats.size() / 6 + 1) vp::sample("pattern '" + pats[k] + "' x " + std::to_string(addrs.size()) + " addresses x 9 type strings");

    if(vp::replaying()) {
        // p=<pat>|a=<addr>|t=<types>
        const std::string &id = vp::ctx().replay;
        size_t pa = id.find("|a="), pt = id.rfind("|t=");
        if(id.compare(0, 2, "p=") == 0 && pa != std::string::npos && pt != std::string::npos) {
            std::string pat = id.substr(2, pa - 2), a = id.substr(pa + 3, pt - pa - 3);
            run_pattern(pat, {a});
            vp::ctx().replay_hits = 1;
        }
        return vp::finish();
    }
    for(size_t pi = 0; pi < pats.size(); ++pi) {
        if(!vp::mine(pi)) continue;
        if(vp::deadline_passed()) { vp::cap("deadline at pattern " + std::to_string(pi) + " of " + std::to_string(pats.size())); break; }
        run_pattern(pats[pi], addrs);
    }
    // ---- structured family for enumerations: indices with leading zeros, up to 9 digits, around N
    if(vp::mine(0)) {
        std::vector<std::string> tails = {"", "/y", "z"};
        for(unsigned long N : {1ul, 2ul, 10ul, 12ul, 16ul, 100ul, 128ul, 999999999ul}) for(auto &tail : tails) {
            std::string pat = "x#" + std::to_string(N) + tail;
            std::vector<std::string> idx = {"0", "00", "007", "1", "9", "09", "10", "010", "127", "128", std::to_string(N - 1), std::to_string(N), std::to_string(N + 1),
                                            "999999999", "099999999", "000000000", "000000001", "999999998",
                                            "00000000000000000000", "00000000000000000007", "0000000000000000000000000000015", "00000000000000000000000000000000000000009"};
            { std::string z = std::to_string(N - 1); while(z.size() < 9) z = "0" + z; idx.push_back(z); }
            std::vector<std::string> as; for(auto &i : idx) { as.push_back("x" + i + tail); as.push_back("x" + i); as.push_back("x" + i + tail + "q"); as.push_back("x" + tail); }
            run_pattern(pat, as);
            run_pattern(pat + "/", as);
        }
        vp::bound("enumeration_family", "x#N[/y|z] for N in {1,2,10,12,16,100,128,999999999} x indices 0,00,007,N-1,N,N+1,zero-padded to 9 digits,999999999");
    }
    // ---- long patterns and addresses (beyond the exhaustive lengths): literal segments of 10..60 characters, lists of 8
    //      alternatives, five segments, each against the exact address and every single-character edit of it
    if(vp::mine(1)) {
        std::vector<std::pair<std::string, std::string>> pa;   // (pattern, an address it matches)
        for(size_t L : {10u, 16u, 17u, 31u, 32u, 33u, 60u}) {
            std::string lit; for(size_t k = 0; k < L; ++k) lit += (char)('a' + (k * 7) % 26);
            pa.push_back({lit, lit}); pa.push_back({lit + "/", lit + "/x"}); pa.push_back({lit + "#16/" + lit, lit + "15/" + lit});
            pa.push_back({"{" + lit + "," + lit.substr(0, L - 1) + "," + lit + "x}", lit + "x"});
        }
        pa.push_back({"{a,b,c,d,e,f,g,hh}#1000/{x,y}z", "hh999/yz"});
        pa.push_back({"a/b#2/c#3/d#4/e:i", "a/b1/c2/d3/e"});
        pa.push_back({"seg1/seg2/seg3/seg4/seg5/", "seg1/seg2/seg3/seg4/seg5/leaf"});
        for(auto &x : pa) {
            std::set<std::string> as = {x.second};
            for(size_t i = 0; i <= x.second.size(); ++i) for(char c : std::string("ab/0x")) as.insert(x.second.substr(0, i) + c + x.second.substr(i));
            for(size_t i = 0; i < x.second.size(); ++i) { as.insert(x.second.substr(0, i) + x.second.substr(i + 1)); for(char c : std::string("ab/0x")) { std::string t = x.second; t[i] = c; as.insert(t); } }
            std::vector<std::string> av(as.begin(), as.end());
            for(auto &a : av) if(a.size() + 16 > sizeof g_msg) { fprintf(stderr, "harness: message buffer too small\n"); return 3; }
            run_pattern(x.first, av);
        }
        vp::bound("long_family", "literal segments of 10..60 characters, 3 long alternatives, 8 alternatives with a 4-digit enumeration, five segments: exact address and every single-character insertion/removal/substitution");
    }
    // ---- alternative groups in the middle of a pattern and alternatives that end in digits, against every address of length 0..6 over 'ab/c012'
    if(vp::mine(2)) {
        std::vector<std::string> as = {""}; { std::vector<std::string> cur = {""}; for(int l = 1; l <= 6; ++l) { std::vector<std::string> nx; for(auto &x : cur) for(char c : std::string("ab/c012")) nx.push_back(x + c); as.insert(as.end(), nx.begin(), nx.end()); cur.swap(nx); } }
        for(const char *pt : {"{a,b}/c", "{a,b}/{a,b}", "{a,b}/{b,a}/c", "c#3/{a,b}/c", "{a,b}#3/c", "{a,a1}#3/c", "{a1,a}#3", "{b,b2}#3", "{a,a0,a01}#2", "{a,b}/c/", "{ab,a}/b/c", "{a,b}c/{a,b}"})
            for(const char *sp : {"", ":i"}) run_pattern(std::string(pt) + sp, as);
        vp::bound("group_family", "12 patterns with an alternative group followed by '/' inside the pattern or by '#N', alternatives ending in digits: every address of length 0..6 over 'ab/c012'");
    }
    vp::outcome("verdict:must-match", g_must); vp::outcome("verdict:must-not-match", g_mustnot); vp::outcome("verdict:dont-care(type extension)", g_dc);
    return vp::finish();
}
