// C07 - validation of untrusted bytes: rtosc_message_length / rtosc_valid_message_p read only inside the
// n bytes, terminate, report 0 or <= n; whatever the validator accepts is read by every accessor inside
// the n bytes and decodes to what an independent decoder (refosc.h) returns.
// Space: (1) ALL buffers of length 0..L over a 12-byte alphabet; (2) every single (thorough: also every
// pair of byte) deviation of every valid message of a small family. Buffers are exact-size, placed
// against a PROT_NONE page.
#include <rtosc/rtosc.h>
#include <sys/time.h>
#include "common.h"
#include "oscgen.h"
#include "bundlegen.h"
#include "guard.h"
#include <set>

static guard::Arena A;
static volatile uint64_t g_progress = 0;
static volatile uint64_t g_last_seen = 0;
static volatile int g_stall_ticks = 0;
static volatile int g_stall_limit = 2;

static void on_alarm(int)
{
    if(g_progress == g_last_seen) {
        if(++g_stall_ticks >= g_stall_limit && guard::g_armed) { guard::g_armed = 0; g_stall_ticks = 0; siglongjmp(guard::g_jmp, SIGALRM); }
    } else { g_last_seen = g_progress; g_stall_ticks = 0; }
}

static std::string shape_of(const uint8_t *b, size_t n)
{
    if(n == 0) return "empty-buffer";
    ref::Decoded d = ref::decode(b, n);
    if(d.ok) return d.unknown_tags ? "well-formed,unknown-tags" : (d.length == n ? "well-formed" : "well-formed,trailing-bytes");
    std::string w = d.why; for(char &c : w) if(c == ' ') c = '-';
    return w;
}

static bool inside(const void *p, size_t len, const uint8_t *buf, size_t n)
{
    const uint8_t *q = (const uint8_t *)p;
    return q >= buf && q <= buf + n && len <= (size_t)(buf + n - q);
}

// the oracle for one buffer already placed at `buf` (exact size n, guard page adjacent). Runs under guard.
static void check_buffer(const uint8_t *buf, size_t n, const std::string &cid, const std::string &shape, const ref::Decoded &d)
{
    const char *msg = (const char *)buf;
    vp::transition(2);
    size_t ml = rtosc_message_length(msg, n);
    if(ml > n) vp::violation("length-exceeds-n|rtosc_message_length|" + shape, cid, "reports " + std::to_string(ml) + " for n=" + std::to_string(n));
    bool ok = rtosc_valid_message_p(msg, n);
    if(!ok) { vp::outcome("rejected:" + shape); return; }
    vp::outcome("accepted:" + shape);
    vp::trace();
    if(!d.ok) { vp::violation("accepted-but-not-decodable|rtosc_valid_message_p|" + shape, cid, std::string("reference decoder: ") + d.why); return; }
    if(!d.unknown_tags && d.length != n) vp::violation("accepted-with-other-length|rtosc_valid_message_p|" + shape, cid, "reference decoder ends at " + std::to_string(d.length) + ", n=" + std::to_string(n));
    if(ml != n) vp::violation("accepted-but-length-differs|rtosc_message_length|" + shape, cid, "length " + std::to_string(ml) + " n=" + std::to_string(n));
    // accessors
    vp::transition(2);
    const char *as = rtosc_argument_string(msg);
    if(!inside(as, 1, buf, n)) { vp::violation("pointer-outside|rtosc_argument_string|" + shape, cid, "offset " + std::to_string((long)((const uint8_t *)as - buf))); return; }
    if((size_t)((const uint8_t *)as - buf) != d.types_off || strnlen(as, buf + n - (const uint8_t *)as) != d.types.size())
    { vp::violation("differs-from-decoder|rtosc_argument_string|" + shape, cid, "offset " + std::to_string((long)((const uint8_t *)as - buf)) + " expected " + std::to_string(d.types_off)); return; }
    std::string tags; for(char t : d.types) if(t != '[' && t != ']') tags += t;
    unsigned na = rtosc_narguments(msg);
    if(na != tags.size()) vp::violation("differs-from-decoder|rtosc_narguments|" + shape, cid, "count " + std::to_string(na) + " expected " + std::to_string(tags.size()));
    if(d.unknown_tags) return; // no opinion on values or positions behind an unknown tag
    auto cmp_val = [&](const char *site, size_t i, char t, const rtosc_arg_t &v, const ref::Arg *a) {
        switch(t) {
        case 'i': case 'c': case 'r': case 'f': { uint32_t u; memcpy(&u, &v.i, 4); if(u != a->u32) vp::violation(std::string("differs-from-decoder|") + site + "|" + shape, cid, "32-bit value " + std::to_string(i)); break; }
        case 'h': case 't': case 'd': { uint64_t u; memcpy(&u, &v.t, 8); if(u != a->u64) vp::violation(std::string("differs-from-decoder|") + site + "|" + shape, cid, "64-bit value " + std::to_string(i)); break; }
        case 'm': if(memcmp(v.m, a->m, 4)) vp::violation(std::string("differs-from-decoder|") + site + "|" + shape, cid, "midi value " + std::to_string(i)); break;
        case 's': case 'S':
            if(!inside(v.s, 1, buf, n) || (size_t)((const uint8_t *)v.s - buf) != a->off) vp::violation(std::string("pointer-outside-or-wrong|") + site + "|" + shape, cid, "string " + std::to_string(i) + " at offset " + std::to_string((long)((const uint8_t *)v.s - buf)) + " expected " + std::to_string(a->off));
            break;
        case 'b':
            if((uint32_t)v.b.len != a->b_len) vp::violation(std::string("differs-from-decoder|") + site + "|" + shape, cid, "blob length " + std::to_string(v.b.len) + " expected " + std::to_string(a->b_len));
            else if(!inside(v.b.data, a->b_len, buf, n) || (size_t)(v.b.data - buf) != a->off) vp::violation(std::string("pointer-outside-or-wrong|") + site + "|" + shape, cid, "blob " + std::to_string(i) + " data at offset " + std::to_string((long)(v.b.data - buf)));
            break;
        case 'T': if(v.T != 1) vp::violation(std::string("differs-from-decoder|") + site + "|" + shape, cid, "T"); break;
        case 'F': if(v.T != 0) vp::violation(std::string("differs-from-decoder|") + site + "|" + shape, cid, "F"); break;
        }
    };
    std::vector<const ref::Arg *> per; { size_t k = 0; for(char t : tags) per.push_back(ref::has_data(t) ? &d.args[k++] : nullptr); }
    for(size_t i = 0; i < tags.size(); ++i) {
        vp::transition(2);
        char t = rtosc_type(msg, (unsigned)i);
        if(t != tags[i]) { vp::violation("differs-from-decoder|rtosc_type|" + shape, cid, "index " + std::to_string(i)); continue; }
        rtosc_arg_t v = rtosc_argument(msg, (unsigned)i);
        cmp_val("rtosc_argument", i, t, v, per[i]);
    }
    rtosc_arg_itr_t it = rtosc_itr_begin(msg);
    size_t k = 0;
    while(!rtosc_itr_end(it) && k <= tags.size() + 1) {
        rtosc_arg_val_t av = rtosc_itr_next(&it);
        vp::transition();
        if(k < tags.size()) { if(av.type != tags[k]) vp::violation("differs-from-decoder|rtosc_itr_next-type|" + shape, cid, "value " + std::to_string(k)); else cmp_val("rtosc_itr_next", k, av.type, av.val, per[k]); }
        ++k;
    }
    if(k != tags.size()) vp::violation("differs-from-decoder|iterator-count|" + shape, cid, "iterator yields " + std::to_string(k) + " expected " + std::to_string(tags.size()));
}

static uint64_t g_cases = 0;

// run one buffer at both placements, fault/hang -> violation
static void run_one(const uint8_t *bytes, size_t n, const char *family)
{
    std::string cid = std::string(family) + "|" + vp::hex(bytes, n);
    if(!vp::want(cid)) return;
    ++g_cases;
    vp::state(); vp::eval();
    std::string shape = shape_of(bytes, n);
    ref::Decoded d = n ? ref::decode(bytes, n) : ref::Decoded();
    if(d.ok) vp::nontrivial(vp::fnv(bytes, n));
    for(int placement = 0; placement < 2; ++placement) {
        uint8_t *buf = placement == 0 ? A.at_end(n) : A.at_begin(n);
        memcpy(buf, bytes, n);
        g_stall_limit = 2;
        int sig = guard::guarded([&] { check_buffer(buf, n, cid, shape, d); });
        ++g_progress;
        if(sig == SIGALRM) {
            // re-run alone with a 10x limit before calling it a hang (for the first hangs of this shard;
            // later ones are recorded after the short limit, and the family is abandoned after 12)
            static int confirmed = 0, hangs = 0;
            if(confirmed < 2) {
                g_stall_limit = 20;
                sig = guard::guarded([&] { check_buffer(buf, n, cid, shape, d); });
                g_stall_limit = 2;
                if(sig == SIGALRM) ++confirmed;
            }
            if(sig == SIGALRM) {
                vp::violation("does-not-terminate|" + std::string(family) + "|" + shape, cid, "no progress within the time limit (first two occurrences re-run alone with a 20 s limit)");
                if(++hangs >= 12) { vp::cap("more than 12 hanging inputs in one shard: stopped early"); vp::finish(); _exit(0); }
                return;
            }
        }
        if(sig == 0 && placement == 0 && d.ok && n >= 8) {
            // the same bytes at addresses that are not multiples of 4 (nothing may depend on where the caller keeps the message);
            // the 1..3 bytes between the buffer and the guard page hold a canary
            for(size_t k = 1; k <= 3 && !sig; ++k) {
                uint8_t *ub = A.at_end(n + k);
                memcpy(ub, bytes, n); memset(ub + n, guard::CANARY, k);
                sig = guard::guarded([&] { check_buffer(ub, n, cid, shape + ",unaligned-address", d); });
                buf = ub;
            }
        }
        if(sig) {
            long off = (long)((uint8_t *)guard::g_fault_addr - buf);
            vp::violation(std::string("read-outside-buffer|") + (off < 0 ? "before" : "behind") + "|" + shape, cid,
                          "fault at offset " + std::to_string(off) + " of a buffer of " + std::to_string(n) + " bytes (" + (placement ? "start" : "end") + " at guard page)");
            return;
        }
    }
}

static const uint8_t ALPHA[12] = {0x00, 0x01, 0x04, 0x7f, 0x80, 0xff, '/', ',', 'a', 'i', 's', 'b'};

static void exhaustive(int maxlen)
{
    // index space: for each length, all 12^len buffers; sharded by global index
    uint64_t top = 0;
    for(int len = 0; len <= maxlen; ++len) {
        uint64_t N = 1; for(int k = 0; k < len; ++k) N *= 12;
        uint8_t b[16];
        int S = vp::ctx().nshards, me = vp::ctx().shard;
        for(uint64_t i = vp::replaying() ? 0 : (uint64_t)((me + S - (int)(top % S)) % S); i < N; i += vp::replaying() ? 1 : S) {
            uint64_t x = i; for(int k = len - 1; k >= 0; --k) { b[k] = ALPHA[x % 12]; x /= 12; }
            run_one(b, (size_t)len, "ex");
            if((i & 0xfffff) == 0 && vp::deadline_passed()) { vp::cap("deadline inside exhaustive length " + std::to_string(len) + " (lengths below are complete)"); return; }
        }
        top += N;
        vp::bound("exhaustive_completed_length", len);
    }
}

static const uint8_t SETV[14] = {0x00, 0x01, 0x03, 0x04, 0x05, 0x2c, 0x2f, 0x5b, 0x62, 0x69, 0x73, 0x7f, 0x80, 0xff};

static void single_deviations(const std::string &base, const ref::Decoded &d, std::vector<std::string> &out)
{
    size_t n = base.size();
    for(size_t p = 0; p < n; ++p) for(uint8_t v : SETV) if((uint8_t)base[p] != v) { std::string m = base; m[p] = (char)v; out.push_back(m); }
    for(size_t p = 0; p < n; ++p) out.push_back(base.substr(0, p));
    for(int k = 1; k <= 4; ++k) { out.push_back(base + std::string(k, '\0')); out.push_back(base + std::string(k, '\xff')); }
    for(auto &a : d.args) if(a.type == 'b') {
        size_t lp = a.off - 4; uint32_t rem = (uint32_t)(n - a.off);
        uint32_t vals[] = {0, 1, 3, 4, 5, a.b_len + 1, a.b_len - 1, rem - 1, rem, rem + 1, 0x7fffffffu, 0x80000000u, 0xfffffffcu, 0xfffffffdu, 0xfffffffeu, 0xffffffffu, 0xfffffff8u, 0x7ffffffcu};
        for(uint32_t v : vals) { std::string m = base; m[lp] = (char)(v >> 24); m[lp + 1] = (char)(v >> 16); m[lp + 2] = (char)(v >> 8); m[lp + 3] = (char)v; out.push_back(m); }
    }
    for(size_t p = 0; p + 4 <= n; p += 4) { out.push_back(base.substr(0, p) + base.substr(p + 4)); out.push_back(base.substr(0, p + 4) + base.substr(p)); }
}

int main(int argc, char **argv)
{
    vp::init(argc, argv, "C07");
    const bool T = vp::thorough();
    A.init(2);
    guard::install();
    struct sigaction sa; memset(&sa, 0, sizeof sa); sa.sa_handler = on_alarm; sa.sa_flags = SA_NODEFER; sigaction(SIGALRM, &sa, nullptr);
    struct itimerval tv = {{1, 0}, {1, 0}}; setitimer(ITIMER_REAL, &tv, nullptr);

    if(vp::replaying()) {
        // case id = family|hex bytes : run exactly these bytes
        const std::string &id = vp::ctx().replay; size_t bar = id.find('|');
        std::string hx = bar == std::string::npos ? "" : id.substr(bar + 1), fam = id.substr(0, bar == std::string::npos ? 0 : bar);
        std::vector<uint8_t> b; for(size_t i = 0; i + 1 < hx.size(); i += 2) b.push_back((uint8_t)strtol(hx.substr(i, 2).c_str(), nullptr, 16));
        run_one(b.data(), b.size(), fam.c_str());
        return vp::finish();
    }

    const int maxlen = T ? 9 : 7;
    vp::bound("exhaustive_alphabet", "00 01 04 7f 80 ff '/' ',' 'a' 'i' 's' 'b'");
    vp::bound("exhaustive_lengths", "0.." + std::to_string(maxlen) + " (every length, all 12^n buffers)");
    exhaustive(maxlen);
    uint64_t n_ex = g_cases;

    // (2) deviation-bounded mutation of every valid message of a small family
    std::vector<std::string> types;
    gen::type_strings(std::string(gen::VALUE_TAGS) + "[]", 0, T ? 3 : 2, types);
    if(!T) gen::type_strings("isbh[]T", 3, 3, types);
    uint64_t top = 0, bases = 0;
    for(auto &ts : types) for(size_t al = 1; al <= 4; ++al, ++top) {
        if(!vp::mine(top)) continue;
        if(vp::deadline_passed()) { vp::cap("deadline in the mutation family at base " + std::to_string(top)); break; }
        std::vector<ref::Arg> args;
        for(char t : ts) if(ref::has_data(t)) {
            ref::Arg a; a.type = t; a.u32 = 0x01020304u; a.u64 = 0x0102030405060708ull; a.m[0] = 0x90; a.m[1] = 0x40; a.m[2] = 0x7f;
            a.s = (args.size() % 2) ? "abc" : "ab"; a.b = {1, 2, 3}; a.b_len = 3; if(args.size() % 2) { a.b = {9, 8, 7, 6, 5}; a.b_len = 5; }
            // second variant of the family (address lengths 3 and 4): strings and blobs that span more than one word
            if(al >= 3) { a.s = (args.size() % 2) ? "abcdefgh" : "abcde"; a.b = {1, 2, 3, 4, 5, 6, 7, 8, 9}; a.b_len = 9; if(args.size() % 2) { a.b = {9, 8, 7, 6}; a.b_len = 4; } }
            args.push_back(a);
        }
        std::string base = ref::encode(gen::address(al), ts, args);
        ref::Decoded d = ref::decode((const uint8_t *)base.data(), base.size());
        ++bases;
        run_one((const uint8_t *)base.data(), base.size(), "base");
        std::vector<std::string> muts; single_deviations(base, d, muts);
        for(auto &m : muts) run_one((const uint8_t *)m.data(), m.size(), "mut1");
        if(T && ts.size() <= 2) {
            // all pairs of byte deviations over 6 key values
            static const uint8_t KV[6] = {0x00, 0x04, 0x2c, 0x62, 0x73, 0xff};
            size_t n = base.size();
            for(size_t p1 = 0; p1 < n; ++p1) for(uint8_t v1 : KV) if((uint8_t)base[p1] != v1)
                for(size_t p2 = p1 + 1; p2 < n; ++p2) for(uint8_t v2 : KV) if((uint8_t)base[p2] != v2) {
                    std::string m = base; m[p1] = (char)v1; m[p2] = (char)v2; run_one((const uint8_t *)m.data(), m.size(), "mut2");
                }
            // blob length edit combined with every truncation
            for(auto &m : muts) if(m.size() == base.size()) for(size_t p = 4; p < m.size(); p += 1) if(m != base && (p % 4 == 0)) { std::string t = m.substr(0, p); run_one((const uint8_t *)t.data(), t.size(), "mut2"); }
        }
        if(top % 101 == 0) vp::sample("base " + vp::hex(base.data(), base.size()) + " -> " + std::to_string(muts.size()) + " single deviations");
    }
    // (2a) large valid messages (blobs and strings of 130..400 bytes that are not the last argument): every truncation, every
    //      byte of the first 40 and of the 16 around each payload boundary set to each of 14 values, blob size field edits
    {
        static const char *LT[] = {"bi", "bs", "sbi", "bbh", "sS"};
        for(const char *ts : LT) for(size_t big : {130u, 200u, 255u, 256u, 384u}) {
            if(!vp::mine(top++)) continue;
            std::vector<ref::Arg> args;
            for(const char *t = ts; *t; ++t) if(ref::has_data(*t)) {
                ref::Arg a; a.type = *t; a.u32 = 0x01020304u; a.u64 = 0x0102030405060708ull;
                a.s = std::string(args.empty() ? big : 3, 'L'); a.b.assign(args.empty() ? big : 5, 0x81); a.b_len = (uint32_t)a.b.size();
                args.push_back(a);
            }
            std::string base = ref::encode("/large", ts, args);
            ref::Decoded d = ref::decode((const uint8_t *)base.data(), base.size());
            run_one((const uint8_t *)base.data(), base.size(), "large");
            for(size_t p = 0; p < base.size(); ++p) run_one((const uint8_t *)base.data(), p, "large-trunc");
            std::set<size_t> pos; for(size_t p = 0; p < 40 && p < base.size(); ++p) pos.insert(p);
            for(auto &a : d.args) for(long q = (long)a.off - 8; q < (long)a.off + 8; ++q) if(q >= 0 && (size_t)q < base.size()) pos.insert((size_t)q);
            for(size_t p = base.size() > 12 ? base.size() - 12 : 0; p < base.size(); ++p) pos.insert(p);
            for(size_t p : pos) for(uint8_t v : SETV) if((uint8_t)base[p] != v) { std::string m = base; m[p] = (char)v; run_one((const uint8_t *)m.data(), m.size(), "large-set"); }
        }
        vp::bound("large_family", "5 type strings with a 130/200/255/256/384-byte blob or string as first argument: every truncation, byte edits in the header and around every payload boundary");
    }
    // (2a') many type tags: n = 100..500 tags, mostly valueless (T F N I), with one or two payload-carrying tags at the front, in the middle,
    //       at index n mod 256 and at the end: the valid message, every truncation of its last 48 bytes, byte edits around the payloads
    {
        for(size_t n : {100u, 200u, 254u, 255u, 256u, 257u, 258u, 260u, 300u, 480u}) for(int place = 0; place < 5; ++place) for(char pay : {'s', 'i', 'b'}) {
            if(!vp::mine(top++)) continue;
            std::string ts; for(size_t k = 0; k < n; ++k) ts += "TFNI"[k % 4];
            size_t at = place == 0 ? 0 : place == 1 ? n / 2 : place == 2 ? n % 256 : place == 3 ? n - 1 : n - 2;
            if(at >= n) at = n - 1;
            ts[at] = pay; if(place == 4) ts[n - 1] = 's';
            std::vector<ref::Arg> args;
            for(char t : ts) if(ref::has_data(t)) { ref::Arg a; a.type = t; a.u32 = 0x01020304u; a.s = "str"; a.b.assign(5, 0x81); a.b_len = 5; args.push_back(a); }
            std::string base = ref::encode("/many", ts, args);
            if(base.size() > 600) continue;
            ref::Decoded d = ref::decode((const uint8_t *)base.data(), base.size());
            run_one((const uint8_t *)base.data(), base.size(), "manytags");
            for(size_t p = base.size() > 48 ? base.size() - 48 : 0; p < base.size(); ++p) run_one((const uint8_t *)base.data(), p, "manytags-trunc");
            std::set<size_t> pos;
            for(auto &a : d.args) for(long q = (long)a.off - 8; q < (long)a.off + 8; ++q) if(q >= 0 && (size_t)q < base.size()) pos.insert((size_t)q);
            for(size_t p : pos) for(uint8_t v : SETV) if((uint8_t)base[p] != v) { std::string m = base; m[p] = (char)v; run_one((const uint8_t *)m.data(), m.size(), "manytags-set"); }
        }
        vp::bound("many_tags_family", "100,200,254..258,260,300,480 type tags with payload tags s/i/b at 5 places: valid message, truncations of the last 48 bytes, byte edits around the payloads");
    }
    // (2a'') several array groups in one message: every well-nested type string of length 5..8 over {i [ ]} with at least two arguments: the
    //        valid message and every truncation (accessors by index must agree with the strict decoder on what is accepted)
    {
        std::vector<std::string> br; gen::type_strings("i[]", 5, 8, br);
        for(auto &ts : br) {
            if(!vp::mine(top++)) continue;
            size_t ni = 0; for(char t : ts) if(t == 'i') ++ni;
            if(ni < 2) continue;
            std::vector<ref::Arg> args; for(size_t k = 0; k < ni; ++k) { ref::Arg a; a.type = 'i'; a.u32 = 10 + (uint32_t)k; args.push_back(a); }
            std::string base = ref::encode("/g", ts, args);
            run_one((const uint8_t *)base.data(), base.size(), "groups");
            for(size_t p = base.size() > 20 ? base.size() - 20 : 0; p < base.size(); ++p) run_one((const uint8_t *)base.data(), p, "groups-trunc");
        }
        vp::bound("bracket_groups_family", "all well-nested type strings of length 5..8 over {i [ ]} with >= 2 arguments: valid message and truncations of its last 20 bytes");
    }
    // (2b) word-exhaustive family: in every valid message of a tiny family, each aligned 4-byte word in turn is replaced by
    //      ALL 12^4 words over the alphabet (reaches what needs two or three deviations inside one word, e.g. an empty
    //      type tag string followed by non-zero padding)
    {
        static const char *WT[] = {"", "i", "s", "b", "ii", "sT", "[i]"};
        for(const char *ts : WT) for(size_t al = 1; al <= 4; ++al, ++top) {
            if(!vp::mine(top)) continue;
            if(vp::deadline_passed()) { vp::cap("deadline in the word-exhaustive family"); break; }
            std::vector<ref::Arg> args;
            for(const char *t = ts; *t; ++t) if(ref::has_data(*t)) { ref::Arg a; a.type = *t; a.u32 = 0x01020304u; a.s = "ab"; a.b = {1, 2, 3}; a.b_len = 3; args.push_back(a); }
            std::string base = ref::encode(gen::address(al), ts, args);
            for(size_t w = 0; w + 4 <= base.size(); w += 4) for(unsigned x = 0; x < 12u * 12 * 12 * 12; ++x) {
                std::string m = base; unsigned y = x;
                for(int k = 3; k >= 0; --k) { m[w + k] = (char)ALPHA[y % 12]; y /= 12; }
                run_one((const uint8_t *)m.data(), m.size(), "word");
            }
        }
        vp::bound("word_exhaustive_family", "7 type strings x address lengths 1..4: every aligned word replaced by all 12^4 words over the alphabet");
    }
    // (3) bundle-shaped buffers: rtosc_message_length must terminate and stay inside for them too
    {
        auto alph = bgen::alphabet(2);
        std::vector<std::vector<int>> seqs; bgen::sequences(alph.size(), 0, 2, seqs);
        uint32_t sizes[] = {0, 1, 3, 4, 5, 8, 12, 0x7fffffffu, 0x80000000u, 0xfffffff0u, 0xfffffff8u, 0xfffffffbu, 0xfffffffcu, 0xfffffffdu, 0xfffffffeu, 0xffffffffu};
        for(size_t si = 0; si < seqs.size(); ++si, ++top) {
            if(!vp::mine(top)) continue;
            if(seqs[si].size() == 2 && !T && (si % 5)) continue;
            std::vector<std::string> eb; for(int i : seqs[si]) eb.push_back(alph[i].bytes);
            std::string base = ref::bundle(bgen::TIMETAGS[si % bgen::N_TIMETAGS], eb);
            run_one((const uint8_t *)base.data(), base.size(), "bundle");
            for(size_t p = 0; p <= base.size(); ++p) run_one((const uint8_t *)base.data(), p, "bundle-trunc");
            // every 4-byte word from offset 16 on replaced by each special size; also appended after the end
            for(size_t p = 16; p <= base.size(); p += 4) for(uint32_t v : sizes) {
                std::string m = base; if(p == base.size()) m.append(4, '\0');
                m[p] = (char)(v >> 24); m[p + 1] = (char)(v >> 16); m[p + 2] = (char)(v >> 8); m[p + 3] = (char)v;
                run_one((const uint8_t *)m.data(), m.size(), "bundle-size");
                if(p + 4 < m.size()) run_one((const uint8_t *)m.data(), p + 4, "bundle-size-trunc");
            }
            for(size_t p = 0; p < base.size() && p < 16; ++p) for(uint8_t v : SETV) { std::string m = base; m[p] = (char)v; run_one((const uint8_t *)m.data(), m.size(), "bundle-hdr"); }
        }
        vp::bound("bundle_family", "bundles of 0..2 elements over the C08 alphabet (nesting <= 2): every truncation, every word from offset 16 replaced by 16 special sizes, header byte edits");
    }
    vp::bound("mutation_bases_this_run", "all type strings of length 0.." + std::string(T ? "3" : "2 (+ length 3 over {i s b h [ ] T})") + " over the 17 symbols x address lengths 1..4");
    vp::bound("mutation_deviations", T ? "all single deviations; all pairs of byte deviations over 6 key values for type strings <= 2" : "all single deviations");
    (void)n_ex; (void)bases;
    vp::sample("ex|2f000000 2c000000 (8-byte message '/' with no arguments)");
    return vp::finish();
}
