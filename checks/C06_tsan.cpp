// C06 auxiliary pass (thorough tier only, NOT deciding): the unhooked ThreadLink on two real threads under
// ThreadSanitizer. The serialising scheduler of the deciding passes only sees the accesses it hooks; this
// free-running pass would expose a race on anything else (e.g. if the ring size or the buffer pointers were
// ever mutated). A ThreadSanitizer report is a violation; silence adds nothing to the claim.
#include <atomic>
#include <thread>
#include <rtosc/rtosc.h>
#include <rtosc/thread-link.h>
#include "common.h"
#include "forkcase.h"

static std::string run_pair(size_t maxmsg, size_t nmsgs, int rounds)
{
    rtosc::ThreadLink tl(maxmsg, nmsgs);
    std::atomic<bool> done(false);
    long bad_order = 0, bad_bytes = 0, got = 0;
    std::thread reader([&] {
        int last = -1;
        while(true) {
            bool fin = done.load();
            while(tl.hasNext()) {
                const char *m = tl.read();
                if(strcmp(m, "/m") || strcmp(rtosc_argument_string(m), "is")) { ++bad_bytes; continue; }
                int v = rtosc_argument(m, 0).i; const char *s = rtosc_argument(m, 1).s;
                if(v <= last) ++bad_order;
                if((v % 3 == 0 && strcmp(s, "abcdefg")) || (v % 3 && strcmp(s, "xy"))) ++bad_bytes;
                last = v; ++got;
            }
            if(fin) break;
            std::this_thread::yield();
        }
    });
    for(int i = 0; i < rounds; ++i) { tl.write("/m", "is", i, i % 3 == 0 ? "abcdefg" : "xy"); if(i % 64 == 0) std::this_thread::yield(); }
    done.store(true);
    reader.join();
    if(bad_order) return "order:" + std::to_string(bad_order);
    if(bad_bytes) return "bytes:" + std::to_string(bad_bytes);
    return "ok:" + std::to_string(got);
}

int main(int argc, char **argv)
{
    vp::init(argc, argv, "C06");
    if(!vp::thorough() || vp::replaying()) return vp::finish();
    const int rounds = 200000;
    for(auto cfg : {std::pair<size_t, size_t>{24, 2}, {24, 3}, {32, 4}, {64, 16}}) {
        std::string cid = "tsan|" + std::to_string(cfg.first) + "x" + std::to_string(cfg.second);
        vp::state(); vp::eval(); vp::nontrivial(vp::fnv(cid));
        forkcase::Result r = forkcase::run([&] { return run_pair(cfg.first, cfg.second, rounds); });
        vp::transition(rounds);
        if(!r.completed) vp::violation("thread-sanitizer-report|free-running|two-real-threads", cid, r.describe() + " (exit code 66 = ThreadSanitizer found a data race)");
        else if(r.text.compare(0, 3, "ok:")) vp::violation("free-running-stream-corrupt|" + r.text.substr(0, r.text.find(':')), cid, r.text);
        else vp::outcome("free-running TSan pass: clean");
        vp::trace();
    }
    vp::bound("auxiliary_tsan_pass", "4 ring configurations x 200000 writes on two real threads under ThreadSanitizer (not deciding)");
    return vp::finish();
}
