// C13 - loading a savefile does not depend on the order of its message lines.
//
// Space: the savefile of every state of C12's state space (apps/save_apps.h, apps/save_common.h) x every
// permutation of its message lines when there are at most L lines (L = 5 quick, 6 thorough); for longer files the
// stated family {adjacent transpositions, rotations, reversal} (not all n!: reported as a cap); additionally, for
// every line of a depended-on port (preset, mode, range, enabling toggles, ...) the file without that line, again
// under all its permutations. Oracle: every permutation loads to the same full canon and the same count as the
// unpermuted file. The applications declare every order dependence they have (rDefaultDepends / rDepends /
// rEnabledBy on the recursing port / rEnabledBy in rSelf); the setter side effects (preset rewrites dependants,
// enabling resets the sub-tree, pos is clamped to range) are what makes the order observable.
//
// Don't-care zones: a file whose unpermuted load is rejected (C12's business) - for such a file only "every
// permutation is rejected too" is required, the state left behind is not compared.
#include "apps/save_common.h"

using namespace sv;

typedef std::vector<int> Perm;
static std::string perm_str(const Perm &p) { std::string s; for(size_t i = 0; i < p.size(); ++i) { if(i) s += "."; s += std::to_string(p[i]); } return s; }
static bool parse_perm(const std::string &s, Perm &p)
{
    p.clear();
    size_t i = 0;
    while(i < s.size()) { size_t q = i; while(q < s.size() && isdigit((unsigned char)s[q])) ++q; if(q == i) return false; p.push_back(atoi(s.substr(i, q - i).c_str())); i = q; if(i < s.size()) { if(s[i] != '.') return false; ++i; } }
    return true;
}

static std::vector<Perm> permutations_of(size_t n, size_t limit, bool &family)
{
    std::vector<Perm> out;
    Perm id(n); for(size_t i = 0; i < n; ++i) id[i] = (int)i;
    family = n > limit;
    if(!family) {
        Perm p = id;
        while(std::next_permutation(p.begin(), p.end())) out.push_back(p);
        return out;
    }
    std::set<Perm> seen; seen.insert(id);
    auto add = [&](const Perm &p) { if(seen.insert(p).second) out.push_back(p); };
    for(size_t i = 0; i + 1 < n; ++i) { Perm p = id; std::swap(p[i], p[i + 1]); add(p); }
    for(size_t k = 1; k < n; ++k) { Perm p(n); for(size_t i = 0; i < n; ++i) p[i] = (int)((i + k) % n); add(p); }
    { Perm p = id; std::reverse(p.begin(), p.end()); add(p); }
    return out;
}

template <class App> const sapp::Param<App> *find_param(const Space<App> &S, const std::string &path)
{
    for(auto &p : S.desc) if(p.path == path) return &p;
    return nullptr;
}

template <class App> struct Loaded { int r; std::string canon; };
template <class App> Loaded<App> load_file(const std::string &case_id, const std::string &file)
{
    App x;
    mark(case_id, "load", file);
    int r = load(x, file);
    vp::transition();
    return Loaded<App>{r, x.canon()};
}

// Narrowing, run once for a state that has a failing permutation: which pairs of lines, loaded as a two-line
// file, give different results in their two orders.
template <class App> std::set<std::string> order_sensitive_pairs(const Space<App> &S, const std::string &case_id, const File &f, const std::vector<std::string> &msgs, const std::vector<std::string> &paths)
{
    std::set<std::string> out;
    for(size_t i = 0; i < msgs.size(); ++i)
        for(size_t j = i + 1; j < msgs.size(); ++j) {
            Loaded<App> a = load_file<App>(case_id, f.header + msgs[i] + "\n" + msgs[j]);
            Loaded<App> b = load_file<App>(case_id, f.header + msgs[j] + "\n" + msgs[i]);
            bool same = (a.r < 0 && b.r < 0) || (a.r == b.r && a.canon == b.canon);
            if(!same) {
                auto *pi = find_param(S, paths[i]), *pj = find_param(S, paths[j]);
                std::string ki = pi ? pi->kind : "unknown", kj = pj ? pj->kind : "unknown";
                if(kj < ki) std::swap(ki, kj);
                out.insert(ki + " <-> " + kj);
            }
        }
    return out;
}

template <class App> void check_perms(const Space<App> &S, const std::string &sid, const std::string &del, const File &f, const std::vector<std::string> &msgs,
                                      const std::vector<std::string> &paths, size_t limit, bool &saw_family, const Perm *only)
{
    const size_t n = msgs.size();
    const std::string base_id = sid + "|" + del;
    Loaded<App> base = load_file<App>(base_id + "|perm:id", join(f.header, msgs));
    if(del == "-" && base.r != (int)n) { vp::outcome(std::string(App::name()) + ":own-file-not-loadable(C12)"); return; }
    bool family = false;
    std::vector<Perm> perms;
    if(only) perms.push_back(*only); else perms = permutations_of(n, limit, family);
    if(family && !saw_family) {
        saw_family = true;
        vp::cap("files with more than " + std::to_string(limit) + " message lines: only adjacent transpositions, rotations and the reversal were loaded, not all n! orders");
    }
    bool narrowed = false;
    size_t bad = 0;
    for(const Perm &p : perms) {
        const std::string id = base_id + "|perm:" + perm_str(p);
        if(!vp::want(id)) continue;
        vp::eval();
        if(p.size() != n) continue;
        std::vector<std::string> m(n);
        for(size_t i = 0; i < n; ++i) m[i] = msgs[p[i]];
        std::string file = join(f.header, m);
        Loaded<App> got = load_file<App>(id, file);
        bool ok = base.r < 0 ? got.r < 0 : (got.r == base.r && got.canon == base.canon);
        if(ok) continue;
        ++bad;
        if(narrowed) continue;       // one report per state and deletion: the first failing permutation
        narrowed = true;
        std::string what = base.r < 0 ? "unpermuted file is rejected (" + std::to_string(base.r) + ") but this order returns " + std::to_string(got.r)
                         : got.r < 0 ? "unpermuted file loads " + std::to_string(base.r) + " messages, this order is rejected (" + std::to_string(got.r) + ")"
                         : got.r != base.r ? "count " + std::to_string(got.r) + " instead of " + std::to_string(base.r)
                         : "state differs: unpermuted " + base.canon + " / permuted " + got.canon;
        std::string clause = base.r < 0 ? "order-accepts-rejected-file" : got.r < 0 ? "order-rejected" : got.r != base.r ? "order-count" : "order-state";
        std::set<std::string> pairs = order_sensitive_pairs(S, id, f, msgs, paths);
        if(pairs.empty()) pairs.insert("only-with-more-than-two-lines");
        for(auto &pr : pairs)
            vp::violation(clause + "|load_from_file|" + pr + (del == "-" ? "" : " (depended-on line absent)"), id, what + "; file: " + vp::show(file.substr(f.header.size(), 500)));
    }
    vp::outcome(std::string(App::name()) + (del == "-" ? ":" : ":del:") + "n=" + std::to_string(n) + (family ? ":family" : ":all") + (bad ? ":ORDER-DEPENDENT" : ":same"));
}

template <class App> void check_state(const Space<App> &S, const Hist &h, size_t limit, bool &saw_family, size_t state_index)
{
    const std::string sid = std::string(App::name()) + "|" + Space<App>::hist_id(h);
    mark(sid + "|save", "save", "");
    App inst;
    S.replay(inst, h);
    if(state_index != (size_t)-1) S.verify(inst, state_index);
    const std::string text = save(inst);
    vp::transition();
    File f = parse_file(text, App::name());
    if(!f.header_ok) { vp::outcome(std::string(App::name()) + ":file-shape(C12)"); return; }
    const size_t n = f.msgs.size();

    // replay: which sub-case
    std::string want_del; Perm want_perm; bool replay = vp::replaying();
    if(replay) {
        const std::string &id = vp::ctx().replay;
        size_t b2 = id.find('|', id.find('|') + 1), b3 = id.find('|', b2 + 1);
        if(b2 == std::string::npos || b3 == std::string::npos || id.compare(b3 + 1, 5, "perm:") != 0) return;
        want_del = id.substr(b2 + 1, b3 - b2 - 1);
        if(!parse_perm(id.substr(b3 + 6), want_perm)) return;
    }

    if(n >= 2 && (!replay || want_del == "-")) {
        vp::nontrivial(vp::fnv(inst.canon()));
        check_perms(S, sid, "-", f, f.msgs, f.paths, limit, saw_family, replay ? &want_perm : nullptr);
        // anti-vacuity only: does the order matter for this application state at all? Apply the lines one by one,
        // last line first, each through its own dispatch_printed_messages call (no sorting possible).
        if(!replay) {
            App base; mark(sid + "|naive", "load", text); int r = load(base, text);
            if(r == (int)n) {
                App naive; bool okall = true;
                for(size_t i = n; i-- > 0;) { mark(sid + "|naive", "dispatch_printed_messages", f.msgs[i]); if(rtosc::dispatch_printed_messages(f.msgs[i].c_str(), App::ports, &naive) != 1) okall = false; }
                bool same = okall && naive.canon() == base.canon();
                vp::outcome(std::string(App::name()) + (same ? ":reversed-unsorted-load-same" : ":reversed-unsorted-load-DIFFERS(sorting needed)"));
                if(!same && n >= 3) vp::sample("order matters for: " + S.show(h) + "  =>  " + vp::show(text.substr(f.header.size(), 300)), 4);
            }
        }
    }
    // files with one depended-on line deleted
    for(size_t k = 0; k < n; ++k) {
        auto *p = find_param(S, f.paths[k]);
        if(!p || !p->depended_on) continue;
        std::string del = "del" + std::to_string(k);
        if(replay && want_del != del) continue;
        std::vector<std::string> m = f.msgs, pa = f.paths;
        m.erase(m.begin() + k); pa.erase(pa.begin() + k);
        if(m.size() < 2) continue;
        check_perms(S, sid, del, f, m, pa, limit, saw_family, replay ? &want_perm : nullptr);
    }
    vp::trace();
}

static uint64_t g_index = 0;

template <class App> void run_app(int depth, int root_depth, size_t limit)
{
    Space<App> S(vp::thorough());
    const std::string app = App::name();
    vp::bound(app + ".alphabet", std::to_string(S.ops.size()) + " parameter messages; " + std::to_string(S.roots.size()) + " many-parameter root states");
    vp::bound(app + ".depth", "all histories of <= " + std::to_string(depth) + " messages from the default instance, <= " + std::to_string(root_depth) + " from each root state");
    vp::bound("permutations", "all n! orders of the message lines for files of <= " + std::to_string(limit) + " lines; for longer files adjacent transpositions, rotations and the reversal only; "
              "the same for every file with one depended-on line removed");
    auto crashed = [&](size_t, const Mark &m, const std::string &how) {
        vp::violation(std::string("crash|") + (strcmp(m.phase, "save") ? "load_from_file|" : "save_to_file|") + app, m.case_id,
                      how + " in phase " + m.phase + "; the rest of this state was skipped; file: " + vp::show(std::string(m.text, m.text_len).substr(0, 600)));
    };
    bool saw_family = false;
    if(vp::replaying()) {
        const std::string &id = vp::ctx().replay;
        size_t b1 = id.find('|'), b2 = id.find('|', b1 == std::string::npos ? 0 : b1 + 1);
        if(b1 == std::string::npos || b2 == std::string::npos || id.substr(0, b1) != app) return;
        Hist h;
        if(!Space<App>::parse_hist(id.substr(b1 + 1, b2 - b1 - 1), h)) return;
        for(uint16_t c : h) if(!(c < S.ops.size() || (c >= ROOT0 && c - ROOT0 < (int)S.roots.size()))) return;
        supervise(app, 1, [&](size_t) { check_state(S, h, limit, saw_family, (size_t)-1); }, crashed);
        return;
    }
    S.explore(depth, root_depth);
    vp::bound(app + ".states", (long long)S.states.size());
    std::vector<size_t> todo;
    for(size_t i = 0; i < S.states.size(); ++i, ++g_index) if(vp::mine(g_index)) todo.push_back(i);
    supervise(app, todo.size(), [&](size_t k) {
        vp::state();
        check_state(S, S.states[todo[k]], limit, saw_family, todo[k]);
    }, crashed);
}

int main(int argc, char **argv)
{
    vp::init(argc, argv, "C13");
    const bool T = vp::thorough();
    const size_t L = T ? 6 : 5;
    run_app<sapp::Flat>(T ? 3 : 2, T ? 2 : 1, L);
    run_app<sapp::Preset>(T ? 5 : 4, T ? 2 : 1, L);
    run_app<sapp::Tree>(T ? 5 : 4, T ? 2 : 1, L);
    run_app<sapp::Synth>(T ? 7 : 6, 0, L);
    run_app<sapp::IntSw>(T ? 5 : 4, 0, L);
    return vp::finish();
}
