// C04 - dispatch delivers a message to exactly the port it addresses.
// Space: every non-empty subset of a name universe as a port table (so that the library's choice of
// lookup strategy - perfect hash or linear scan - and the heuristic hash itself vary), in several
// variants (argument specs, #N leaf, #N sub-tree, default handler, rebuilt through MergePorts),
// nested 2 and 3 levels; x every address derived from the table by single-character edits x type strings.
// Oracle: refmatch.h applied level by level.
#include <algorithm>
#include <map>
#include <set>
#include <rtosc/ports.h>
#include "common.h"
#include "apps/gentree.h"

using namespace gt;

static const char *UNIVERSE[] = {"a", "b", "ab", "ba", "abc", "acb", "aab", "c/d", "a/", "ab/", "c/",
                                 // thorough extension
                                 "abcd", "bc", "bac", "abb", "b/", "abdc", "abc/", "ca", "cab", "d"};
static const char EDIT[] = "abc/0x+- ";      // + - and blank: what a lenient number parser would swallow in front of an index

static std::shared_ptr<Node> small_child()
{
    auto n = std::make_shared<Node>();
    n->ports.push_back(PortDesc{"x", nullptr}); n->ports.push_back(PortDesc{"y:i", nullptr});
    return n;
}

static void expand_indices(const std::string &pat, std::vector<std::string> &out, bool with_invalid)
{
    // concrete spellings of a path pattern (no type spec): every #N replaced by a few indices
    size_t h = pat.find('#');
    if(h == std::string::npos) { out.push_back(pat); return; }
    size_t e = h + 1; while(e < pat.size() && isdigit((unsigned char)pat[e])) ++e;
    unsigned N = (unsigned)atoi(pat.substr(h + 1, e - h - 1).c_str());
    std::vector<std::string> idx = {"0", std::to_string(N - 1)};
    if(with_invalid) { idx.push_back(std::to_string(N)); idx.push_back(std::to_string(N + 1)); idx.push_back("00"); idx.push_back("01"); idx.push_back(""); }
    std::set<std::string> u(idx.begin(), idx.end());
    for(auto &i : u) expand_indices(pat.substr(0, h) + i + pat.substr(e), out, with_invalid);
}

static void addresses_of(Node &n, const std::string &prefix, std::set<std::string> &out, int depth)
{
    for(auto &p : n.ports) {
        std::string path = refmatch::split(p.name).path;
        std::vector<std::string> sp; expand_indices(path, sp, depth == 0);
        for(auto &s : sp) {
            out.insert(prefix + s);
            if(p.child) addresses_of(*p.child, prefix + s, out, depth + 1);
        }
    }
}

static void edits(const std::string &a, std::set<std::string> &out)
{
    out.insert(a);
    for(size_t i = 0; i <= a.size(); ++i) for(const char *c = EDIT; *c; ++c) out.insert(a.substr(0, i) + *c + a.substr(i));   // insert / append
    for(size_t i = 0; i < a.size(); ++i) out.insert(a.substr(0, i) + a.substr(i + 1));                                          // remove
    for(size_t i = 0; i < a.size(); ++i) for(const char *c = EDIT; *c; ++c) if(a[i] != *c) { std::string t = a; t[i] = *c; out.insert(t); } // substitute
}

struct Cap : rtosc::RtData { };

static char g_loc[256];
static char g_msgbuf[128];

// the library scans linearly when a table has a '#' port and otherwise tries to build a perfect hash
static std::string lookup_kind(Node &n) { for(auto &p : n.ports) if(p.name.find('#') != std::string::npos) return "table-with-#(linear)"; return "table-without-#(hash-attempted)"; }

static std::string classify(Node &root, const std::string &addr)
{
    // shape class for signatures: lookup strategy of the root table + what the address is relative to the port names
    std::string k = lookup_kind(root);
    std::string first = addr.substr(0, addr.find('/') == std::string::npos ? addr.size() : addr.find('/') + 1);
    bool exact = false, longer = false, shorter = false;
    for(auto &p : root.ports) {
        std::string nm = refmatch::split(p.name).path;
        if(nm == addr && nm.find('/') != std::string::npos && nm.find('/') + 1 < nm.size()) return k + ",address-names-a-multi-component-port";
        if(nm == first || nm == addr) exact = true;
        else if(first.compare(0, nm.size(), nm) == 0 && first.size() > nm.size()) longer = true;
        else if(nm.compare(0, first.size(), first) == 0) shorter = true;
    }
    return k + (exact ? ",first-component-names-a-port" : longer ? ",first-component-extends-a-port-name" : shorter ? ",first-component-is-prefix-of-a-port-name" : ",first-component-unrelated");
}

static uint64_t g_tables = 0;
static uint64_t g_out[6][4][2];
static int g_cur_linear = 0;

static void run_message(Node &root, const std::string &tid, const std::string &addr, const char *types)
{
    std::string cid = tid + "|a=" + addr + "|t=" + types;
    if(!vp::want(cid)) return;
    vp::current_case() = cid;
    // message "/addr" ",types" (arguments are not read by the recording callbacks)
    memset(g_msgbuf, 0, sizeof g_msgbuf);
    std::string full = "/" + addr;
    if(full.size() + 16 > sizeof g_msgbuf) return;
    memcpy(g_msgbuf, full.data(), full.size());
    size_t off = full.size() + (4 - full.size() % 4);
    g_msgbuf[off] = ','; strcpy(g_msgbuf + off + 1, types);
    std::vector<Exp> exp; expect(root, addr, types, "/", exp);
    size_t must_leaf = 0; for(auto &e : exp) if(e.kind == LEAF && !e.optional) ++must_leaf;
    vp::eval();
    Recorder &rec = R();
    static const char *MODE[6] = {"no-location-buffer", "location-buffer", "location-buffer,base_dispatch=false",
                                  "location-buffer,base_dispatch=false,prefix-followed-by-garbage", "location-buffer,message-at-unaligned-address",
                                  "location-buffer-of-exactly-the-address-length"};
    static char ualigned[sizeof g_msgbuf + 8];
    for(int mode = 0; mode < 6; ++mode) {
        const char *mbuf = g_msgbuf;
        if(mode == 4) { size_t k = 1 + (vp::fnv(cid) % 3); memcpy(ualigned + k, g_msgbuf, sizeof g_msgbuf); mbuf = ualigned + k; }   // the bytewise API allows any address
        rec.rec.clear(); rec.msg_base = mbuf;
        Cap d; d.obj = &root.obj_tag; d.matches = 0; d.port = nullptr;
        if(mode >= 1) { memset(g_loc, 0, sizeof g_loc); d.loc = g_loc; d.loc_size = sizeof g_loc; }
        if(mode == 5) { if(full.size() + 2 > sizeof g_loc) continue; d.loc_size = full.size() + 1; g_loc[full.size() + 1] = 0x7e; }     // room for the address and its terminator, nothing more
        // mode 3: the caller hands over the prefix "/" as a C string; what lies behind its terminator is the caller's business
        if(mode == 3) { memset(g_loc, 'Z', sizeof g_loc - 1); g_loc[0] = '/'; g_loc[1] = 0; }
        if(mode == 2 || mode == 3) root.built->dispatch(mbuf + 1, d, false); else root.built->dispatch(mbuf, d, true);
        vp::transition();
        struct Lazy { Node &r; const std::string &a; int m; operator std::string() const { return std::string(MODE[m]) + "|" + classify(r, a); } } lazy{root, addr, mode};
#define shape std::string(lazy)
        // compare invocations
        std::multiset<int> got_leaf, got_sub; int defaults = 0;
        for(auto &r : rec.rec) { if(r.kind == LEAF) got_leaf.insert(r.port_id); else if(r.kind == SUBTREE) got_sub.insert(r.port_id); else ++defaults; }
        bool bad = false;
        for(auto &e : exp) {
            auto &g = e.kind == LEAF ? got_leaf : got_sub;
            size_t n = g.count(e.port_id);
            if(!e.optional && n != 1) { vp::violation(std::string(n == 0 ? "callback-not-invoked" : "callback-invoked-more-than-once") + "|" + shape, cid, std::string(e.kind == LEAF ? "leaf" : "sub-tree") + " port id " + std::to_string(e.port_id) + " invoked " + std::to_string(n) + " times for address '/" + addr + "' types '" + types + "'"); bad = true; break; }
            if(e.optional && n > 1) { vp::violation("callback-invoked-more-than-once|" + shape, cid, "port id " + std::to_string(e.port_id)); bad = true; break; }
        }
        if(!bad) for(auto &r : rec.rec) if(r.kind != DEFAULT) {
            bool expected = false; for(auto &e : exp) if(e.kind == r.kind && e.port_id == r.port_id) expected = true;
            if(!expected) { vp::violation("wrong-callback-invoked|" + shape, cid, std::string(r.kind == LEAF ? "leaf" : "sub-tree") + " port id " + std::to_string(r.port_id) + " invoked for address '/" + addr + "' types '" + types + "', which does not match it"); bad = true; break; }
        }
        if(bad) continue;
        // what the callbacks saw
        for(auto &r : rec.rec) if(r.kind == LEAF) {
            const Exp *e = nullptr; for(auto &x : exp) if(x.kind == LEAF && x.port_id == r.port_id) e = &x;
            if(r.obj != e->obj) vp::violation("wrong-runtime-object|" + shape, cid, "leaf port id " + std::to_string(r.port_id) + " did not get the object its parent levels hand down");
            if(!r.port || r.port->name == nullptr) vp::violation("port-pointer|" + shape, cid, "d.port not set");
            if(mode >= 1 && r.loc != e->loc) vp::violation("location-not-full-address|" + shape, cid, "callback saw loc '" + r.loc + "', address is '" + e->loc + "'");
        }
        // d.port == &port for leaves: compare the name pointer through the recorded Port*
        if(mode == 5 && (unsigned char)g_loc[full.size() + 1] != 0x7e) vp::violation("write-behind-location-buffer|" + shape, cid, "the byte behind a location buffer of " + std::to_string(full.size() + 1) + " bytes was written");
        if(mode <= 1 || mode >= 4) {
            int leaf_calls = (int)got_leaf.size();
            if((mode == 1 || mode >= 4) && d.matches != leaf_calls + defaults) vp::violation("match-count|" + shape, cid, "d.matches=" + std::to_string(d.matches) + ", leaf callbacks invoked=" + std::to_string(leaf_calls) + ", default handler=" + std::to_string(defaults));
        }
#undef shape
        g_out[mode][got_leaf.empty() ? (defaults ? 1 : 0) : (got_leaf.size() == 1 ? 2 : 3)][g_cur_linear]++;
    }
    (void)must_leaf;
}

static void run_table(std::shared_ptr<Node> root, const std::string &tid, bool all_types)
{
    int np = 0, nn = 0;
    build(*root, np, nn);
    ++g_tables;
    g_cur_linear = lookup_kind(*root)[11] == '#' ? 1 : 0;
    vp::state(); vp::nontrivial(vp::fnv(tid)); vp::trace();
    std::set<std::string> base, msgs;
    addresses_of(*root, "", base, 0);
    for(auto &a : base) edits(a, msgs);
    static const char *TY_ALL[6] = {"", "i", "f", "ii", "T", "s"};
    bool has_spec = false; std::function<void(Node &)> scan = [&](Node &n) { for(auto &p : n.ports) { if(p.name.find(':') != std::string::npos) has_spec = true; if(p.child) scan(*p.child); } }; scan(*root);
    for(auto &a : msgs) {
        if(a.find("//") != std::string::npos && a.size() > 6) continue;
        if(has_spec || all_types) for(const char *t : TY_ALL) run_message(*root, tid, a, t);
        else { run_message(*root, tid, a, ""); run_message(*root, tid, a, "i"); }
    }
}

static std::shared_ptr<Node> make_table(const std::vector<std::string> &names, int variant, bool dh, std::shared_ptr<Node> child_for_all = nullptr)
{
    auto n = std::make_shared<Node>();
    static const char *SPEC[5] = {":", ":i", "::i:f", ":ii:f", ":if:s:T"};
    size_t k = 0; bool done_leaf = false, done_sub = false;
    for(auto nm : names) {
        PortDesc p;
        bool sub = !nm.empty() && nm.back() == '/';
        if(variant == 1 && !sub) nm += SPEC[k % 5];
        if(variant == 1 && sub && k % 2) nm += (k % 4 == 1) ? "::i" : ":i:f";   // sub-tree ports may carry an argument spec too
        if(variant == 2 && !sub && !done_leaf) { nm += "#3"; done_leaf = true; }
        if(variant == 3 && sub && !done_sub) { nm = nm.substr(0, nm.size() - 1) + "#12/"; done_sub = true; }
        if(variant == 3 && !sub && !done_leaf && k + 1 == names.size() && !done_sub) { nm += "#12"; done_leaf = true; }
        p.name = nm;
        if(sub) p.child = child_for_all ? child_for_all : small_child();
        n->ports.push_back(p);
        ++k;
    }
    n->default_handler = dh;
    return n;
}

int main(int argc, char **argv)
{
    vp::init(argc, argv, "C04");
    const bool T = vp::thorough();
    const int U = T ? 16 : 11;
    vp::bound("name_universe", [&] { std::string s; for(int i = 0; i < U; ++i) s += std::string(UNIVERSE[i]) + " "; return s; }());
    vp::bound("tables_level1", "every non-empty subset of the universe (" + std::to_string((1u << U) - 1) + ") x variants {plain, argument specs, one #3 leaf, one #12 sub-tree/leaf} x {no default handler, default handler}" + (T ? "; for subsets of more than 12 names only the plain and spec variants" : ""));
    vp::bound("messages", "per table: every leaf address (indices 0,N-1,N,N+1,00,01,none) and every single-character insertion/removal/substitution over 'abc/0x+- ' x type strings {'' i f ii T s} (tables without specs: '' and i)");
    vp::bound("dispatch_modes", "without location buffer / with location buffer / with location buffer and base_dispatch=false / the same with garbage behind the prefix's terminator / with location buffer and the message at an address that is not a multiple of 4 / with a location buffer of exactly address length + 1");

    // replay: tid encodes how to rebuild the table
    uint64_t top = 0;
    for(uint32_t mask = 1; mask < (1u << U); ++mask, ++top) {
        if(!vp::mine(top)) continue;
        if(vp::deadline_passed()) { vp::cap("deadline at table mask " + std::to_string(mask)); break; }
        std::vector<std::string> names; for(int i = 0; i < U; ++i) if(mask & (1u << i)) names.push_back(UNIVERSE[i]);
        int nvar = (T && names.size() > 12) ? 2 : 4;
        for(int variant = 0; variant < nvar; ++variant) for(int dh = 0; dh < 2; ++dh) {
            if(names.size() > 8 && dh == 1 && variant >= 2) continue;
            std::string tid = "L1|m" + std::to_string(mask) + "|v" + std::to_string(variant) + "|d" + std::to_string(dh);
            if(vp::replaying() && vp::ctx().replay.compare(0, tid.size() + 1, tid + "|") != 0) continue;
            run_table(make_table(names, variant, dh), tid, false);
        }
        if(mask % 509 == 1) { std::string s; for(auto &n : names) s += n + " "; vp::sample("table {" + s + "} x 4 variants x default handler on/off"); }
    }
    // ---- large tables (the statement speaks of 1..24 names) and indices with several digits
    {
        static const char *BIG[] = {"a", "b", "ab", "ba", "abc", "acb", "aab", "c/d", "a/", "ab/", "c/", "abcd", "bc", "bac", "abb", "b/", "abdc", "abc/", "ca", "cab", "d",
                                    "dd", "abcde", "abced", "a_rather_long_port_name", "a_rather_long_port_namf"};
        for(int n : {13, 17, 21, 24, 26}) for(int variant = 0; variant < 3; ++variant, ++top) {
            if(!vp::mine(top)) continue;
            std::vector<std::string> names(BIG, BIG + n);
            if(variant == 1) { names[3] = "ba#100"; names[8] = "a#128/"; }          // indices 0, 99, 100, 101 / 0, 127, 128, 129
            if(variant == 2) for(int i = 0; i < n; i += 2) if(names[i].back() != '/') names[i] += (i % 4) ? ":i" : ":ii:f";
            std::string tid = "BIG|n" + std::to_string(n) + "|v" + std::to_string(variant);
            if(vp::replaying() && vp::ctx().replay.compare(0, tid.size() + 1, tid + "|") != 0) continue;
            run_table(make_table(names, 0, variant == 1), tid, variant == 2);
        }
        vp::bound("tables_large", "first 13/17/21/24/26 names of a 26-name universe, plain / with ba#100 and a#128/ / with argument specs");
    }
    // ---- names of special shape in otherwise literal tables: sub-tree ports with several components ("b/c/", "osc/mod/") and one very
    // long port name next to short ones (the short ones must stay reachable whatever the lookup strategy does with the long one)
    {
        static const char *MU[] = {"a", "pan", "b/c/", "osc/mod/", "ab/", "b"};
        for(uint32_t m = 1; m < 64; ++m) for(int dh = 0; dh < 2; ++dh, ++top) {
            if(!vp::mine(top)) continue;
            if(!(m & 0xC)) continue;                                          // at least one multi-component sub-tree
            std::vector<std::string> names; for(int i = 0; i < 6; ++i) if(m & (1u << i)) names.push_back(MU[i]);
            std::string tid = "MC|m" + std::to_string(m) + "|d" + std::to_string(dh);
            if(vp::replaying() && vp::ctx().replay.compare(0, tid.size() + 1, tid + "|") != 0) continue;
            run_table(make_table(names, 0, dh), tid, false);
        }
        for(int L : {100, 300, 600, 900, 1000, 1024, 1100, 1500, 3000}) for(int sub = 0; sub < 2; ++sub) for(int dh = 0; dh < 2; ++dh, ++top) {
            if(!vp::mine(top)) continue;
            std::string big(L, 'z'); for(int k = 0; k < L; k += 7) big[k] = (char)('a' + (k / 7) % 26);
            std::vector<std::string> names = {"volume", sub ? big + "/" : big, "pan", "vol/"};
            std::string tid = "LONG|L" + std::to_string(L) + "|s" + std::to_string(sub) + "|d" + std::to_string(dh);
            if(vp::replaying() && vp::ctx().replay.compare(0, tid.size() + 1, tid + "|") != 0) continue;
            run_table(make_table(names, 0, dh), tid, false);
        }
        {
            static const char *MX[] = {"vol1", "vol2", "vol3", "vol4", "pan1", "l", "r", "on", "fm", "x"};
            for(uint32_t m = 0; m < 1024; ++m, ++top) {
                if(__builtin_popcount(m) < 6 || !vp::mine(top)) continue;
                std::vector<std::string> names; for(int i = 0; i < 10; ++i) if(m & (1u << i)) names.push_back(MX[i]);
                std::string tid = "MX|m" + std::to_string(m);
                if(vp::replaying() && vp::ctx().replay.compare(0, tid.size() + 1, tid + "|") != 0) continue;
                run_table(make_table(names, 0, false), tid, false);
            }
        }
        vp::bound("tables_mixer", "all subsets of 6..10 of {vol1 vol2 vol3 vol4 pan1 l r on fm x}");
        vp::bound("tables_special_names", "subsets of {a pan b/c/ osc/mod/ ab/ b} with a multi-component sub-tree; {volume, pan, vol/} next to one name of 100..3000 characters (leaf or sub-tree)");
    }
    // ---- nesting: 2 and 3 levels
    {
        const char *PU[] = {"a", "s/", "ab/", "b"};
        const char *CU[] = {"x", "xy", "x/", "y:i", "x#2"};
        std::vector<std::shared_ptr<Node>> dummy;
        for(uint32_t pm = 1; pm < 16; ++pm) for(uint32_t cm = 1; cm < 32; ++cm, ++top) {
            if(!vp::mine(top)) continue;
            std::vector<std::string> pn, cn; for(int i = 0; i < 4; ++i) if(pm & (1u << i)) pn.push_back(PU[i]); for(int i = 0; i < 5; ++i) if(cm & (1u << i)) cn.push_back(CU[i]);
            bool has_sub = false; for(auto &s : pn) if(s.back() == '/') has_sub = true;
            if(!has_sub) continue;
            for(int gv = 0; gv < 3; ++gv) for(int dh = 0; dh < 2; ++dh) {
                std::string tid = "L23|p" + std::to_string(pm) + "|c" + std::to_string(cm) + "|g" + std::to_string(gv) + "|d" + std::to_string(dh);
                if(vp::replaying() && vp::ctx().replay.compare(0, tid.size() + 1, tid + "|") != 0) continue;
                // grandchild for the child's "x/" port: three shapes
                std::shared_ptr<Node> gc = std::make_shared<Node>();
                if(gv == 0) { gc->ports.push_back(PortDesc{"q", nullptr}); }
                else if(gv == 1) { gc->ports.push_back(PortDesc{"q", nullptr}); gc->ports.push_back(PortDesc{"qr", nullptr}); gc->ports.push_back(PortDesc{"r#2", nullptr}); }
                else { gc->ports.push_back(PortDesc{"q:i", nullptr}); gc->ports.push_back(PortDesc{"rq", nullptr}); gc->ports.push_back(PortDesc{"qr", nullptr}); gc->ports.push_back(PortDesc{"rr", nullptr}); }
                auto child = make_table(cn, 0, dh, gc);
                auto root = make_table(pn, 0, false, child);
                run_table(root, tid, true);
            }
        }
        vp::bound("tables_nested", "parents: subsets of {a s/ ab/ b} with a sub-tree; children: all 31 subsets of {x xy x/ y:i x#2} (with and without default handler); 3 grandchild shapes under x/");
    }
    vp::outcome("tables built", g_tables);
    { static const char *MO[6] = {"no-location-buffer", "location-buffer", "location-buffer,base_dispatch=false", "loc,base_dispatch=false,garbage-behind-prefix", "loc,unaligned-message", "loc,exact-size"}; static const char *WH[4] = {"nothing invoked", "default handler", "one leaf", "several leaves"};
      for(int m = 0; m < 6; ++m) for(int w = 0; w < 4; ++w) for(int l = 0; l < 2; ++l) if(g_out[m][w][l]) vp::outcome(std::string(MO[m]) + ":" + (l ? "table-with-#" : "table-without-#") + ":" + WH[w], g_out[m][w][l]); }
    return vp::finish();
}
