// C20 - learned MIDI controller: the real MidiMappernRT and MidiMapperRT connected by two harness-owned FIFO
// channels (N2R: MidiMappernRT::rt_cb, R2N: MidiMapperRT frontend); the backend callback records parameter
// messages. BFS over user events (map/unMap/clear), controller events (CC) and the delivery of the head
// of either channel, so every admissible interleaving of the two halves is a path. At most 2 messages are
// in flight per channel (stated cap: an event that would exceed it is not enabled).
//
// Two-sided reference model (from the property statement and include/rtosc/miditable.h):
//   nRT side : learn FIFO of (address, coarse|fine); assignment address -> (coarse id, fine id).
//              A delivered "controller id is free" report assigns id to the head of the FIFO.
//   channel  : every snapshot message (midi-bind) carries the model's assignment as of its sending.
//   RT side  : view = assignment carried by the last *delivered* snapshot; per address and half the last
//              7-bit value its controller sent (unknown after the half's controller changed).
//   CC(id,v) : id assigned in the view -> exactly one backend message, to that address, with the port's type,
//              inside [min,max], inside the linear band of the composed 14-bit value, monotone in v;
//              otherwise no backend message. An unassigned id must be reported free (once) when a queued
//              address has been announced to the RT side and nobody claimed it; it must not be reported
//              again while its report or its assignment is still in flight.
// Don't-care zones: exact scaling constant of the bijection (x/16383 and x/16384 both accepted), rounding of
// integer parameters, the 7-bit half whose controller has not sent anything since it was (re)assigned,
// whether map() of an assigned (address,half) drops the old controller at once, whether unMap() of a queued
// address leaves it queued, reports of free controllers that nobody waits for, duplicate map() requests.
#include <cmath>
#include <deque>
#include <functional>
#include <set>
#include <rtosc/ports.h>
#include <rtosc/port-sugar.h>
#include <rtosc/miditable.h>
#include "bfs.h"
#include "refosc.h"

namespace { struct Synth { int p; int q; float r; float w; }; }
#define rObject Synth
// two variants of the application: /q with a range that crosses zero, and with a wholly negative range (where any
// rounding away from the true value at the upper end leaves the range)
static const rtosc::Ports g_ports_a = {
    rParamI(p, rLinear(0, 127), "int 0..127"),
    rParamI(q, rLinear(-10, 10), "int -10..10"),
    rParamF(r, rLinear(-1, 1), "float -1..1"),
    rParamF(w, rLinear(0, 1000), "float 0..1000"),
};
static const rtosc::Ports g_ports_b = {
    rParamI(p, rLinear(0, 127), "int 0..127"),
    rParamI(q, rLinear(-100, -10), "int -100..-10"),
    rParamF(r, rLinear(-1, 1), "float -1..1"),
    rParamF(w, rLinear(0, 1000), "float 0..1000"),
};
#undef rObject
static const rtosc::Ports *g_portsp = &g_ports_b;
#define g_ports (*g_portsp)

struct PInfo { const char *path; char type; double mn, mx; const char *cls; };
static PInfo PORT[4] = {{"/p", 'i', 0, 127, "int-0-127"}, {"/q", 'i', -100, -10, "int-negative"}, {"/r", 'f', -1, 1, "float"}, {"/w", 'f', 0, 1000, "float-wide"}};
static void select_variant(char v)
{
    if(v == 'a') { g_portsp = &g_ports_a; PORT[1] = PInfo{"/q", 'i', -10, 10, "int-signed"}; }
    else { g_portsp = &g_ports_b; PORT[1] = PInfo{"/q", 'i', -100, -10, "int-negative"}; }
}
enum { NID = 6 };
static const int IDS[NID] = {1, 2, 3, 4, 5, 6};
static int g_nids = 3;    // controller ids in the alphabet (tier dependent)
static const int VEXP[2] = {0, 127};
static const int VSWEEP[5] = {0, 1, 64, 126, 127};
static int g_naddr = 3;   // addresses in the alphabet (tier dependent)
enum { NA = 4, CAP = 2 };
enum { OP_MAP = 0, OP_UNMAP = 2 * NA, OP_CLEAR = 4 * NA, OP_CC = 4 * NA + 1, OP_DN2R = OP_CC + 2 * NID, OP_DR2N = OP_DN2R + 1, OP_SWEEP = OP_DR2N + 1, OP_END = OP_SWEEP + NID };
enum { K_WATCH = 0, K_BIND = 1, K_OTHER = 2, K_UNWATCH = 3 };

struct Emit { bool ok; std::string addr, types; uint32_t u32; };
struct Snap { int a[NA][2]; bool operator==(const Snap &o) const { return memcmp(a, o.a, sizeof a) == 0; } };
struct Msg { std::string bytes; int kind; rtosc::MidiMapperStorage *st; Snap snap; };

static std::string fstr(double v) { char b[40]; snprintf(b, sizeof b, "%.9g", v); return b; }
static void put(std::string &s, long v)
{
    char b[20]; int n = 0; unsigned long u = (unsigned long)v & 0xffffffffUL;
    do { b[n++] = "0123456789abcdef"[u & 15]; u >>= 4; } while(u);
    b[n++] = ' ';
    s.append(b, n);
}
static Emit decode_msg(const char *msg, size_t max)
{
    Emit e; e.ok = false; e.u32 = 0;
    size_t len = rtosc_message_length(msg, max);
    ref::Decoded d = ref::decode((const uint8_t *)msg, len ? len : max);
    if(d.ok && d.args.size() <= 1 && (d.args.empty() || d.args[0].type == 'i' || d.args[0].type == 'f')) { e.ok = true; e.addr = d.addr; e.types = d.types; e.u32 = d.args.empty() ? 0 : d.args[0].u32; }
    else e.addr = std::string(msg, strnlen(msg, 64));
    return e;
}

struct Sys {
    struct Inst {
        rtosc::MidiMappernRT nrt;
        rtosc::MidiMapperRT rt;
        std::deque<Msg> n2r;
        std::deque<Msg> r2n;                       // snap unused; st unused
        std::vector<Emit> backend;
        std::vector<rtosc::MidiMapperStorage *> allst;   // every snapshot object the library announced (freed by the harness)
        // ---- model
        std::deque<std::pair<int, int>> fifo;      // (address, half) half 0 = coarse, 1 = fine
        Snap assign;                               // nRT side
        Snap view;                                 // RT side
        int known[NA][2];                          // last 7-bit value sent by the controller of that half, -1 unknown
        bool diverged = false, pruned = false;
        int rep[NID] = {0};                        // fate of the last free-report per controller: 0 none, 1 in flight, 2 answered, 3 ignored
        bool snap_since[NID] = {false};// a snapshot reached the realtime half since the controller's last free-report
        int dup[NID] = {0};                        // a controller was reported free while its previous report / assignment was still under way:
                                                   // 1 with no snapshot delivered in between, 2 after a snapshot (part of the canon)
                                                   // (only names the shape class of a finding; not part of the canon)
        Inst()
        {
            memset(assign.a, -1, sizeof assign.a); memset(view.a, -1, sizeof view.a); memset(known, -1, sizeof known);
            nrt.base_ports = &g_ports;
            nrt.rt_cb = [this](const char *msg) {
                Msg m; size_t len = rtosc_message_length(msg, 1024);
                m.bytes.assign(msg, len); m.st = nullptr; m.kind = K_OTHER; memset(m.snap.a, -1, sizeof m.snap.a);
                if(!strcmp(msg, "/midi-learn/midi-add-watch")) m.kind = K_WATCH;
                else if(!strcmp(msg, "/midi-learn/midi-remove-watch")) m.kind = K_UNWATCH;   // not sent by the library today; harmless for the model
                else if(!strcmp(msg, "/midi-learn/midi-bind") && !strcmp(rtosc_argument_string(msg), "b") && rtosc_argument(msg, 0).b.len == sizeof(void *)) {
                    m.kind = K_BIND; m.st = *(rtosc::MidiMapperStorage **)rtosc_argument(msg, 0).b.data; allst.push_back(m.st);
                }
                n2r.push_back(m);
            };
            rt.setFrontendCb([this](const char *msg) { Msg m; m.bytes.assign(msg, rtosc_message_length(msg, 1024)); m.kind = K_OTHER; m.st = nullptr; r2n.push_back(m); });
            rt.setBackendCb([this](const char *msg) { backend.push_back(decode_msg(msg, 1024)); });
        }
        Inst(const Inst &) = delete;
        ~Inst()
        {
            // the library never frees a snapshot ("TODO memory deallocation"); do it here so that millions of
            // instances per worker do not exhaust memory. Pointers are de-duplicated first.
            std::set<rtosc::MidiMapperStorage *> st(allst.begin(), allst.end());
            if(nrt.storage) st.insert(nrt.storage);
            if(rt.storage) st.insert(rt.storage);
            std::set<void *> m, c, v;
            for(auto *s : st) { m.insert(s->mapping.t); c.insert(s->callbacks.t); v.insert(s->values.t); }
            for(void *p : m) delete[](std::tuple<int, bool, int> *)p;
            for(void *p : c) delete[](rtosc::MidiMapperStorage::callback_t *)p;
            for(void *p : v) delete[](int *)p;
            for(auto *s : st) delete s;
        }
        int use_id(const Msg &m) const
        {
            if(strcmp(m.bytes.c_str(), "/midi-use-CC") || strcmp(rtosc_argument_string(m.bytes.data()), "i")) return -1000;
            return rtosc_argument(m.bytes.data(), 0).i;
        }
        bool in_fifo(int a, int k) const { for(auto &e : fifo) if(e.first == a && e.second == k) return true; return false; }
        int watches_in_flight() const { int n = 0; for(auto &m : n2r) n += m.kind == K_WATCH; return n; }
        static bool snap_has(const Snap &s, int id) { for(int a = 0; a < NA; ++a) for(int k = 0; k < 2; ++k) if(s.a[a][k] == id) return true; return false; }
    };

    static bool probe(int op) { return op >= OP_SWEEP; }
    static std::string opname(int op)
    {
        char b[64];
        if(op < OP_UNMAP) snprintf(b, sizeof b, "map(%s,%s)", PORT[op / 2].path, op % 2 ? "fine" : "coarse");
        else if(op < OP_CLEAR) snprintf(b, sizeof b, "unMap(%s,%s)", PORT[(op - OP_UNMAP) / 2].path, (op - OP_UNMAP) % 2 ? "fine" : "coarse");
        else if(op == OP_CLEAR) snprintf(b, sizeof b, "clear()");
        else if(op < OP_DN2R) snprintf(b, sizeof b, "CC(%d,%d)", IDS[(op - OP_CC) / 2], VEXP[(op - OP_CC) % 2]);
        else if(op == OP_DN2R) snprintf(b, sizeof b, "deliverN2R");
        else if(op == OP_DR2N) snprintf(b, sizeof b, "deliverR2N");
        else snprintf(b, sizeof b, "CCsweep(%d)", IDS[op - OP_SWEEP]);
        return b;
    }

    static void ops(const Inst &I, std::vector<int> &out)
    {
        if(I.diverged || I.pruned) return;
        const int room = CAP - (int)I.n2r.size();
        for(int a = 0; a < g_naddr; ++a) for(int k = 0; k < 2; ++k) {
            int need = I.in_fifo(a, k) ? 0 : (I.assign.a[a][k] != -1 ? 2 : 1);
            if(need <= room) out.push_back(OP_MAP + a * 2 + k);
        }
        for(int a = 0; a < g_naddr; ++a) for(int k = 0; k < 2; ++k) if((I.assign.a[a][k] != -1 ? 1 : 0) <= room) out.push_back(OP_UNMAP + a * 2 + k);
        if(room >= 1) out.push_back(OP_CLEAR);
        if((int)I.r2n.size() < CAP) for(int k = 0; k < 2 * g_nids; ++k) out.push_back(OP_CC + k);
        if(!I.n2r.empty()) out.push_back(OP_DN2R);
        if(!I.r2n.empty() && (I.fifo.empty() ? 0 : 1) <= room) out.push_back(OP_DR2N);
        if((int)I.r2n.size() < CAP) for(int k = 0; k < g_nids; ++k) out.push_back(OP_SWEEP + k);
    }

    static void bad(Inst &I, bool check, const std::string &sig, const std::string &detail)
    {
        if(check) vp::violation(sig, vp::current_case(), detail);
        I.diverged = true;
    }
    static std::string show_snap(const Snap &s)
    {
        std::string o = "{";
        for(int a = 0; a < NA; ++a) if(s.a[a][0] != -1 || s.a[a][1] != -1) o += std::string(PORT[a].path) + ":coarse=" + std::to_string(s.a[a][0]) + ",fine=" + std::to_string(s.a[a][1]) + " ";
        return o + "}";
    }
    static std::string show_msg(const Emit &e)
    {
        if(!e.ok) return "undecodable '" + vp::show(e.addr) + "'";
        std::string s = e.addr + " ," + e.types;
        if(e.types == "f") { float f; memcpy(&f, &e.u32, 4); s += " " + fstr(f); }
        else if(e.types == "i") s += " " + std::to_string((int32_t)e.u32);
        return s;
    }
    static std::string show_msgs(const std::vector<Emit> &v) { std::string s = "["; for(size_t i = 0; i < v.size(); ++i) s += (i ? "; " : "") + show_msg(v[i]); return s + "]"; }

    // nRT half of the object against the model: learn queue and assignment of every address
    static bool verify_nrt(Inst &I, bool check, const char *site, const char *shape)
    {
        bool ok = I.nrt.learnQueue.size() == I.fifo.size();
        for(size_t i = 0; ok && i < I.fifo.size(); ++i) ok = I.nrt.learnQueue[i].first == PORT[I.fifo[i].first].path && I.nrt.learnQueue[i].second == (I.fifo[i].second == 0);
        if(!ok) {
            std::string g, e;
            for(auto &x : I.nrt.learnQueue) g += x.first + (x.second ? ":coarse " : ":fine ");
            for(auto &x : I.fifo) e += std::string(PORT[x.first].path) + (x.second == 0 ? ":coarse " : ":fine ");
            bad(I, check, std::string("learn-queue|") + site + "|" + shape, "learn queue of the object [" + g + "], model [" + e + "]");
            return false;
        }
        for(int a = 0; a < NA; ++a) {
            int c = I.nrt.getCoarse(PORT[a].path), f = I.nrt.getFine(PORT[a].path);
            bool has = I.nrt.has(PORT[a].path);
            if(c != I.assign.a[a][0] || f != I.assign.a[a][1] || has != (I.assign.a[a][0] != -1 || I.assign.a[a][1] != -1)) {
                bad(I, check, std::string("assignment|") + site + "|" + shape, std::string(PORT[a].path) + ": object has=" + std::to_string(has) + " coarse=" + std::to_string(c) + " fine=" + std::to_string(f) +
                    ", model " + show_snap(I.assign));
                return false;
            }
        }
        return true;
    }
    // snapshots announced during the operation carry the model's assignment; a changed assignment must be announced
    static bool stamp(Inst &I, bool check, size_t n0, bool changed, const char *site, const char *shape)
    {
        int binds = 0;
        for(size_t i = n0; i < I.n2r.size(); ++i) {
            if(I.n2r[i].kind == K_BIND) { I.n2r[i].snap = I.assign; ++binds; }
            // other messages to the realtime side are carried and delivered like any other (the delivery must be understood)
        }
        if(changed && !binds) { bad(I, check, std::string("snapshot-not-sent|") + site + "|" + shape, "the assignment changed to " + show_snap(I.assign) + " but no midi-bind was sent to the realtime side"); return false; }
        return true;
    }

    // one controller event on the RT side; returns the decoded value through num if a message was expected and fine
    static bool do_cc(Inst &I, bool check, int id, int v, const char *site, double *num_out, bool *assigned_out)
    {
        I.backend.clear();
        const size_t r0 = I.r2n.size();
        bool use_in_flight = false;
        for(auto &m : I.r2n) if(I.use_id(m) == id) use_in_flight = true;
        I.rt.handleCC(id, v);
        vp::transition();
        int a = -1, k = -1, n = 0;
        for(int x = 0; x < NA; ++x) for(int y = 0; y < 2; ++y) if(I.view.a[x][y] == id) { a = x; k = y; ++n; }
        if(assigned_out) *assigned_out = n > 0;
        if(n > 1) { I.pruned = true; return false; }   // cannot happen while the model is followed
        const size_t emitted = I.r2n.size() - r0;
        if(n == 1) {
            const PInfo &p = PORT[a];
            const char *half = k == 0 ? "coarse" : "fine";
            if(I.backend.size() != 1) { bad(I, check, std::string("msg-count|") + site + "|assigned-" + half, "controller " + std::to_string(id) + " is assigned to " + p.path + " (" + half + ") in the realtime view " + show_snap(I.view) + "; CC value " + std::to_string(v) + " produced " + show_msgs(I.backend)); return false; }
            const Emit &e = I.backend[0];
            if(!e.ok || e.addr != p.path) { bad(I, check, std::string("msg-address|") + site + "|assigned-" + half, "controller " + std::to_string(id) + " is assigned to " + p.path + "; message " + show_msg(e) + "; view " + show_snap(I.view)); return false; }
            if(e.types != std::string(1, p.type)) { bad(I, check, std::string("msg-type|") + site + "|" + p.cls, "message " + show_msg(e) + " for a parameter of type " + std::string(1, p.type)); return false; }
            double num; if(p.type == 'f') { float f; memcpy(&f, &e.u32, 4); num = f; } else num = (double)(int32_t)e.u32;
            if(!(num >= p.mn && num <= p.mx)) { bad(I, check, std::string("msg-range|") + site + "|" + p.cls, "message " + show_msg(e) + " outside [" + fstr(p.mn) + "," + fstr(p.mx) + "]"); return false; }
            // composed 14-bit value: this half = v, other half = last value of its controller (unknown -> any)
            I.known[a][k] = v;
            int clo = I.known[a][0] >= 0 && I.view.a[a][0] != -1 ? I.known[a][0] : 0, chi = I.known[a][0] >= 0 && I.view.a[a][0] != -1 ? I.known[a][0] : 127;
            int flo = I.known[a][1] >= 0 && I.view.a[a][1] != -1 ? I.known[a][1] : 0, fhi = I.known[a][1] >= 0 && I.view.a[a][1] != -1 ? I.known[a][1] : 127;
            double lo = p.mn + (clo * 128 + flo) / 16384.0 * (p.mx - p.mn), hi = p.mn + (chi * 128 + fhi) / 16383.0 * (p.mx - p.mn);
            double tol = 1e-6 * (p.mx - p.mn);
            bool inband = p.type == 'f' ? (num >= lo - tol && num <= hi + tol) : (num >= floor(lo + 1e-9) && num <= ceil(hi - 1e-9));
            if(!inband) {
                bad(I, check, std::string("value-band|") + site + "|" + p.cls + "," + half + (I.view.a[a][1 - k] != -1 ? ",both-halves-assigned" : ",single-half"),
                    "controller " + std::to_string(id) + " (" + half + " of " + p.path + ") sent " + std::to_string(v) + "; composed 14-bit value in [" + std::to_string(clo * 128 + flo) + "," + std::to_string(chi * 128 + fhi) +
                    "] maps into [" + fstr(lo) + "," + fstr(hi) + "]; message " + show_msg(e));
                return false;
            }
            if(emitted) { bad(I, check, std::string("free-report-of-assigned-controller|") + site + "|assigned-" + half, "controller " + std::to_string(id) + " drives " + p.path + " and was reported free as well"); return false; }
            if(num_out) *num_out = num;
            return true;
        }
        // not assigned in the realtime view
        if(!I.backend.empty()) {
            bool ever = I.snap_has(I.assign, id); for(auto &m : I.n2r) if(m.kind == K_BIND && I.snap_has(m.snap, id)) ever = true;
            bad(I, check, std::string("unassigned-controller-drives|") + site + "|" + (ever ? "assignment-not-delivered-or-revoked" : "not-assigned"),
                "controller " + std::to_string(id) + " is not assigned in the realtime view " + show_snap(I.view) + " but CC value " + std::to_string(v) + " produced " + show_msgs(I.backend));
            return false;
        }
        if(emitted > 1) { bad(I, check, std::string("free-report|") + site + "|several-messages", std::to_string(emitted) + " messages to the non-realtime side for one controller event"); return false; }
        if(emitted == 1 && I.use_id(I.r2n.back()) != id) { bad(I, check, std::string("free-report|") + site + "|wrong-id", "controller " + std::to_string(id) + " arrived, message '" + vp::show(I.r2n.back().bytes.substr(0, 32)) + "' id " + std::to_string(I.use_id(I.r2n.back()))); return false; }
        bool bind_in_flight = false; for(auto &m : I.n2r) if(m.kind == K_BIND && I.snap_has(m.snap, id)) bind_in_flight = true;
        const bool assigned_nrt = I.snap_has(I.assign, id);
        const bool forbidden = use_in_flight || assigned_nrt;
        const int announced = std::max(0, (int)I.fifo.size() - I.watches_in_flight());
        const bool required = !forbidden && !bind_in_flight && announced - (int)r0 > 0;
        if(!emitted && required) {
            int r = 0; for(int x = 0; x < NID; ++x) if(IDS[x] == id) r = I.rep[x];
            bad(I, check, std::string("free-report-missing|") + site + "|" + (r == 3 ? "previous-report-was-ignored" : r == 2 ? "previous-report-was-answered" : r == 1 ? "previous-report-lost" : "never-reported"),
                "controller " + std::to_string(id) + " is assigned nowhere, " + std::to_string(announced) + " queued address(es) announced to the realtime side, " + std::to_string(r0) + " report(s) in flight, but it was not reported free; pending=" +
                std::to_string(I.rt.pending.size) + " watchSize=" + std::to_string(I.rt.watchSize));
            return false;
        }
        // A report while the previous report of the same controller (or its assignment) is still in flight is not
        // flagged here: the statement speaks about assignments, and the consequence is checked where the report is
        // delivered (a controller must not end up assigned to a second address).
        if(emitted) for(int x = 0; x < NID; ++x) if(IDS[x] == id) {
            if(forbidden || bind_in_flight) I.dup[x] = I.snap_since[x] ? 2 : 1;
            I.rep[x] = 1; I.snap_since[x] = false;
        }
        if(check) vp::outcome(std::string("cc-unassigned:") + (emitted ? "reported-free" : "silent") + (required ? ":required" : forbidden ? (use_in_flight ? ":report-in-flight" : ":assignment-in-flight") : ":optional"));
        return true;
    }

    // a C++ exception escaping from the library is a finding of the operation that raised it, not a harness crash
    static void apply(Inst &I, int op, bool check)
    {
        try { apply_op(I, op, check); }
        catch(const std::exception &e) { bad(I, check, "exception|" + opname(op).substr(0, opname(op).find('(')) + "|" + e.what(), std::string("the library threw ") + e.what()); }
    }
    static void apply_op(Inst &I, int op, bool check)
    {
        const size_t n0 = I.n2r.size();
        if(op < OP_UNMAP) {
            int a = op / 2, k = op % 2; bool changed = false;
            const bool queued = I.in_fifo(a, k);
            I.nrt.map(PORT[a].path, k == 0);
            const char *shape = queued ? "already-queued" : I.assign.a[a][k] != -1 ? "half-assigned" : "half-free";
            if(!queued) {
                if(I.assign.a[a][k] != -1) {
                    // don't care: the old controller may be dropped now or when the new one arrives
                    int now = k == 0 ? I.nrt.getCoarse(PORT[a].path) : I.nrt.getFine(PORT[a].path);
                    if(now == -1) { I.assign.a[a][k] = -1; changed = true; }
                    if(check) vp::outcome(now == -1 ? "dontcare:remap-drops-old-controller-at-once" : "dontcare:remap-keeps-old-controller");
                }
                I.fifo.push_back({a, k});
            }
            if(!stamp(I, check, n0, changed, "map", shape)) return;
            verify_nrt(I, check, "map", shape);
        } else if(op < OP_CLEAR) {
            int a = (op - OP_UNMAP) / 2, k = (op - OP_UNMAP) % 2;
            const bool was = I.assign.a[a][k] != -1, queued = I.in_fifo(a, k);
            I.nrt.unMap(PORT[a].path, k == 0);
            const char *shape = was ? "half-assigned" : queued ? "half-queued" : "half-free";
            I.assign.a[a][k] = -1;
            if(queued) {
                // don't care: unMap of an address that is only queued may leave it queued or withdraw the request
                bool still = false; for(auto &x : I.nrt.learnQueue) if(x.first == PORT[a].path && x.second == (k == 0)) still = true;
                if(!still) for(auto it = I.fifo.begin(); it != I.fifo.end(); ++it) if(it->first == a && it->second == k) { I.fifo.erase(it); break; }
                if(check) vp::outcome(still ? "dontcare:unmap-leaves-request-queued" : "dontcare:unmap-withdraws-request");
            }
            if(!stamp(I, check, n0, was, "unMap", shape)) return;
            verify_nrt(I, check, "unMap", shape);
        } else if(op == OP_CLEAR) {
            bool any = false; for(int a = 0; a < NA; ++a) for(int k = 0; k < 2; ++k) any |= I.assign.a[a][k] != -1;
            I.nrt.clear();
            memset(I.assign.a, -1, sizeof I.assign.a); I.fifo.clear();
            if(!stamp(I, check, n0, any, "clear", any ? "bindings" : "no-bindings")) return;
            verify_nrt(I, check, "clear", any ? "bindings" : "no-bindings");
        } else if(op < OP_DN2R) {
            int id = IDS[(op - OP_CC) / 2], v = VEXP[(op - OP_CC) % 2]; bool assigned = false; double num = 0;
            if(do_cc(I, check, id, v, "handleCC", &num, &assigned) && assigned && check) vp::outcome("cc-assigned:" + std::to_string(v) + "->" + fstr(num));
        } else if(op == OP_DN2R) {
            if(I.n2r.empty()) return;
            Msg m = I.n2r.front(); I.n2r.pop_front();
            I.backend.clear();
            const size_t r0 = I.r2n.size();
            rtosc::RtData d; char loc[128]; memset(loc, 0, sizeof loc);
            d.loc = loc; d.loc_size = sizeof loc; d.obj = &I.rt; d.matches = 0;
            rtosc::MidiMapperRT::ports.dispatch(m.bytes.data() + strlen("/midi-learn/"), d);
            if(d.matches != 1) { bad(I, check, "protocol|deliver-n2r|message-not-understood", "MidiMapperRT::ports matched '" + vp::show(m.bytes.substr(0, 32)) + "' " + std::to_string(d.matches) + " times"); return; }
            if(m.kind == K_BIND) {
                for(int x = 0; x < NID; ++x) I.snap_since[x] = true;
                for(int a = 0; a < NA; ++a) for(int k = 0; k < 2; ++k) if(m.snap.a[a][k] != I.view.a[a][k] || m.snap.a[a][k] == -1) I.known[a][k] = -1;
                I.view = m.snap;
            }
            if(!I.backend.empty() || I.r2n.size() != r0) { bad(I, check, std::string("protocol|deliver-n2r|") + (m.kind == K_BIND ? "bind" : "watch") + "-emits-messages", "delivery produced " + show_msgs(I.backend) + " and " + std::to_string(I.r2n.size() - r0) + " frontend messages"); return; }
            if(check) vp::outcome(m.kind == K_BIND ? "deliver:bind" : m.kind == K_WATCH ? "deliver:watch" : "deliver:remove-watch");
        } else if(op == OP_DR2N) {
            if(I.r2n.empty()) return;
            Msg m = I.r2n.front(); I.r2n.pop_front();
            int id = I.use_id(m);
            if(id == -1000) { bad(I, check, "protocol|deliver-r2n|unknown-message", "'" + vp::show(m.bytes.substr(0, 32)) + "'"); return; }
            I.nrt.useFreeID(id);
            bool changed = false; const char *shape = "queue-empty";
            for(int x = 0; x < NID; ++x) if(IDS[x] == id) I.rep[x] = I.fifo.empty() ? 3 : 2;
            if(!I.fifo.empty()) {
                if(I.snap_has(I.assign, id)) {
                    // the reported controller has been assigned in the meantime: it is not "a not yet assigned controller"
                    // any more. Whatever else happens, it must not be given to a second address (one controller event
                    // produces exactly one message, so one of the two addresses would never be driven).
                    int n = 0; std::string where;
                    for(int a = 0; a < NA; ++a) { if(I.nrt.getCoarse(PORT[a].path) == id) { ++n; where += std::string(PORT[a].path) + ":coarse "; } if(I.nrt.getFine(PORT[a].path) == id) { ++n; where += std::string(PORT[a].path) + ":fine "; } }
                    int du = 0; for(int x = 0; x < NID; ++x) if(IDS[x] == id) du = I.dup[x];
                    if(n > 1) { bad(I, check, std::string("double-assignment|useFreeID|controller-already-assigned,") + (du == 1 ? "reported-twice-with-no-snapshot-in-between" : "reported-again-after-a-snapshot"), "controller " + std::to_string(id) + " was already assigned (" + show_snap(I.assign) + ") when a second free-report for it was delivered; it is now assigned to " + where); return; }
                    I.pruned = true; if(check) vp::outcome("dontcare:free-report-of-an-assigned-controller-delivered:pruned"); return;
                }
                auto h = I.fifo.front(); I.fifo.pop_front();
                I.assign.a[h.first][h.second] = id; changed = true;
                shape = h.second == 0 ? "learn-coarse" : "learn-fine";
            }
            if(!stamp(I, check, n0, changed, "useFreeID", shape)) return;
            if(verify_nrt(I, check, "useFreeID", shape) && check) vp::outcome(std::string("deliver:free-report:") + shape);
        } else if(op < OP_END) {
            if(!check) return;
            int id = IDS[op - OP_SWEEP]; double prev = 0; bool have = false; std::string row;
            for(int j = 0; j < 5; ++j) {
                double num = 0; bool assigned = false;
                if(!do_cc(I, true, id, VSWEEP[j], "handleCC", &num, &assigned)) return;
                if(!assigned) continue;
                row += (have ? "," : "") + fstr(num);
                if(have && num < prev) {
                    int aa = 0, kk = 0; for(int x = 0; x < NA; ++x) for(int y = 0; y < 2; ++y) if(I.view.a[x][y] == id) { aa = x; kk = y; }
                    bad(I, true, std::string("monotone|handleCC-sweep|") + PORT[aa].cls + (kk ? ",fine" : ",coarse"),
                        "controller " + std::to_string(id) + " on " + PORT[aa].path + ": values for v=0,1,64,126,127 so far: " + row);
                    return;
                }
                prev = num; have = true;
            }
            if(have) vp::outcome("sweep:" + row); else vp::outcome("sweep:unassigned");
            return;
        }
        if((int)I.n2r.size() > CAP || (int)I.r2n.size() > CAP) { I.pruned = true; if(check) vp::outcome("cap-exceeded:pruned"); }
    }

    // ------------------------------------------------------------------ canon
    // Snapshot objects by content; heap pointers become indices (order of first reference: RT storage, in-flight
    // binds, nRT storage); value slots are renumbered per snapshot in order of first reference, unreferenced
    // (dead) slots are left out: nothing reads them again. Callbacks are closures: they are identified by what they
    // send for 0 and 16383.
    static void canon_cb(std::string &s, const rtosc::MidiMapperStorage::callback_t &cb)
    {
        for(int x : {0, 16383}) {
            Emit e; e.ok = false; e.u32 = 0;
            cb((int16_t)x, [&e](const char *msg) { e = decode_msg(msg, 1024); });
            s += e.addr; s += ','; s += e.types; s += ' '; put(s, e.u32);
        }
    }
    static void canon_storage(std::string &s, rtosc::MidiMapperStorage *st, const std::vector<int> &extra, std::vector<int> &renum)
    {
        renum.assign(st->callbacks.size() > st->values.size() ? st->callbacks.size() : st->values.size(), -1);
        int next = 0;
        s += "map:";
        for(int i = 0; i < st->mapping.size(); ++i) {
            auto t = st->mapping[i]; int ind = std::get<2>(t);
            put(s, std::get<0>(t)); put(s, std::get<1>(t));
            if(ind < 0 || ind >= (int)renum.size()) { s += "!"; put(s, ind); continue; }
            if(renum[ind] < 0) renum[ind] = next++;
            put(s, renum[ind]);
        }
        for(int ind : extra) if(ind >= 0 && ind < (int)renum.size() && renum[ind] < 0) renum[ind] = next++;
        s += "slots:";
        for(int n = 0; n < next; ++n) for(size_t ind = 0; ind < renum.size(); ++ind) if(renum[ind] == n) {
            if((int)ind < st->values.size()) put(s, st->values[(int)ind]); else s += "- ";
            if((int)ind < st->callbacks.size()) canon_cb(s, st->callbacks.t[ind]); else s += "- ";
        }
    }
    static std::string canon(const Inst &I)
    {
        if(I.diverged) return "DIVERGED (reported; never expanded)";
        if(I.pruned) return "PRUNED (don't-care zone or channel cap; never expanded)";
        std::string s; s.reserve(1024);
        std::vector<rtosc::MidiMapperStorage *> live;
        auto idx = [&live](rtosc::MidiMapperStorage *p) -> long { if(!p) return -1; for(size_t i = 0; i < live.size(); ++i) if(live[i] == p) return (long)i; live.push_back(p); return (long)live.size() - 1; };
        s += "rt:"; put(s, idx(I.rt.storage)); put(s, I.rt.watchSize);
        const auto &pq = I.rt.pending;
        put(s, pq.size); put(s, (pq.pos_w - pq.pos_r + 32) % 32);
        put(s, pq.pos_r);        // absolute position in the ring of 32: states that differ only by it are kept apart (wrap-around)
        for(int i = 0; i < 32; ++i) put(s, pq.vals[(pq.pos_r + i) % 32]);
        s += "n2r:";
        for(auto &m : I.n2r) { put(s, m.kind); if(m.kind == K_BIND) { put(s, idx(m.st)); for(int a = 0; a < NA; ++a) { put(s, m.snap.a[a][0]); put(s, m.snap.a[a][1]); } } else if(m.kind == K_OTHER) s += m.bytes; }
        s += "r2n:";
        for(auto &m : I.r2n) put(s, I.use_id(m));
        s += "nrt:"; put(s, idx(I.nrt.storage));
        for(auto &x : I.nrt.learnQueue) { s += x.first; put(s, x.second); }
        std::vector<int> locs; for(auto &kv : I.nrt.inv_map) locs.push_back(std::get<0>(kv.second));
        std::vector<int> renum, nrt_renum;
        for(size_t i = 0; i < live.size(); ++i) {
            s += "\nst"; put(s, (long)i);
            canon_storage(s, live[i], live[i] == I.nrt.storage ? locs : std::vector<int>(), renum);
            if(live[i] == I.nrt.storage) nrt_renum = renum;
        }
        s += "\ninv:";
        for(auto &kv : I.nrt.inv_map) {
            int loc = std::get<0>(kv.second);
            s += kv.first; put(s, loc >= 0 && loc < (int)nrt_renum.size() ? nrt_renum[loc] : -2 - loc); put(s, std::get<1>(kv.second)); put(s, std::get<2>(kv.second));
            const rtosc::MidiBijection &bi = std::get<3>(kv.second); uint32_t u; put(s, bi.mode); memcpy(&u, &bi.min, 4); put(s, u); memcpy(&u, &bi.max, 4); put(s, u);
        }
        s += "\nmodel fifo:";
        for(auto &e : I.fifo) { put(s, e.first); put(s, e.second); }
        s += "assign:"; for(int a = 0; a < NA; ++a) { put(s, I.assign.a[a][0]); put(s, I.assign.a[a][1]); }
        s += "view:"; for(int a = 0; a < NA; ++a) { put(s, I.view.a[a][0]); put(s, I.view.a[a][1]); }
        s += "known:"; for(int a = 0; a < NA; ++a) { put(s, I.known[a][0]); put(s, I.known[a][1]); }
        s += "dup:"; for(int x = 0; x < NID; ++x) { put(s, I.dup[x]); put(s, I.snap_since[x]); }
        return s;
    }
};

// ---- controller identity: every ordered pair of distinct controllers (number, channel, CC or NRPN) -------------------------------
// Two addresses are learned one after the other with every message delivered at once. Only messages are observed: the integer by
// which the realtime half names a controller is opaque.
struct Ctl { int par; int chan; bool nrpn; };
static std::string ctl_name(const Ctl &c) { return std::string(c.nrpn ? "NRPN " : "CC ") + std::to_string(c.par) + " ch" + std::to_string(c.chan); }
static void controller_identity()
{
    if(vp::ctx().shard != 0) return;
    std::vector<Ctl> L;
    for(int par : {0, 1, 63, 64, 127}) for(int ch : {1, 2, 16}) L.push_back({par, ch, false});
    for(int par : {0, 1, 127, 128, 129, 4095, 4096, 8191, 8192, 8193, 8319, 12288, 16383}) for(int ch : {1, 16}) L.push_back({par, ch, true});
    vp::bound("controller_identity", "every ordered pair of distinct controllers out of " + std::to_string(L.size()) + " (CC 0,1,63,64,127 on channels 1,2,16; NRPN 0,1,127,128,129,4095,4096,8191,8192,8193,8319,12288,16383 on channels 1,16): learn /p with the first, /q with the second, each then drives its own address only");
    const PInfo &P0 = PORT[0], &P1 = PORT[1];
    for(size_t xi = 0; xi < L.size(); ++xi) for(size_t yi = 0; yi < L.size(); ++yi) {
        if(xi == yi) continue;
        std::string cid = "ident|" + std::to_string(xi) + "|" + std::to_string(yi);
        if(!vp::want(cid)) continue;
        vp::current_case() = cid; vp::state(); vp::eval(); vp::nontrivial(vp::fnv(cid));
        const Ctl &X = L[xi], &Y = L[yi];
        Sys::Inst I;
        auto flush = [&]() {      // deliver everything in both directions until quiet
            for(int guard = 0; guard < 16 && (!I.n2r.empty() || !I.r2n.empty()); ++guard) {
                while(!I.n2r.empty()) { Msg m = I.n2r.front(); I.n2r.pop_front(); rtosc::RtData d; char loc[128]; memset(loc, 0, sizeof loc); d.loc = loc; d.loc_size = sizeof loc; d.obj = &I.rt; rtosc::MidiMapperRT::ports.dispatch(m.bytes.data() + strlen("/midi-learn/"), d); vp::transition(); }
                while(!I.r2n.empty()) { Msg m = I.r2n.front(); I.r2n.pop_front(); int id = I.use_id(m); if(id != -1000) I.nrt.useFreeID(id); vp::transition(); }
            }
        };
        auto cc = [&](const Ctl &c, int v) { I.backend.clear(); I.rt.handleCC(c.par, v, (char)c.chan, c.nrpn); vp::transition(); };
        const std::string cls = std::string(X.nrpn ? "nrpn" : "cc") + "+" + (Y.nrpn ? "nrpn" : "cc") + (X.chan == Y.chan ? ",same-channel" : ",other-channel") + (X.par == Y.par ? ",same-number" : "");
        const std::string who = "first controller " + ctl_name(X) + " learned for " + P0.path + ", second controller " + ctl_name(Y);
        auto one_to = [&](const PInfo &p, const char *step) {
            if(I.backend.size() == 1 && I.backend[0].ok && I.backend[0].addr == p.path) return true;
            vp::violation(std::string("msg-count|controller-identity|") + cls, cid, who + "; " + step + ": expected exactly one message to " + p.path + ", got " + Sys::show_msgs(I.backend));
            return false;
        };
        I.nrt.map(P0.path, true); flush();
        cc(X, 100); flush();                       // reported free, assigned to /p
        cc(X, 127); bool ok = one_to(P0, "the first controller sends again");
        if(ok) {
            I.nrt.map(P1.path, true); flush();
            cc(Y, 64);
            if(!I.backend.empty()) { vp::violation("unassigned-controller-drives|controller-identity|" + cls, cid, who + " was never assigned but its first value produced " + Sys::show_msgs(I.backend)); ok = false; }
            flush();
        }
        if(ok) { cc(Y, 127); ok = one_to(P1, "the second controller sends after the handshake (it should have been learned for the queued address)"); }
        if(ok) { cc(X, 0); ok = one_to(P0, "the first controller sends once more"); }
        vp::outcome(std::string("identity:") + (ok ? "ok" : "BAD")); vp::trace();
    }
}

// ---- long addresses: a parameter address of every length 2..900 is learned and then driven (int 0..127 and a float parameter)
static void nop_cb20(const char *, rtosc::RtData &) {}
static void long_addresses()
{
    if(vp::ctx().shard != 0) return;
    for(int L = 2; L <= 900; ++L) for(int kind = 0; kind < 2; ++kind) {
        std::string cid = "longaddr|L" + std::to_string(L) + "|k" + std::to_string(kind);
        if(!vp::want(cid)) continue;
        vp::current_case() = cid; vp::state(); vp::eval(); vp::nontrivial(vp::fnv(cid));
        std::string leaf(L - 1, 'm'); for(int k = 0; k < L - 1; k += 6) leaf[k] = (char)('a' + (k / 6) % 26);
        std::string pname = leaf + (kind ? "::f" : "::i"), path = "/" + leaf;
        const char *meta = kind ? rProp(parameter) rLinear(-1, 1) rDoc("f") : rProp(parameter) rLinear(0, 127) rDoc("i");
        rtosc::Ports ports({rtosc::Port{pname.c_str(), meta, nullptr, nop_cb20}});
        Sys::Inst I; I.nrt.base_ports = &ports;
        auto flush = [&]() {
            for(int guard = 0; guard < 16 && (!I.n2r.empty() || !I.r2n.empty()); ++guard) {
                while(!I.n2r.empty()) { Msg m = I.n2r.front(); I.n2r.pop_front(); rtosc::RtData d; char loc[128]; memset(loc, 0, sizeof loc); d.loc = loc; d.loc_size = sizeof loc; d.obj = &I.rt; rtosc::MidiMapperRT::ports.dispatch(m.bytes.data() + strlen("/midi-learn/"), d); vp::transition(); }
                while(!I.r2n.empty()) { Msg m = I.r2n.front(); I.r2n.pop_front(); int id = I.use_id(m); if(id != -1000) I.nrt.useFreeID(id); vp::transition(); }
            }
        };
        I.nrt.map(path.c_str(), true); flush();
        I.rt.handleCC(7, 100); vp::transition(); flush();
        const std::string cls = std::string(kind ? "float" : "int-0-127") + (L >= 120 ? ",address>=120" : ",address<120");
        bool ok = true;
        for(int v : {127, 0}) {
            I.backend.clear(); I.rt.handleCC(7, v); vp::transition();
            bool good = I.backend.size() == 1 && I.backend[0].ok && I.backend[0].addr == path && I.backend[0].types == (kind ? "f" : "i");
            if(good) { if(kind) { float f; memcpy(&f, &I.backend[0].u32, 4); good = v ? (f >= 0.984f && f <= 1.0f) : (f >= -1.0f && f <= -0.984f); } else good = (int32_t)I.backend[0].u32 == v; }
            if(!good) { vp::violation("msg-count|learned-long-address|" + cls, cid, "address of " + std::to_string(L) + " characters learned for controller 7; value " + std::to_string(v) + " produced " + Sys::show_msgs(I.backend)); ok = false; break; }
        }
        vp::outcome(std::string("long-address:") + (ok ? "ok" : "BAD")); vp::trace();
    }
    vp::bound("long_addresses", "a parameter address of every length 2..900, int [0,127] and float [-1,1], learned through map / free-controller report / snapshot and driven with 127 and 0");
}

int main(int argc, char **argv)
{
    vp::init(argc, argv, "C20");
    const bool T = vp::thorough();
    std::string variants = T ? "bac" : "b";      // c: four addresses and four controller ids (ports of b), smaller depth
    if(!vp::replaying() || vp::ctx().replay.compare(0, 6, "ident|") == 0) { select_variant('b'); controller_identity(); }
    if(!vp::replaying() || vp::ctx().replay.compare(0, 9, "longaddr|") == 0) long_addresses();
    if(vp::replaying() && (vp::ctx().replay.compare(0, 6, "ident|") == 0 || vp::ctx().replay.compare(0, 9, "longaddr|") == 0)) return vp::finish();
    for(char variant : variants) {
    select_variant(variant == 'c' ? 'b' : variant);
    bfs::Engine<Sys> E;
    E.max_depth = variant == 'c' ? 8 : T ? 12 : 8;
    g_naddr = variant == 'c' ? 4 : 3; g_nids = variant == 'c' ? 4 : 3;
    if(const char *d = getenv("C20_DEPTH")) { E.max_depth = atoi(d); vp::cap("development override C20_DEPTH"); }
    if(const char *d = getenv("C20_NADDR")) { g_naddr = atoi(d); vp::cap("development override C20_NADDR"); }
    vp::bound("ports", T ? "/p i [0,127]; /q i [-100,-10] (run 1) and [-10,10] (run 2); /r f [-1,1]" : "/p i [0,127]; /q i [-100,-10]; /r f [-1,1]");
    vp::bound("alphabet", "map(addr,coarse|fine); unMap(addr,coarse|fine); clear(); CC(id in {1,2,3}, v in {0,127}); deliver head of N2R; deliver head of R2N; "
                          "probe in every state: CC(id, v) for v = 0,1,64,126,127 in sequence for every id");
    vp::bound(std::string("addresses_and_ids_run_") + variant, std::to_string(g_naddr) + " addresses, " + std::to_string(g_nids) + " controller ids, depth " + std::to_string(E.max_depth));
    vp::bound("channel_cap", "at most 2 messages in flight per channel; events that would exceed it are not enabled");
    // Start also from prepared operating points (replayed with the oracle on): with one binding per 5 events the
    // initial state alone never reaches several bindings within the depth bound.
    auto learn = [](bfs::Hist &h, int addr, int half, int idx, int vi) { h.push_back(OP_MAP + addr * 2 + half); h.push_back(OP_DN2R); h.push_back(OP_CC + idx * 2 + vi); h.push_back(OP_DR2N); h.push_back(OP_DN2R); };
    { bfs::Hist h; learn(h, 0, 0, 0, 1); E.roots.push_back(h); }                                          // /p <- 1
    { bfs::Hist h; learn(h, 2, 0, 0, 1); learn(h, 2, 1, 1, 1); E.roots.push_back(h); }                      // /r coarse <- 1, fine <- 2
    { bfs::Hist h; learn(h, 0, 0, 0, 1); learn(h, 1, 0, 1, 0); learn(h, 2, 0, 2, 1); E.roots.push_back(h); } // /p <- 1, /q <- 2, /r <- 3
    { bfs::Hist h; learn(h, 0, 0, 0, 1); h.push_back(OP_MAP + 2); h.push_back(OP_MAP + 4); h.push_back(OP_DN2R); h.push_back(OP_DN2R); E.roots.push_back(h); } // /p <- 1; /q, /r queued and announced
    vp::bound("roots", "initial state + 5 prepared states: {/p<-1}, {/r coarse<-1, fine<-2}, {/p<-1,/q<-2,/r<-3}, {/p<-1; /q and /r queued and announced}, {/q coarse<-1, fine<-2}");
    { bfs::Hist h; learn(h, 1, 0, 0, 1); learn(h, 1, 1, 1, 1); E.roots.push_back(h); }                      // /q coarse <- 1, fine <- 2 (14 bit on an integer range)
    // many completed learn cycles: the pending ring of the realtime half (32 entries) stands at / next to its wrap-around
    for(int n : {30, 31}) {
        bfs::Hist h;
        for(int k = 0; k < n; ++k) { learn(h, 0, 0, k % 3, 1); h.push_back(OP_UNMAP + 0); h.push_back(OP_DN2R); }
        E.late_roots.push_back({h, 4});
        h.push_back(OP_MAP + 2); h.push_back(OP_MAP + 4); h.push_back(OP_DN2R); h.push_back(OP_DN2R);      // /q and /r queued and announced
        E.late_roots.push_back({h, 5});
    }
    vp::bound("cycle_roots", "4 states: 30 and 31 completed cycles of map(/p) - CC - handshake - unMap(/p), which move the realtime half's ring of pending controllers to its last slots, alone (all histories of <= 4 further events) and with /q and /r queued and announced (<= 5 further events)");
    // the result files of the two engines must not collide
    vp::Ctx &C = vp::ctx(); std::string keep_out = C.out;
    if(!C.out.empty()) C.out = C.out.substr(0, C.out.size() - 5) + "_v" + std::string(1, variant) + ".json";
    E.run();
    C.out = keep_out;
    if(vp::replaying()) break;
    }
    return vp::finish();
}
