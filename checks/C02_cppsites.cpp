// C02 (C++ sites) - the library's own fixed buffers: ThreadLink's MaxMsg scratch buffers and the 8192-byte
// stack buffer of RtData::reply/broadcast(path, args, ...). Built with AddressSanitizer; every case runs in
// a forked child so that an overflow is an observation (narrow signature), not the end of the run.
#include <rtosc/rtosc.h>
#include <rtosc/ports.h>
#include <rtosc/thread-link.h>
#include "common.h"
#include "refosc.h"
#include "forkcase.h"

struct Capture : rtosc::RtData {
    std::string got; bool called = false; int calls = 0;
    void reply(const char *msg) override { called = true; ++calls; got.assign(msg, 8192); }
    void broadcast(const char *msg) override { reply(msg); }
    using rtosc::RtData::reply; using rtosc::RtData::broadcast;
};

static std::string filler(size_t n) { std::string s; for(size_t k = 0; k < n; ++k) s += (char)('a' + k % 23); return s; }

int main(int argc, char **argv)
{
    vp::init(argc, argv, "C02");
    const bool T = vp::thorough();
    uint64_t top = 0;
    // ---- ThreadLink: messages of size MaxMsg-8 .. MaxMsg+12 through write / writeArray / raw_write
    std::vector<size_t> maxmsgs = {8, 12, 16, 32};
    if(T) { maxmsgs.push_back(64); maxmsgs.push_back(20); maxmsgs.push_back(256); }
    vp::bound("threadlink_MaxMsg", T ? "8,12,16,20,32,64,256" : "8,12,16,32");
    vp::bound("threadlink_message_sizes", "every multiple of 4 in MaxMsg-8..MaxMsg+12, via write(varargs), writeArray, raw_write");
    for(size_t mm : maxmsgs) for(int method = 0; method < 3; ++method) for(long need = (long)mm - 8; need <= (long)mm + 12; need += 4, ++top) {
        if(need < 8) continue;
        if(!vp::mine(top)) continue;
        // message "/x" ",s" + string of need-8-1.. : 4 + 4 + pad4(strlen+1) = need  => strlen in [need-12, need-9]; take need-9
        std::string s = filler((size_t)need - 9 + (need == 8 ? 1 : 0));
        std::string types = need == 8 ? "" : "s";
        ref::Arg a; a.type = 's'; a.s = s;
        std::string expect = need == 8 ? ref::encode("/x", "", {}) : ref::encode("/x", "s", {a});
        if((long)expect.size() != need) { fprintf(stderr, "harness: size computation wrong\n"); return 3; }
        static const char *MN[3] = {"write", "writeArray", "raw_write"};
        std::string cid = std::string("tl|") + MN[method] + "|max" + std::to_string(mm) + "|need" + std::to_string(need);
        if(!vp::want(cid)) continue;
        vp::current_case() = cid;
        vp::state(); vp::eval(); vp::nontrivial(vp::fnv(cid)); vp::transition(3);
        std::string cls = std::string("ThreadLink::") + MN[method] + "|" + (need > (long)mm ? "message>MaxMsg" : "message<=MaxMsg");
        forkcase::Result r = forkcase::run([&]() -> std::string {
            rtosc::ThreadLink tl(mm, 4);
            rtosc_arg_t arg; arg.s = s.c_str();
            if(method == 0) { if(need == 8) tl.write("/x", ""); else tl.write("/x", "s", s.c_str()); }
            else if(method == 1) tl.writeArray("/x", types.c_str(), &arg);
            else tl.raw_write(expect.c_str());
            if(!tl.hasNext()) return "dropped";
            const char *m = tl.read();
            if(memcmp(m, expect.data(), std::min(expect.size(), mm))) return "read-differs";
            return tl.hasNext() ? "read-ok-but-more-queued" : "read-ok";
        });
        vp::outcome(std::string(MN[method]) + ":" + (r.completed ? r.text : r.describe()));
        if(!r.completed) vp::violation("memory-error|" + cls, cid, r.describe() + " with MaxMsg=" + std::to_string(mm) + " and a message of " + std::to_string(need) + " bytes");
        else if(need <= (long)mm && r.text != "read-ok") vp::violation("fitting-message-not-delivered|" + cls, cid, r.text);
        else if(need > (long)mm && r.text != "dropped") vp::violation("oversized-message-not-dropped|" + cls, cid, r.text);
        vp::trace();
    }
    // ---- RtData::reply / broadcast with the 8192-byte stack buffer: every message size around the limit
    vp::bound("rtdata_reply_sizes", "messages of 8176..8208 bytes in steps of 4 (one string argument), every string length inside each step in thorough, reply and broadcast");
    for(int method = 0; method < 2; ++method) for(size_t sl = 8176 - 9 - 3; sl <= 8208 - 9; sl += (T ? 1 : 4), ++top) {
        if(!vp::mine(top)) continue;
        std::string s = filler(sl);
        ref::Arg a; a.type = 's'; a.s = s;
        std::string expect = ref::encode("/r", "s", {a});
        std::string cid = std::string("rtdata|") + (method ? "broadcast" : "reply") + "|strlen" + std::to_string(sl);
        if(!vp::want(cid)) continue;
        vp::current_case() = cid;
        vp::state(); vp::eval(); vp::nontrivial(vp::fnv(cid)); vp::transition();
        bool fits = expect.size() <= 8192;
        std::string cls = std::string(method ? "RtData::broadcast" : "RtData::reply") + "|" + (fits ? "fits-8192" : "exceeds-8192");
        forkcase::Result r = forkcase::run([&]() -> std::string {
            Capture c;
            if(method) c.broadcast("/r", "s", s.c_str()); else c.reply("/r", "s", s.c_str());
            if(!c.called || c.calls != 1) return "not-forwarded-once";
            if(fits) return memcmp(c.got.data(), expect.data(), expect.size()) ? "bytes-differ" : "forwarded";
            for(size_t k = 0; k < 8192; ++k) if(c.got[k]) return "partial-message";
            return "zero-filled";
        });
        vp::outcome(std::string(method ? "broadcast:" : "reply:") + (r.completed ? r.text : r.describe()));
        if(!r.completed) vp::violation("memory-error|" + cls, cid, r.describe() + " for a message of " + std::to_string(expect.size()) + " bytes");
        else if(fits && r.text != "forwarded") vp::violation("fitting-message-not-forwarded|" + cls, cid, r.text);
        else if(!fits && r.text != "zero-filled") vp::violation("oversized-message-not-failed-closed|" + cls, cid, r.text);
        vp::trace();
    }
    vp::sample("ThreadLink(MaxMsg=16,4).raw_write(20-byte message); hasNext(); read()");
    vp::sample("RtData::reply(\"/r\",\"s\",<8183-char string>) -> 8192-byte message");
    return vp::finish();
}
