// C06 - ThreadLink is a lossless FIFO between a writer and a reader thread under every interleaving.
//
// src/cpp/thread-link.cpp is compiled with engine/tl_hook.h pre-included (engine/tl_wrap.cpp): every
// std::atomic load/store, every ring memcpy and the in-ring length scan is a scheduling point.
// Writer and reader run as two ucontext fibers; the harness decides at each point who goes next.
//  Part A: bounded histories, schedule tree explored by DFS with iterated preemption bound.
//  Part B: looping writer and reader, explicit-state BFS over the product of implementation state,
//          fiber progress and linearizability monitor, to a fixpoint.
// Oracles: an online linearizability monitor against the sequential FIFO specification of the
// statement, a vector-clock race detector over the ring bytes (honouring the memory_order given to
// each atomic access), and the region invariant (writer only touches the free region, reader only the
// live region, as defined by the true indices at the instant of the access).
#include <algorithm>
#include <rtosc/rtosc.h>
#include <rtosc/thread-link.h>
#include "common.h"
#include "fibers.h"
#include "tl_view.h"
#include <set>
#include "bfs.h"

// ------------------------------------------------------------------------------------------------
// sequential specification + online linearizability monitor (at most one pending op per thread)
enum ROp { R_HASNEXT = 0, R_READ = 1, R_HASNEXT_LA = 2, R_READ_LA = 3 };
static const char *ROPN[4] = {"hasNext", "read", "hasNextLookahead", "read_lookahead"};

struct Monitor {
    size_t cap = 0, maxmsg = 0;
    std::vector<std::string> table;        // message id -> bytes
    struct Cfg {
        std::vector<uint8_t> q; uint8_t cursor = 0; uint8_t wlin = 0, rlin = 0; int16_t rres = 0;
        bool operator<(const Cfg &o) const { if(q != o.q) return q < o.q; if(cursor != o.cursor) return cursor < o.cursor; if(wlin != o.wlin) return wlin < o.wlin; if(rlin != o.rlin) return rlin < o.rlin; return rres < o.rres; }
        bool operator==(const Cfg &o) const { return q == o.q && cursor == o.cursor && wlin == o.wlin && rlin == o.rlin && rres == o.rres; }
    };
    std::vector<Cfg> set;
    int wop = -1;   // pending write: message id, -1 none
    int rop = -1;   // pending reader op kind, -1 none
    bool broken = false;

    void init(size_t cap_, size_t maxmsg_) { cap = cap_; maxmsg = maxmsg_; set.clear(); set.push_back(Cfg()); wop = rop = -1; broken = false; }
    int id_of(const std::string &b) { for(size_t i = 0; i < table.size(); ++i) if(table[i] == b) return (int)i; return -2; }
    size_t used(const Cfg &c) const { size_t u = 0; for(uint8_t m : c.q) u += table[m].size(); return u; }
    void norm() { std::sort(set.begin(), set.end()); set.erase(std::unique(set.begin(), set.end()), set.end()); }
    void closure()
    {
        // any pending, not yet linearized op may take effect now, in any order
        for(size_t i = 0; i < set.size(); ++i) {
            Cfg c = set[i];
            if(wop >= 0 && !c.wlin) {
                Cfg d = c; d.wlin = 1;
                size_t len = table[wop].size();
                if(len <= maxmsg && len <= cap - used(c)) d.q.push_back((uint8_t)wop);
                set.push_back(d);
            }
            if(rop >= 0 && !c.rlin) {
                Cfg d = c; d.rlin = 1; bool ok = true;
                switch(rop) {
                case R_HASNEXT: d.rres = !c.q.empty(); break;
                case R_READ: if(c.q.empty()) ok = false; else { d.rres = c.q.front(); d.q.erase(d.q.begin()); d.cursor = 0; } break;
                case R_HASNEXT_LA: d.rres = c.cursor < c.q.size(); break;
                case R_READ_LA: if(c.cursor >= c.q.size()) ok = false; else { d.rres = c.q[c.cursor]; d.cursor = c.cursor + 1; } break;
                }
                if(ok) set.push_back(d);
            }
        }
        norm();
    }
    void invoke_w(int id) { wop = id; for(auto &c : set) c.wlin = 0; closure(); }
    void invoke_r(int kind) { rop = kind; for(auto &c : set) { c.rlin = 0; c.rres = 0; } closure(); }
    // returns false if no linearization explains the response
    bool respond_w()
    {
        closure();
        std::vector<Cfg> k; for(auto &c : set) if(c.wlin) { Cfg d = c; d.wlin = 0; k.push_back(d); }
        set.swap(k); wop = -1; norm(); closure();
        if(set.empty()) broken = true;
        return !broken;
    }
    bool respond_r(int result)
    {
        closure();
        std::vector<Cfg> k; for(auto &c : set) if(c.rlin && c.rres == result) { Cfg d = c; d.rlin = 0; d.rres = 0; k.push_back(d); }
        set.swap(k); rop = -1; norm(); closure();
        if(set.empty()) broken = true;
        return !broken;
    }
    // shift: tags are rendered relative to it (rotation symmetry of the tag alphabet, Part B)
    std::string canon(int shift = 0) const
    {
        auto rel = [&](int id) { return id < 0 ? id : (id / 4) * 4 + (((id % 4) - shift) & 3); };
        bool res_is_id = rop == R_READ || rop == R_READ_LA;
        std::string s = "w" + std::to_string(rel(wop)) + "r" + std::to_string(rop) + "{";
        std::vector<std::string> items;
        for(auto &c : set) { std::string t; for(uint8_t m : c.q) t += (char)('A' + rel(m)); t += ":" + std::to_string(c.cursor) + (c.wlin ? "W" : "") + (c.rlin ? "R" + std::to_string(res_is_id ? rel(c.rres) : c.rres) : ""); items.push_back(t); }
        std::sort(items.begin(), items.end());
        for(auto &t : items) s += t + ",";
        return s + "}";
    }
    std::string describe() const
    {
        std::string s;
        for(auto &c : set) { s += "["; for(uint8_t m : c.q) s += std::to_string(m) + " "; s += "|cur=" + std::to_string(c.cursor) + "] "; }
        return s.empty() ? "(no consistent linearization)" : s;
    }
};

// ------------------------------------------------------------------------------------------------
// execution context: real ThreadLink + scheduler + race detector
struct Ctx {
    sched::Sched S;
    rtosc::ThreadLink *tl = nullptr;
    vpsched::TlView v;
    Monitor mon;
    uint32_t vc[2][2];
    uint32_t rel[3][2];
    struct Sh { uint32_t wclk; int8_t wfib; uint32_t rclk[2]; };
    std::vector<Sh> shadow;
    bool failed = false; std::string fail_sig, fail_detail;
    std::vector<long> obs[2];        // values observed by the sync points of the current op of each fiber
    int points[2] = {0, 0};          // sync points passed in the current op
    uint64_t sync_points = 0;
    // reduced granularity (Part B): only accesses that can interfere with the other thread are scheduling
    // points - loads of an index the other thread writes, and all index stores. Loads of an index that only
    // the loading thread writes commute with every step of the other thread, and the ring data accesses
    // (memcpy, length scan) are either ordered by happens-before (then their position between the index
    // operations cannot be observed) or reported by the race detector; both are still *checked*.
    bool reduced = false;
    bool rbuf_fresh = false;        // the reader's scratch buffer has been filled by the read operation in progress

    Ctx() {}
    ~Ctx() { delete tl; }
    void fail(const std::string &sig, const std::string &detail) { if(!failed) { failed = true; fail_sig = sig; fail_detail = detail; } }
    void make(size_t maxmsg, size_t nmsgs)
    {
        delete tl;
        tl = new rtosc::ThreadLink(maxmsg, nmsgs);
        v = vpsched::view(*tl);
        shadow.assign(v.size, Sh{0, -1, {0, 0}});
        for(int f = 0; f < 2; ++f) { vc[f][0] = vc[f][1] = 0; vc[f][f] = 1; obs[f].clear(); points[f] = 0; }
        memset(rel, 0, sizeof rel);
        failed = false; fail_sig.clear(); fail_detail.clear();
        mon.init(v.size - 1, maxmsg);
    }
    int var_index(const long *val) const { return val == v.write ? 0 : val == v.read ? 1 : val == v.lookahead ? 2 : -1; }
};
static Ctx *G = nullptr;

static const char *VARN[3] = {"write-index", "read-index", "lookahead-index"};

static void ring_access(Ctx &c, int f, size_t off, size_t n, bool is_write, const char *what)
{
    if(n == 0) return;
    const size_t size = c.v.size;
    const size_t w = (size_t)*c.v.write, r = (size_t)*c.v.read;
    if(off + n > size) { c.fail(std::string("access-beyond-ring|") + what, "offset " + std::to_string(off) + " length " + std::to_string(n) + " ring size " + std::to_string(size)); return; }
    // region invariant against the true indices at this instant
    if(is_write) {
        size_t freecount = (r + size - w - 1) % size;           // bytes the writer may fill: w .. r-2
        size_t rel0 = (off + size - w) % size;
        if(rel0 + n > freecount) c.fail(std::string("region|writer-outside-free-region|") + what, "writes [" + std::to_string(off) + "," + std::to_string(off + n) + ") while write=" + std::to_string(w) + " read=" + std::to_string(r) + " size=" + std::to_string(size));
    } else {
        size_t live = (w + size - r) % size;                    // bytes the reader may look at: r .. w-1
        size_t rel0 = (off + size - r) % size;
        if(rel0 + n > live) c.fail(std::string("region|reader-outside-live-region|") + what, "reads [" + std::to_string(off) + "," + std::to_string(off + n) + ") while write=" + std::to_string(w) + " read=" + std::to_string(r) + " size=" + std::to_string(size));
    }
    // happens-before race check
    const int o = 1 - f;
    for(size_t k = off; k < off + n; ++k) {
        Ctx::Sh &s = c.shadow[k];
        if(s.wfib == o && s.wclk > c.vc[f][o]) { c.fail(std::string("data-race|") + (is_write ? "write-after-write" : "read-after-write") + "|" + what, "ring byte " + std::to_string(k) + ": " + (f ? "reader" : "writer") + " accesses it without happens-before to the other thread's write"); return; }
        if(is_write && s.rclk[o] > c.vc[f][o]) { c.fail(std::string("data-race|write-after-read|") + what, "ring byte " + std::to_string(k) + ": writer overwrites it without happens-before to the reader's read"); return; }
        if(is_write) { s.wfib = (int8_t)f; s.wclk = c.vc[f][f]; } else s.rclk[f] = c.vc[f][f];
    }
}

namespace vpsched {
long hook_load(const void *, const long *val, int order)
{
    Ctx *c = G;
    if(!c || !c->S.in_fiber()) return *val;
    int f = c->S.cur;
    int vi = c->var_index(val);
    bool own = (vi == 0 && f == 0) || (vi > 0 && f == 1);
    if(!(c->reduced && own)) { c->S.yield(); ++c->sync_points; ++c->points[f]; }
    if(vi >= 0 && order != 0 /*relaxed*/ && order != 3 /*release makes no sense for a load*/) { for(int k = 0; k < 2; ++k) c->vc[f][k] = std::max(c->vc[f][k], c->rel[vi][k]); }
    long x = *val;
    c->obs[f].push_back(x);
    return x;
}
void hook_store(void *, long *val, long nv, int order)
{
    Ctx *c = G;
    if(!c || !c->S.in_fiber()) { *val = nv; return; }
    int f = c->S.cur;
    c->S.yield();
    ++c->sync_points; ++c->points[f];
    int vi = c->var_index(val);
    if(vi >= 0) {
        if(order == 3 || order == 4 || order == 5) { c->rel[vi][0] = c->vc[f][0]; c->rel[vi][1] = c->vc[f][1]; }
        else { c->rel[vi][0] = c->rel[vi][1] = 0; }   // relaxed store: no release, the release sequence ends
        c->vc[f][f]++;
        if((vi == 0 && f != 0) || (vi != 0 && f != 1)) c->fail(std::string("index-written-by-wrong-thread|") + VARN[vi], "");
    }
    *val = nv;
}
void *hook_memcpy(void *dst, const void *src, size_t n)
{
    Ctx *c = G;
    if(c && c->S.in_fiber()) {
        int f = c->S.cur;
        if(!c->reduced) { c->S.yield(); ++c->sync_points; ++c->points[f]; }
        const char *d = (const char *)dst, *s = (const char *)src;
        if(d >= c->v.ring && d < c->v.ring + c->v.size) ring_access(*c, f, (size_t)(d - c->v.ring), n, true, "ring_write-memcpy");
        if(s >= c->v.ring && s < c->v.ring + c->v.size) ring_access(*c, f, (size_t)(s - c->v.ring), n, false, "ring_read-memcpy");
        if(s >= c->v.write_buffer && s < c->v.write_buffer + c->v.max_msg && f != 0) c->fail("scratch-buffer-shared|write_buffer", "read by the reader thread");
        if(d >= c->v.read_buffer && d < c->v.read_buffer + c->v.max_msg) {
            if(f != 1) c->fail("scratch-buffer-shared|read_buffer", "written by the writer thread");
            c->rbuf_fresh = true;
            if((size_t)(d - c->v.read_buffer) + n > c->v.max_msg) { c->fail("read-buffer-overflow|ring_read-memcpy", std::to_string(n) + " bytes into the " + std::to_string(c->v.max_msg) + "-byte read buffer"); return dst; }
        }
    }
    return memcpy(dst, src, n);
}
size_t hook_ring_length(ring_t *r)
{
    Ctx *c = G;
    if(c && c->S.in_fiber()) {
        int f = c->S.cur;
        if(!c->reduced) { c->S.yield(); ++c->sync_points; ++c->points[f]; }
        for(int k = 0; k < 2; ++k) if(r[k].data && r[k].len) ring_access(*c, f, (size_t)(r[k].data - c->v.ring), r[k].len, false, "length-scan");
    }
    size_t len = rtosc_message_ring_length(r);
    if(c && c->S.in_fiber()) c->obs[c->S.cur].push_back((long)len);
    return len;
}
}

// ------------------------------------------------------------------------------------------------
// messages
static std::string mk_msg(const char *addr, const char *types, const rtosc_arg_t *args)
{
    char b[512]; size_t n = rtosc_amessage(b, sizeof b, addr, types, args);
    return std::string(b, n);
}
static std::string msg_int(const char *addr, int x) { rtosc_arg_t a; a.i = x; return mk_msg(addr, "i", &a); }
static std::string msg_str(const char *addr, const std::string &s) { rtosc_arg_t a; a.s = s.c_str(); return mk_msg(addr, "s", &a); }
// a message of exactly `total` bytes (total >= 12, multiple of 4): "/x" ",s" + string
static std::string msg_sized(size_t total, char tag)
{
    std::string s(total - 9, 'q'); s[0] = tag;
    std::string m = msg_str("/x", s);
    while(m.size() > total && s.size() > 1) { s.pop_back(); m = msg_str("/x", s); }
    return m;
}

enum WKind { W_SMALL = 0, W_MEDIUM, W_BIG, W_OVER, W_ARRAY, W_RAW, W_RAW_OVER, W_BLOB, W_KINDS };
static const char *WKN[W_KINDS] = {"write12", "write20", "writeMaxMsg", "write>MaxMsg", "writeArray12", "raw_write12", "raw_write>MaxMsg", "writeArray16blob"};

// performs writer op `kind` with sequence tag `seq` on the link; returns the message bytes the op tries to enqueue
struct WPlan { std::string bytes; };
static WPlan plan_write(int kind, int seq, size_t maxmsg)
{
    WPlan p;
    switch(kind) {
    case W_SMALL: p.bytes = msg_int("/a", 1000 + seq); break;
    case W_MEDIUM:      // a string argument of 7 characters: 20 bytes, or 16 bytes where MaxMsg is below 20 (so that small rings see a string across their end)
        p.bytes = msg_str(maxmsg < 20 ? "/m" : "/bcde", std::string("abcdef") + (char)('0' + seq)); break;
    case W_BIG: p.bytes = msg_sized(maxmsg, (char)('0' + seq)); break;
    case W_OVER: p.bytes = msg_sized(maxmsg + 4, (char)('0' + seq)); break;
    case W_ARRAY: p.bytes = msg_int("/w", 2000 + seq); break;
    case W_RAW:
        p.bytes = msg_int("/r", 3000 + seq);
        // later positions: the message as a port callback sees it (the pointer stands behind the matched part of the address), 11 bytes long
        if(seq >= 1) p.bytes = p.bytes.substr(1);
        break;
    case W_RAW_OVER:
        p.bytes = msg_sized(maxmsg + 4, (char)('A' + seq));
        // second and later positions of a program: an over-long BUNDLE whose elements end exactly at multiples of 12 behind the 16-byte header,
        // so that for MaxMsg = 16 + 12k a well-formed shorter bundle ends exactly at MaxMsg (it must be dropped whole all the same)
        if(seq >= 1 && maxmsg >= 16 && (maxmsg - 16) % 12 == 0) {
            std::string b("#bundle\0", 8); b += std::string("\0\0\0\0\0\0\0\1", 8);
            for(size_t k = 0; k <= (maxmsg - 16) / 12; ++k) { b += std::string("\0\0\0\10", 4); b += std::string("/x\0\0,\0\0\0", 8); b[b.size() - 6] = (char)('A' + seq); }
            b += std::string("\0\0\0\0", 4);      // the zero size word that ends a bundle in memory (the length function walks up to it)
            p.bytes = b;
        }
        break;
    case W_BLOB: { unsigned char bb[2] = {(unsigned char)(0xb0 + seq), 0x0b}; rtosc_arg_t a; a.b.len = 2; a.b.data = bb; p.bytes = mk_msg("/b", "b", &a); break; }   // the size word sits 8 bytes into the message
    }
    return p;
}
static void do_write(rtosc::ThreadLink &tl, int kind, int seq, size_t maxmsg, const char *raw_bytes)
{
    // no heap allocation in here: this runs on a fiber stack that may be abandoned
    char s[300];
    switch(kind) {
    case W_SMALL:
        // later positions: the message is built in the link's own buffer() and handed to raw_write() from there (what buffer() is for)
        if(seq >= 1) { rtosc_message(tl.buffer(), tl.buffer_size(), "/a", "i", 1000 + seq); tl.raw_write(tl.buffer()); }
        else tl.write("/a", "i", 1000 + seq);
        break;
    case W_MEDIUM: memcpy(s, "abcdef", 6); s[6] = (char)('0' + seq); s[7] = 0; tl.write(maxmsg < 20 ? "/m" : "/bcde", "s", s); break;
    case W_BIG: case W_OVER: {
        // same string as msg_sized() produces
        size_t total = kind == W_BIG ? maxmsg : maxmsg + 4;
        size_t sl = 0; { const char *str = raw_bytes + 8; sl = strlen(str); memcpy(s, str, sl + 1); }
        (void)total;
        if(kind == W_OVER && seq >= 1) { rtosc_arg_t a; a.s = s; tl.writeArray("/x", "s", &a); }      // the array form must drop an over-long message as well
        else tl.write("/x", "s", s);
        break; }
    case W_ARRAY: { rtosc_arg_t a; a.i = 2000 + seq; tl.writeArray("/w", "i", &a); break; }
    case W_RAW: case W_RAW_OVER: tl.raw_write(raw_bytes); break;
    case W_BLOB: { unsigned char bb[2] = {(unsigned char)(0xb0 + seq), 0x0b}; rtosc_arg_t a; a.b.len = 2; a.b.data = bb; tl.writeArray("/b", "b", &a); break; }
    }
}

// ------------------------------------------------------------------------------------------------
// Part A: bounded histories
struct Instance {
    size_t maxmsg, nmsgs; size_t offset; int prefill;
    std::vector<int> wprog, rprog;
    std::string id() const
    {
        std::string s = "A|" + std::to_string(maxmsg) + "x" + std::to_string(nmsgs) + "|off" + std::to_string(offset) + "|pre" + std::to_string(prefill) + "|w";
        for(int k : wprog) s += std::to_string(k); s += "|r"; for(int k : rprog) s += std::to_string(k);
        return s;
    }
};

struct Exec {
    std::vector<uint8_t> choices; std::vector<uint8_t> alt; std::vector<uint8_t> run_enabled; int preemptions = 0;
    bool failed = false; std::string sig, detail;
};

static Ctx g_ctx;

// returns "" or what went wrong: the rotation is plain sequential use of the link (write one message, read it back), so an index that does
// not stand where the lengths of the messages put it, or a message that does not come back, is a finding and not a harness problem
static std::string rotate_to(Ctx &c, size_t off)
{
    // sequentially write and read 8- and 12-byte messages until the read index stands at `off`; the sequence of steps is a
    // shortest path in the graph of offsets (ring sizes need not be multiples of 4)
    std::string m8 = mk_msg("/x", "", nullptr), m12 = msg_int("/y", 7);
    const size_t size = c.v.size;
    std::vector<int> prev(size, -1), step(size, 0);
    size_t from = (size_t)*c.v.read;
    std::vector<size_t> q = {from}; prev[from] = (int)from;
    for(size_t h = 0; h < q.size(); ++h) for(int st : {8, 12}) { size_t n = (q[h] + st) % size; if(prev[n] < 0) { prev[n] = (int)q[h]; step[n] = st; q.push_back(n); } }
    if(prev[off] < 0) { fprintf(stderr, "harness: offset %zu not reachable in a ring of %zu bytes\n", off, size); exit(3); }
    std::vector<int> plan; for(size_t p = off; p != from; p = (size_t)prev[p]) plan.push_back(step[p]);
    size_t expect = from;
    for(size_t k = plan.size(); k-- > 0;) {
        const std::string &m = plan[k] == 8 ? m8 : m12;
        c.tl->raw_write(m.c_str());
        if(!c.tl->hasNext()) return "after " + std::to_string(plan.size() - k) + " sequential write/read pairs hasNext() is false behind a write of " + std::to_string(plan[k]) + " bytes";
        const char *r = c.tl->read();
        if(!r || memcmp(r, m.data(), m.size())) return "sequential write/read pair " + std::to_string(plan.size() - k) + " returned other bytes than were written";
        expect = (expect + plan[k]) % size;
        if((size_t)*c.v.read != expect || (size_t)*c.v.write != expect) return "after sequential write/read pairs of " + std::to_string(plan.size() - k) + " messages the indices stand at read=" + std::to_string(*c.v.read) + " write=" + std::to_string(*c.v.write) + ", the message lengths put them at " + std::to_string(expect);
    }
    return "";
}

static Exec run_instance(const Instance &in, const std::vector<uint8_t> &prefix)
{
    Ctx &c = g_ctx;
    G = &c;
    c.make(in.maxmsg, in.nmsgs);
    {
        std::string why = rotate_to(c, in.offset);
        if(!why.empty()) { Exec x; x.failed = true; x.sig = std::string("sequential-use|write-read-pairs|ring-") + (c.v.size % 4 ? "size-not-multiple-of-4" : "size-multiple-of-4"); x.detail = "ring " + std::to_string(in.maxmsg) + "x" + std::to_string(in.nmsgs) + ": " + why; return x; }
    }
    c.shadow.assign(c.v.size, Ctx::Sh{0, -1, {0, 0}});
    // message table: prefilled + planned writes
    c.mon.table.clear();
    std::vector<std::string> pre; for(int k = 0; k < in.prefill; ++k) pre.push_back(msg_int("/p", 500 + k));
    for(auto &m : pre) { int id = (int)c.mon.table.size(); c.mon.table.push_back(m); c.mon.invoke_w(id); c.tl->raw_write(m.c_str()); c.mon.respond_w(); }
    std::vector<WPlan> plans; std::vector<int> wid;
    for(size_t k = 0; k < in.wprog.size(); ++k) { plans.push_back(plan_write(in.wprog[k], (int)k, in.maxmsg)); wid.push_back((int)c.mon.table.size()); c.mon.table.push_back(plans.back().bytes); }

    c.S.spawn(0, [&]() {
        for(size_t k = 0; k < in.wprog.size(); ++k) {
            c.obs[0].clear(); c.points[0] = 0;
            c.mon.invoke_w(wid[k]);
            do_write(*c.tl, in.wprog[k], (int)k, in.maxmsg, plans[k].bytes.c_str());
            if(!c.mon.respond_w()) c.fail(std::string("not-linearizable|") + WKN[in.wprog[k]], "no linearization explains the completed write");
        }
    });
    c.S.spawn(1, [&]() {
        for(size_t k = 0; k < in.rprog.size(); ++k) {
            bool la = in.rprog[k] == 1;
            c.obs[1].clear(); c.points[1] = 0;
            c.mon.invoke_r(la ? R_HASNEXT_LA : R_HASNEXT);
            bool hn = la ? c.tl->hasNextLookahead() : c.tl->hasNext();
            if(!c.mon.respond_r(hn)) { c.fail(std::string("not-linearizable|") + ROPN[la ? R_HASNEXT_LA : R_HASNEXT], std::string("returned ") + (hn ? "true" : "false") + "; possible spec states before: (none consistent)"); return; }
            if(!hn) continue;
            c.obs[1].clear(); c.points[1] = 0;
            c.mon.invoke_r(la ? R_READ_LA : R_READ);
            const char *m = la ? c.tl->read_lookahead() : c.tl->read();
            size_t len = rtosc_message_length(m, in.maxmsg);
            int id = -2; for(size_t i = 0; i < c.mon.table.size(); ++i) if(c.mon.table[i].size() == len && !memcmp(c.mon.table[i].data(), m, len)) id = (int)i;
            if(!c.mon.respond_r(id)) { c.fail(std::string("not-linearizable|") + ROPN[la ? R_READ_LA : R_READ], id == -2 ? "returned bytes that are no written message (torn or corrupted)" : "returned message id " + std::to_string(id) + ", which no linearization allows here (lost, duplicated or reordered)"); return; }
        }
    });

    Exec x;
    int running = -1;
    size_t i = 0;
    while(c.S.enabled(0) || c.S.enabled(1)) {
        int opts[2], n = 0;
        bool run_en = running >= 0 && c.S.enabled(running);
        if(run_en) { opts[n++] = running; if(c.S.enabled(1 - running)) opts[n++] = 1 - running; }
        else { for(int f = 0; f < 2; ++f) if(c.S.enabled(f)) opts[n++] = f; }
        uint8_t ch = i < prefix.size() ? prefix[i] : 0;
        if(ch >= n) { fprintf(stderr, "harness: schedule prefix diverged (choice %d of %d options at point %zu)\n", ch, n, i); exit(3); }
        if(run_en && opts[ch] != running) x.preemptions++;
        x.choices.push_back(ch); x.alt.push_back(n > 1); x.run_enabled.push_back(run_en);
        running = opts[ch];
        c.S.step(running);
        ++i;
        if(c.failed) break;
        if(i > 5000) { c.fail("does-not-terminate|schedule", "more than 5000 scheduling points"); break; }
    }
    if(!c.failed) {
        // sequential drain through the monitor: everything accepted and not consumed comes out in order, then hasNext is false
        for(int k = 0; k < 16; ++k) {
            c.mon.invoke_r(R_HASNEXT); bool hn = c.tl->hasNext();
            if(!c.mon.respond_r(hn)) { c.fail("final-drain|hasNext", std::string("hasNext()=") + (hn ? "true" : "false") + " disagrees with every linearization"); break; }
            if(!hn) break;
            c.mon.invoke_r(R_READ); const char *m = c.tl->read(); size_t len = rtosc_message_length(m, in.maxmsg);
            int id = -2; for(size_t q = 0; q < c.mon.table.size(); ++q) if(c.mon.table[q].size() == len && !memcmp(c.mon.table[q].data(), m, len)) id = (int)q;
            if(!c.mon.respond_r(id)) { c.fail("final-drain|read", "drained message id " + std::to_string(id) + " disagrees with every linearization"); break; }
        }
    }
    x.failed = c.failed; x.sig = c.fail_sig; x.detail = c.fail_detail;
    G = nullptr;
    return x;
}

static std::string sched_str(const std::vector<uint8_t> &ch) { std::string s; for(uint8_t c : ch) s += (char)('0' + c); return s; }

static uint64_t g_execs = 0;
static std::set<std::string> *g_final_states = nullptr;

static void explore(const Instance &in, std::vector<uint8_t> prefix, int bound, int exact, std::vector<uint64_t> &per_k)
{
    Exec x = run_instance(in, prefix);
    ++g_execs;
    vp::transition(x.choices.size());
    if(x.preemptions == exact || x.failed) {
        vp::trace(); vp::eval();
        per_k[std::min<size_t>(x.preemptions, per_k.size() - 1)]++;
        if(x.failed) {
            std::string cid = in.id() + "|sched=" + sched_str(x.choices);
            vp::violation(x.sig, cid, x.detail + " [instance " + in.id() + ", " + std::to_string(x.preemptions) + " preemptions]");
        }
    }
    if(x.failed) return;
    std::vector<int> before(x.choices.size() + 1, 0);
    for(size_t i = 0; i < x.choices.size(); ++i) before[i + 1] = before[i] + ((x.run_enabled[i] && x.choices[i] != 0) ? 1 : 0);
    for(size_t i = prefix.size(); i < x.choices.size(); ++i) {
        if(!x.alt[i]) continue;
        int cost = before[i] + (x.run_enabled[i] ? 1 : 0);
        if(cost > bound) continue;
        std::vector<uint8_t> p(x.choices.begin(), x.choices.begin() + i);
        p.push_back(1);
        explore(in, p, bound, exact, per_k);
    }
}

// ------------------------------------------------------------------------------------------------
// Part B: looping threads, BFS to a fixpoint
struct BRing { size_t maxmsg, nmsgs; };
static BRing g_bring = {16, 2};
enum BOp { B_W_SMALL = 0, B_W_BIG, B_W_OVER, B_W_STEP, B_R_READ, B_R_LA, B_R_STEP, B_END };
static const char *BOPN[B_END] = {"W:start write8", "W:start writeMaxMsg", "W:start write>MaxMsg", "W:step", "R:start if(hasNext)read", "R:start if(hasNextLookahead)read_lookahead", "R:step"};

struct SysB {
    struct Inst {
        Ctx *c;
        int wcmd = -1, rcmd = -1;      // command handed to an idle fiber
        bool widle = true, ridle = true;
        int wtag = 0;
        int wkind_cur = -1, rkind_cur = -1, rphase = 0;
        std::string wbytes;            // bytes of the write in progress (allocated by the scheduler side, not on the fiber)
        bool diverged = false;
        Inst()
        {
            c = new Ctx;
            G = c;
            c->make(g_bring.maxmsg, g_bring.nmsgs);
            c->reduced = true;
            // message table: 4 tags x {8-byte, MaxMsg-byte, MaxMsg+4-byte}
            for(int t = 0; t < 4; ++t) { char a[3] = {'/', (char)('0' + t), 0}; c->mon.table.push_back(mk_msg(a, "", nullptr)); }
            for(int t = 0; t < 4; ++t) c->mon.table.push_back(g_bring.maxmsg >= 12 ? msg_sized(g_bring.maxmsg, (char)('0' + t)) : std::string("unused") + (char)('0' + t));
            for(int t = 0; t < 4; ++t) c->mon.table.push_back(msg_sized(g_bring.maxmsg + 4, (char)('0' + t)));
            Inst *self = this;
            c->S.spawn(0, [self]() {
                Ctx &c = *self->c;
                for(;;) {
                    self->widle = true; c.S.yield(); self->widle = false;   // wait for a command
                    int kind = self->wcmd; int tag = self->wtag;
                    c.obs[0].clear(); c.points[0] = 0;
                    int id = (kind == B_W_SMALL ? 0 : kind == B_W_BIG ? 4 : 8) + tag;
                    c.mon.invoke_w(id);
                    if(kind == B_W_SMALL) { char a[3] = {'/', (char)('0' + tag), 0}; c.tl->write(a, ""); }
                    else c.tl->write("/x", "s", c.mon.table[id].c_str() + 8);
                    if(!c.mon.respond_w()) c.fail("not-linearizable|write", "no linearization explains the completed write");
                    self->wtag = (tag + 1) % 4;
                }
            });
            c->S.spawn(1, [self]() {
                Ctx &c = *self->c;
                for(;;) {
                    self->ridle = true; c.S.yield(); self->ridle = false;
                    bool la = self->rcmd == B_R_LA;
                    c.obs[1].clear(); c.points[1] = 0; self->rphase = 0;
                    c.mon.invoke_r(la ? R_HASNEXT_LA : R_HASNEXT);
                    bool hn = la ? c.tl->hasNextLookahead() : c.tl->hasNext();
                    if(!c.mon.respond_r(hn)) { c.fail(std::string("not-linearizable|") + ROPN[la ? R_HASNEXT_LA : R_HASNEXT], std::string("returned ") + (hn ? "true" : "false")); continue; }
                    if(!hn) continue;
                    c.obs[1].clear(); c.points[1] = 0; self->rphase = 1; c.rbuf_fresh = false;
                    c.mon.invoke_r(la ? R_READ_LA : R_READ);
                    const char *m = la ? c.tl->read_lookahead() : c.tl->read();
                    size_t len = rtosc_message_length(m, g_bring.maxmsg);
                    int id = -2; for(size_t i = 0; i < c.mon.table.size(); ++i) if(c.mon.table[i].size() == len && !memcmp(c.mon.table[i].data(), m, len)) id = (int)i;
                    if(!c.mon.respond_r(id)) c.fail(std::string("not-linearizable|") + ROPN[la ? R_READ_LA : R_READ], id == -2 ? "returned bytes that are no written message (torn or corrupted)" : "returned message id " + std::to_string(id) + ", which no linearization allows here (lost, duplicated or reordered)");
                }
            });
            // run both fibers to their first idle point
            c->S.step(0); c->S.step(1);
            G = nullptr;
        }
        ~Inst() { delete c; }
        Inst(const Inst &) = delete;
    };
    static void ops(const Inst &I, std::vector<int> &out)
    {
        if(I.diverged) return;
        // (writes larger than MaxMsg are covered by Part A; they only add a no-effect writer operation here)
        if(I.widle) { out.push_back(B_W_SMALL); if(g_bring.maxmsg >= 12) out.push_back(B_W_BIG); } else out.push_back(B_W_STEP);
        if(I.ridle) { out.push_back(B_R_READ); out.push_back(B_R_LA); } else out.push_back(B_R_STEP);
    }
    static bool probe(int) { return false; }
    static std::string opname(int op) { return BOPN[op]; }
    static void apply(Inst &I, int op, bool check)
    {
        G = I.c;
        Ctx &c = *I.c;
        if(op <= B_W_OVER) { I.wcmd = op; I.wkind_cur = op; c.S.step(0); }
        else if(op == B_W_STEP) c.S.step(0);
        else if(op == B_R_READ || op == B_R_LA) { I.rcmd = op; I.rkind_cur = op; c.S.step(1); }
        else c.S.step(1);
        if(c.failed) {
            if(check) vp::violation(c.fail_sig, vp::current_case(), c.fail_detail + " [ring " + std::to_string(g_bring.maxmsg) + "x" + std::to_string(g_bring.nmsgs) + "]");
            I.diverged = true;
        }
        if(check) vp::outcome(std::string(BOPN[op]));
        G = nullptr;
    }
    static std::string canon(const Inst &I)
    {
        const Ctx &c = *I.c;
        if(I.diverged) return "DIVERGED:" + c.fail_sig;
        size_t w = (size_t)*c.v.write, r = (size_t)*c.v.read, la = (size_t)*c.v.lookahead, size = c.v.size;
        std::string s = "w" + std::to_string(w) + " r" + std::to_string(r) + " l" + std::to_string(la) + " live:";
        {   // the live region as a sequence of table messages with tags relative to the writer's next tag
            // (rotating all tags maps executions to executions); raw bytes if it does not parse
            std::string bytes; for(size_t k = r; k != w; k = (k + 1) % size) bytes += c.v.ring[k];
            std::string parsed; size_t p = 0; bool ok = true;
            while(p < bytes.size() && ok) {
                ok = false;
                for(size_t id = 0; id < c.mon.table.size(); ++id) { const std::string &m = c.mon.table[id]; if(bytes.compare(p, m.size(), m) == 0) { parsed += (char)('A' + (id / 4) * 4 + (((id % 4) - I.wtag) & 3)); p += m.size(); ok = true; break; } }
            }
            s += ok ? parsed : "raw:" + vp::hex(bytes.data(), bytes.size());
        }
        // fiber progress: idle, or (operation, values its sync points returned so far)
        s += " W:"; if(I.widle) s += "idle"; else { s += std::to_string(I.wkind_cur) + "@" + std::to_string(c.points[0]) + "("; for(long x : c.obs[0]) s += std::to_string(x) + ","; s += ")"; }
        // (absolute tag of the writer is not part of the canon: see the symmetry note above)
        s += " R:"; if(I.ridle) s += "idle"; else { s += std::to_string(I.rkind_cur) + "." + std::to_string(I.rphase) + "@" + std::to_string(c.points[1]) + "("; for(long x : c.obs[1]) s += std::to_string(x) + ","; s += ")"; }
        // happens-before state, relative (only comparisons matter): which release the reader/writer has already seen
        s += " hb:" + std::to_string(c.vc[1][0] >= c.rel[0][0] ? 1 : 0) + std::to_string(c.vc[0][1] >= c.rel[1][1] ? 1 : 0);
        s += " mon:" + c.mon.canon(I.wtag);
        // the writer's scratch buffer is determined by (operation, tag); the reader's holds the message that the
        // pending read will return, so it is part of the state while a read is in progress
        if(!I.ridle && I.rphase == 1 && c.rbuf_fresh) {
            std::string rb(c.v.read_buffer, c.v.max_msg); std::string shown = "raw:" + vp::hex(rb.data(), rb.size());
            for(size_t id = 0; id < c.mon.table.size(); ++id) { const std::string &m = c.mon.table[id]; if(m.size() <= rb.size() && rb.compare(0, m.size(), m) == 0) { shown = std::string(1, (char)('A' + (id / 4) * 4 + (((id % 4) - I.wtag) & 3))); break; } }
            s += " rbuf:" + shown;
        }
        return s;
    }
};

// ------------------------------------------------------------------------------------------------
#include <set>
int main(int argc, char **argv)
{
    vp::init(argc, argv, "C06");
    const bool T = vp::thorough();
    std::string mode;
    for(int i = 1; i + 1 < argc; ++i) if(!strcmp(argv[i], "--part")) mode = argv[i + 1];

    // ---- debugging aid: --debug-hist "<maxmsg>x<n>:<op>,<op>,..." prints the canon and the monitor after every step
    for(int i = 1; i + 1 < argc; ++i) if(!strcmp(argv[i], "--debug-hist")) {
        unsigned mm, nn; int off = 0; sscanf(argv[i + 1], "%ux%u:%n", &mm, &nn, &off);
        g_bring = {mm, nn};
        SysB::Inst I; const char *p = argv[i + 1] + off;
        while(*p) { int op = atoi(p); SysB::apply(I, op, true); printf("%-45s %s\n    abs-monitor: %s wtag=%d\n", BOPN[op], SysB::canon(I).c_str(), I.c->mon.canon(0).c_str(), I.wtag); while(*p && *p != ',') ++p; if(*p) ++p; }
        return 0;
    }
    // ---- replay of a Part A case: A|16x2|off8|pre1|w03|r01|sched=0101..
    if(vp::replaying() && vp::ctx().replay.compare(0, 2, "A|") == 0) {
        Instance in; unsigned mm, nn, off, pre; char w[32] = "", r[32] = "", sc[6000] = "";
        if(sscanf(vp::ctx().replay.c_str(), "A|%ux%u|off%u|pre%u|w%31[0-9]|r%31[0-9]|sched=%5999[0-9]", &mm, &nn, &off, &pre, w, r, sc) >= 6) {
            in.maxmsg = mm; in.nmsgs = nn; in.offset = off; in.prefill = (int)pre;
            for(char *p = w; *p; ++p) in.wprog.push_back(*p - '0'); for(char *p = r; *p; ++p) in.rprog.push_back(*p - '0');
            std::vector<uint8_t> pf; for(char *p = sc; *p; ++p) pf.push_back((uint8_t)(*p - '0'));
            Exec x = run_instance(in, pf);
            vp::ctx().replay_hits = 1;
            if(x.failed) vp::violation(x.sig, vp::ctx().replay, x.detail);
        }
        return vp::finish();
    }

    // ---- the three indices must be atomic objects: both threads read and write them (shard 0 of each part reports it once)
    if(vp::ctx().shard == 0) {
        rtosc::ThreadLink probe(16, 2);
        vp::eval(1);
        if(!vpsched::view(probe).indices_atomic)
            vp::violation("data-race|ring-index-declaration|not-atomic", "decl|indices", "a ring index (write, read or read_lookahead) is no longer a std::atomic object: writer and reader access it concurrently without synchronisation, which is a data race by the C++ memory model whatever values the explored schedules produce");
    }
    if(vp::replaying() && vp::ctx().replay == "decl|indices") { vp::ctx().replay_hits = 1; return vp::finish(); }

    // ---- Part B (runs in shard 0 only; the bfs engine forks its own workers) -------------------------
    const bool is_bfs_shard = vp::ctx().shard == 0;
    if(is_bfs_shard && mode != "A") {
        vp::bound("partB_granularity", "scheduling points: every load of an index the other thread writes and every index store; own-index loads, ring memcpy and length scan are executed inside the step and still checked by the race detector and the region invariant (argument in the source)");
        std::vector<BRing> rings = {{8, 2}};
        // (measured: 8x3 reaches its fixpoint at 6e5 states; 12x2 has more than 1e7 states and is explored to the deadline)
        if(T) { rings.push_back({8, 3}); rings.push_back({12, 2}); }
        std::string done;
        for(auto &rg : rings) {
            if(vp::replaying() && false) break;
            g_bring = rg;
            bfs::Engine<SysB> E;
            E.max_depth = T ? 400 : 400;
            E.workers = getenv("VP_BFS_WORKERS") ? atoi(getenv("VP_BFS_WORKERS")) : (T ? 16 : 8);
            // the result files of several engines in one process must not collide
            vp::Ctx &C = vp::ctx();
            std::string keep_out = C.out;
            if(!C.out.empty()) C.out = C.out.substr(0, C.out.size() - 5) + "_B" + std::to_string(rg.maxmsg) + "x" + std::to_string(rg.nmsgs) + ".json";
            E.run();
            C.out = keep_out;
            done += std::to_string(rg.maxmsg) + "x" + std::to_string(rg.nmsgs) + ":states=" + std::to_string(E.n_states) + ",depth=" + std::to_string(E.completed_depth) + (E.fixpoint ? ",fixpoint" : ",NO-fixpoint") + " ";
            fprintf(stderr, "part B: %s\n", done.c_str());
            if(vp::replaying()) break;
        }
        vp::bound("partB_rings", done);
        vp::bound("partB", "looping writer {write8, writeMaxMsg} with tags mod 4 / looping reader {if(hasNext)read, if(hasNextLookahead)read_lookahead}; BFS over every sync-point interleaving to a fixpoint");
        if(vp::replaying()) return vp::finish();
    }
    if(mode == "B") return vp::finish();

    // ---- Part A ---------------------------------------------------------------------------------------
    // VP_C06_EXT=1 (second pass of the thorough tier): longer programs and more rings
    bool ext_flag = false; for(int i = 1; i < argc; ++i) if(!strcmp(argv[i], "--ext")) ext_flag = true;
    if(ext_flag && !T) return vp::finish();       // the extended pass exists in the thorough tier only
    const bool EXT = ext_flag;
    std::vector<BRing> rings = {{16, 2}, {16, 3}};
    if(EXT) { rings = {{16, 2}, {24, 2}}; }
    const int maxw = EXT ? 3 : 2, maxr = EXT ? 3 : 2, maxbound = EXT ? 2 : (T ? 3 : 2);
    std::vector<std::vector<int>> wprogs, rprogs;
    if(EXT) {
        // the core pass has every program of up to 2 operations; here: all programs of exactly 3 over 4 kinds
        static const int K4[4] = {W_SMALL, W_BIG, W_OVER, W_RAW};
        for(int a = 0; a < 4; ++a) for(int b = 0; b < 4; ++b) for(int c = 0; c < 4; ++c) wprogs.push_back({K4[a], K4[b], K4[c]});
    } else
    for(int len = 1; len <= maxw; ++len) { std::vector<int> p(len, 0); while(true) { wprogs.push_back(p); int k = len - 1; while(k >= 0 && ++p[k] == W_KINDS) p[k--] = 0; if(k < 0) break; } }
    for(int len = 1; len <= maxr; ++len) { std::vector<int> p(len, 0); while(true) { rprogs.push_back(p); int k = len - 1; while(k >= 0 && ++p[k] == 2) p[k--] = 0; if(k < 0) break; } }
    std::vector<Instance> insts;
    // a ring whose size (54) is not a multiple of 4: start offsets of both parities near the wrap-around, programs over the kinds
    // that fit an 18-byte MaxMsg (12-byte messages, the 16-byte blob message whose size word can straddle the ring end)
    if(!EXT) for(size_t off = 30; off < 54; off += 2) for(int pre = 0; pre <= 1; ++pre)
        for(auto &wp : wprogs) { bool ok = true; for(int k : wp) if(!(k == W_SMALL || k == W_MEDIUM || k == W_BLOB || k == W_RAW || k == W_OVER)) ok = false; if(!ok) continue;
            for(auto &rp : rprogs) { Instance in; in.maxmsg = 18; in.nmsgs = 3; in.offset = off; in.prefill = pre; in.wprog = wp; in.rprog = rp; insts.push_back(in); } }
    for(auto &rg : rings) for(size_t off = 0; off < rg.maxmsg * rg.nmsgs; off += 4) for(int pre = 0; pre <= 2; ++pre) {
        // quick: every start offset for the smallest ring, offsets near the wrap-around for the others
        // every start offset for the smallest ring, offsets at and near the wrap-around for the others
        if(!EXT && rg.nmsgs == 3 && !(off == 0 || off >= rg.maxmsg * rg.nmsgs - 16)) continue;
        if(EXT && !(off == 0 || off >= rg.maxmsg * rg.nmsgs - 16)) continue;
        if(EXT && pre == 1) continue;
        if(pre * 12 > (int)(rg.maxmsg * rg.nmsgs) - 1) continue;
        for(auto &wp : wprogs) for(auto &rp : rprogs) { Instance in; in.maxmsg = rg.maxmsg; in.nmsgs = rg.nmsgs; in.offset = off; in.prefill = pre; in.wprog = wp; in.rprog = rp; insts.push_back(in); }
    }
    const std::string PA = EXT ? "partA_ext_" : "partA_";
    vp::bound(PA + "instances", (long long)insts.size());
    vp::bound(PA + "programs", std::string(EXT ? "writer: all programs of exactly 3 ops over {write12, writeMaxMsg, write>MaxMsg, raw_write12}" : "writer: 1.." + std::to_string(maxw) + " ops over {write12, write20, writeMaxMsg, write>MaxMsg, writeArray12, raw_write12, raw_write>MaxMsg, writeArray16blob}") + "; reader: 1.." + std::to_string(maxr) + " rounds over {if(hasNext)read, if(hasNextLookahead)read_lookahead}");
    vp::bound(PA + "rings", EXT ? "16x2 24x2" : "16x2 16x3 18x3(54 bytes, not a multiple of 4)");
    vp::bound(PA + "start_states", "ring pre-rotated to start offsets (multiples of 4) and pre-filled with 0..2 messages");
    int completed_bound = -1;
    std::vector<uint64_t> per_k(8, 0);
    for(int b = 0; b <= maxbound; ++b) {
        bool stopped = false;
        for(size_t ii = 0; ii < insts.size(); ++ii) {
            if(!vp::mine(ii)) continue;
            if(vp::deadline_passed()) { stopped = true; break; }
            explore(insts[ii], {}, b, b, per_k);
            if(b == 0) { vp::state(); vp::nontrivial(vp::fnv(insts[ii].id())); if(ii % 1013 == 0) vp::sample(insts[ii].id()); }
        }
        if(stopped) { vp::cap(PA + "deadline: preemption bound " + std::to_string(completed_bound) + " completed for all instances, bound " + std::to_string(b) + " partial"); break; }
        completed_bound = b;
    }
    vp::bound(PA + "preemption_bound_completed", completed_bound);
    for(size_t k = 0; k < per_k.size(); ++k) if(per_k[k]) vp::outcome("schedules with " + std::to_string(k) + " preemptions", per_k[k]);
    vp::outcome("sync points executed", g_ctx.sync_points);
    return vp::finish();
}
